"""Per-property configuration of the driver (bin/vcheck): one file per property under bin/conf/<ID>.py
defining CHECK = {...}. Keys:

  pkg            repo-relative package whose test binary hosts the property
  level          evidence level (exploration | fault_enumeration)
  rule           how cases are generated and what makes one non-trivial / distinct (goes into evidence)
  technique, level_text, level_note   MANIFEST fields
  assumptions    list of strings (evidence)
  campaigns      list of {test, checks:{quick,thorough}, shards:{quick,thorough}?, timeout:{quick,thorough}? (s),
                 steps?, shrinktime?, mem_gb?, env?, tiers?, fixed?:bool, death_is_violation?, timeout_is_violation?}
                 a campaign {fuzz: <FuzzName>, fuzztime: {thorough: seconds}, tiers: [...]} is a native go fuzz campaign: a second binary
                 is built with coverage instrumentation and run after the rapid shards on all cores for the given time
  race           build with -race
  rewrites       [{file, pattern, replacement}] build-time source rewrites derived from the current tree
  extra_builds   [{pkg, out}] additional binaries built into build/<ID>/
  env            extra environment for every shard
  parallel       max concurrent shard processes (default: all cores)
  nontrivial_floor   minimal fraction of non-trivial cases (default 0.01), below => exit 2
"""
import glob
import importlib.util
import os

CHECKS = {}
# properties that are deliberately not claimed: id -> reason
NOT_APPLICABLE = {}
# /repo commits that add build-tag guarded hooks
HOOK_COMMITS = ["e07ac70"]

_here = os.path.dirname(os.path.abspath(__file__))
for _p in sorted(glob.glob(os.path.join(_here, "conf", "C*.py"))):
    _spec = importlib.util.spec_from_file_location("vconf_" + os.path.basename(_p)[:-3], _p)
    _m = importlib.util.module_from_spec(_spec)
    _spec.loader.exec_module(_m)
    CHECKS[os.path.basename(_p)[:-3]] = _m.CHECK
