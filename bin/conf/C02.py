"""C02 - search returns exactly the streams the query denotes, ordered and paged (harness/index zz_verif_c02_test.go, harness/vq, harness/vidx)."""

CHECK = {
    "pkg": "internal/index",
    "level": "exploration",
    "technique": ("property-based testing (rapid) of index.SearchStreams over generated index-file stacks against a reference evaluator of "
                  "the parsed normal form, an independent comparator chain and a page-validity rule that tolerates ties"),
    "rule": ("per case a population of 1-25 stream identities with 1-3 versions each, spread over 1-4 index files (oldest first) so "
             "that older versions are shadowed; attributes (ports, hosts, first/last packet time, payload runs and thereby byte "
             "counts) drawn from per-case sub-pools of the constants the query generator uses, so filters take both truth values and "
             "ties in every sort key are common; 0-3 tags with arbitrary match bits, uncertain bits and a generated, parsed definition; "
             "1-12 searches per case: expression from vq.GenExpr (all filter kinds, lists, ranges, same-stream variables, NOT/OR/THEN "
             "nesting, payload filters from a small pool, tag filters) plus sort term of 0-3 keys over all nine keys in both directions, "
             "limit {0,1,2,3,5,100} given as limit: term or as the caller's default, page {0,1,2} (offset = page*limit as "
             "View.SearchStreams computes it), optional ID restriction bitmask. Oracle: M = visible streams (newest version per ID) inside "
             "the restriction accepted by EvalNF of Parse(text).Conditions with tags decided as certain => stored bit, uncertain => "
             "EvalNF of the definition; the page must contain no ID twice, be a subset of M made of the newest stored versions (reader "
             "identity and attributes), have length min(limit, max(0,|M|-skip)), be non-decreasing under the requested keys, every "
             "element must be able to stand at its global position under ties, and more <=> limit>0 and |M|>skip+limit. "
             "Non-trivial: a search with |M|>=2 and (>=2 files with a shadowed ID, or limit+skip<|M|, or OR/NOT/tag in the query); "
             "distinct = distinct (population, tags, searches). "
             "Every search is run twice on the same index files and tag table and must give the same answer (a search changes nothing it reads). "
             "Sub-query campaign (TestVerifC02Sub): the same populations with up to two tags defined by one host, port or size filter (decided for some streams, pending for others, so that the definition is inlined and, inside a sub-query, re-scoped) that sub-query filters (@s:tag:a) and main filters (tag:a) may name; 1-8 searches per case on one tag table made of one or two OR-ed parts; a part has one sub-query s or two "
             "sub-queries a, b, each with 1-2 own filters (@s:cport/sport/port/id range/cbytes/protocol/chost/cdata literal, optionally a capture @s:cdata:\"(?P<v>k[0-9])\" "
             "binding v), 1-2 main filters using its values (id/cport/sport/cbytes/sbytes equal / at least / at most @s:var@+-d, chost/shost/host equal to @s:chost@/@s:shost@ also "
             "under /8 and /24 masks, ftime/ltime against @s:ftime@/@s:ltime@ +-5s, cdata/sdata containing @s:v@) and 0-2 plain main filters; every filter except the capture is negated "
             "with probability 1/6; sort, limit, page and ID restriction as above. Oracle: a stream S satisfies a part iff visible streams T (one per sub-query) exist that satisfy the "
             "sub-query's own filters and make every main filter true with T's values substituted (brute force over the population; the ID restriction applies to S only); page rule as above. "
             "Non-trivial: a search whose matches are a proper non-empty subset of the visible streams."),
    "level_text": ("generated populations, index layouts, queries, sort lists, pages and ID restrictions compared with an independent "
                   "reference; decides the property on the generated space only (sub-queries only in the conjunctive fragment of the sub-query campaign, no grouping); no absence claim"),
    "level_note": ("trusts vq.EvalNF (written from the struct comments of conditions.go); the relative order of equal keys and the order "
                   "between IPv4 and IPv6 hosts under host sorting are not asserted; tag definitions are rebased to the query's "
                   "reference time (as if parsed at the same instant)"),
    "assumptions": ["queries contain only absolute (dated) or same-stream-variable times, so the wall clock read by query.Parse never decides a verdict",
                    "tag definitions are expressed against the same reference time as the query they are inlined into",
                    "limit 0 implies offset 0 (View.SearchStreams computes offset = page*limit)",
                    "engine errors documented as unsupported (complex host condition, SubQueries, mixed converter names) discard the search"],
    "campaigns": [
        {"test": "TestVerifC02", "checks": {"quick": 48000, "thorough": 400000}, "timeout": {"quick": 900, "thorough": 7200}},
        {"test": "TestVerifC02Sub", "checks": {"quick": 10000, "thorough": 200000}, "timeout": {"quick": 900, "thorough": 7200}},
        {"test": "TestVerifC02Fixed", "fixed": True, "checks": {"quick": 1, "thorough": 1}},
    ],
}
