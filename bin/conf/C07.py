"""C07 - merging index files is invisible (harness/index, harness/vidx)."""

CHECK = {
    "pkg": "internal/index",
    "level": "exploration",
    "rule": ("stack of 2-5 index files (oldest first) built from one generated universe: shared stream IDs with other versions "
             "(unchanged, grown, other payload, completely different), per-file host windows (overlapping, nested, disjoint; both "
             "families), per-file time shifts (reference second earlier/later than the previous file's, streams before the "
             "first-added stream), shared captures. Steps until one file remains: replace a run by index.Merge of it - mostly a "
             "suffix as the manager does, sometimes an inner run or a single file; later steps merge outputs of earlier ones. After "
             "every step: ObserveStack(before) == ObserveStack(after) for the ID set and every field incl. payload and packet "
             "references, the inputs still read the same, and the output passes the C01 reader oracle against the newest versions "
             "of the run. Some streams are chatty (1200-5000 direction changes, more than any 4 KiB copy buffer holds). The search part of the statement: sorted / limited / time-window searches and filters built from the ports, hosts, byte counts, protocol, ids and payload bytes of visible streams (with OR / NOT) return the same streams before and after every merge. Host campaigns: 2-3 files of one-packet streams over overlapping ranges of a numbered host space "
             "(up to ~1.5 host groups per file, union overflowing a group). Non-trivial: some merged run contains a shadowed ID "
             "and two adjacent files with different reference seconds; distinct = distinct (files, steps)."),
    "technique": "property-based testing (rapid): metamorphic comparison of the visible stream set before/after each merge plus model-based check of the merge output",
    "level_text": ("generated stacks of overlapping index files merged step by step; the visible streams, the inputs and the merge "
                   "output are compared after every step; no absence claim beyond the explored cases"),
    "level_note": ("the search part of the statement is a hook (c07ExtraOracle) until the query machinery is wired in; Merge returning "
                   "several files (more than 2^32 streams/packets or 65536 host groups) is not reachable with generated sizes"),
    "assumptions": ["input files are produced by Writer.AddStream from records satisfying the C01 preconditions, or by earlier merges",
                    "a (capture, packet index) pair belongs to one stream ID across all files of a case (versions of one ID may share packets)"],
    "mem_gb": 10,
    "campaigns": [
        {"test": "TestVerifC07", "checks": {"quick": 3000, "thorough": 150000}, "death_is_violation": True},
        {"test": "TestVerifC07Hosts6", "checks": {"quick": 8, "thorough": 320}, "death_is_violation": True, "shrinktime": "20s"},
        {"test": "TestVerifC07Hosts4", "checks": {"quick": 2, "thorough": 48}, "shards": {"quick": 2, "thorough": 16},
         "death_is_violation": True, "shrinktime": "20s"},
        {"test": "TestVerifC07Fixed", "fixed": True, "checks": {"quick": 1, "thorough": 1}},
    ],
}
