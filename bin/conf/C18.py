"""C18 - regex length and suffix analysis (harness/regexanalysis + harness/vregex)."""

CHECK = {
    "pkg": "internal/tools/regexAnalysis",
    "level": "exploration",
    "rule": ("random regular-expression syntax trees (internal/verif/vregex): literals over all 256 byte values in every escape "
             "notation binaryregexp accepts, bracket/perl/POSIX classes (negated, folded), '.', alternation incl. empty and "
             "common-suffix branches, concatenation, * + ? {n} {n,} {n,m} (n,m<=6) greedy and lazy, nested up to depth 4, "
             "capturing / non-capturing / named / flag groups, bare (?i) (?s) (?-i) ... flag switches, a global (?i)/(?s) prefix, "
             "literal tails; 40% of the cases may contain ^ $ \\A \\z \\b \\B (12% of their atoms). Exact min/max member length, "
             "shortest/longest members and 30 random members come from the tree; the expression string is passed to "
             "AcceptedLength/ConstantSuffix exactly as search_data.go does (MaxUint = unbounded). Checked: no error; every "
             "member that \\A(?:re)\\z accepts lies in [min,max] and ends with the suffix; for assertion-free trees min is exact "
             "and attained, max is exact and attained when the computed max is finite, unbounded members => MaxUint. "
             "Non-trivial: the tree has an alternation, a repetition, an assertion or case folding; distinct = distinct "
             "expression strings. "
             "Thorough tier only: FuzzVerifC18, go's native coverage-guided fuzzer over (expression text, haystack) pairs: every match binaryregexp finds at any start position of the haystack must have a length inside [MinLength, MaxLength] and end with the constant suffix (reaches unicode classes, flag groups and escapes the tree generator does not produce); evidence counts executions and corpus entries with new coverage."),
    "technique": "property-based testing with a syntax-tree generator whose language (lengths, members) is known by construction; engine rsc.io/binaryregexp as membership oracle",
    "level_text": ("generated expressions compared with exact lengths and sampled members of their own syntax tree; finds wrong "
                   "bounds/suffixes for particular program shapes (memoisation, loop detection, folding); no absence claim"),
    "level_note": ("trusts rsc.io/binaryregexp as the definition of 'matches' (its parser's fold-insensitive prefix factoring is "
                   "tolerated, see harness comment); a computed MaxUint for a bounded language is counted, not failed (the "
                   "property claims attainment only for finite bounds); program-path count bounded to 3000 because "
                   "ConstantSuffix enumerates paths; unicode classes \\p{..} and literals above 0xFF are not generated"),
    "assumptions": ["rsc.io/binaryregexp matching of \\A(?:re)\\z defines the set of strings the expression matches",
                    "expressions reach the analyses only after binaryregexp.Compile accepted them (callers in search_data.go)",
                    "classes matching no byte at all and runes above 0xFF are outside the domain"],
    "nontrivial_floor": 0.05,
    "campaigns": [
        {"test": "TestVerifC18", "checks": {"quick": 400000, "thorough": 8000000}},
        {"test": "TestVerifC18Fixed", "fixed": True, "checks": {"quick": 1, "thorough": 1}},
        # coverage-guided campaign over (expression text, haystack) pairs: thorough tier only, not pinnable to a seed
        {"fuzz": "FuzzVerifC18", "fuzztime": {"thorough": 240}, "tiers": ["thorough"]},
    ],
}
