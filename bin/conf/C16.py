"""C16 - manager scenario engine (harness/manager zz_verif_scenario_test.go, zz_verif_engine_test.go)."""

CHECK = {
    "pkg": "internal/index/manager",
    "level": "exploration",
    "engine": "manager-scenario-engine",
    "technique": "stateful property testing (rapid state machine) of the service with a harness-owned schedule of background job completions; invariant evaluated inside the service loop after every step",
    "rule": "TODO",
    "level_text": "TODO",
    "level_note": "TODO",
    "assumptions": [],
    "extra_builds": [{"pkg": "internal/verif/convbin", "out": "convbin"}],
    "campaigns": [
        {"test": "TestVerifC16", "checks": {"quick": 800, "thorough": 40000}, "steps": 40, "shrinktime": "90s", "death_is_violation": True,
         "timeout": {"quick": 600, "thorough": 5400}},
    ],
}
