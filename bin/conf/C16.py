"""C16 - manager scenario engine (harness/manager zz_verif_scenario_test.go, zz_verif_engine_test.go)."""

CHECK = {
    "pkg": "internal/index/manager",
    "level": "exploration",
    "engine": "manager-scenario-engine",
    "technique": "stateful property testing (rapid state machine) of the service with a harness-owned schedule of background job completions; invariant evaluated inside the service loop after every step",
    "rule": ('scenario = generated UDP traffic (3-8 flows, up to 26 datagrams with payloads from a small pool, cut into 2-5 capture files so flows continue across captures) plus a rapid state-machine history of: importing the next capture(s), tag add / query edit / delete / colour, mark add / remove, converter attach / detach / reset, opening / using / releasing views, and *delivering the completion of a parked background job* (import, tagging, merge, convert) chosen by the generator - every job parks at a gate right before it posts its completion to the service loop, so the order of completions relative to API calls and to each other is generated. Scenario variants added later: one scenario in sixteen has 63/64/65/127/128 single-datagram flows (bitmap word boundaries); one import in eight also queues an upload that is no capture (empty, garbage, cut header); streams whose payload contains "x5" make the harness converter answer with a stray line in front of its output (the service gives up on them: no cached output may exist); tag/d, which no other tag refers to, may get a definition with a sub-query (ground truth by vq.EvalNFSub: some visible stream per sub-query name makes every condition true); after the final checks a detach phase: every converter is detached from every tag, the jobs in flight finish, the remaining captures are imported and a tag matching everything is added - the converter executable\'s side log of conversions must not grow any more and its queue stays empty.; '
             "after every step every cached converter output equals the harness's own implementation of the converter function applied to the stream's current chunks; after settling every stream matching a tag with an attached converter has output. Non-trivial: a convert job was delivered and >=2 imports completed (streams extended after they were converted)."),
    "level_text": 'invariant checked after every step of generated histories with generated completion orders; finds lost invalidations / reference-count and snapshot errors that need a specific interleaving; no absence claim',
    "level_note": "the converter executable is the harness's deterministic convbin; detaching is judged after the jobs in flight at that moment have finished (a job already started keeps its list): from then on the converter's side log must not grow and its queue stays empty, whatever is imported or tagged afterwards",
    "assumptions": [],
    "extra_builds": [{"pkg": "internal/verif/convbin", "out": "convbin"}],
    "rewrites": [
        # reassembly snapshots after 4 packets instead of 100000: the scenarios have a few dozen packets
        {"file": "internal/index/builder/builder.go", "pattern": r">= 100_000\b", "replacement": ">= 4"},
    ],
    "campaigns": [
        {"test": "TestVerifC16", "checks": {"quick": 800, "thorough": 40000}, "steps": 40, "shrinktime": "90s", "death_is_violation": True,
         "timeout": {"quick": 600, "thorough": 5400}},
        {"test": "TestVerifC16Fixed", "fixed": True, "checks": {"quick": 1, "thorough": 1}, "death_is_violation": True},
    ],
}
