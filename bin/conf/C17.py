"""C17 - bitmask containers (harness/bitmask)."""

CHECK = {
    "pkg": "internal/tools/bitmask",
    "level": "exploration",
    "rule": ("rapid state machine over three registers, each holding the connected (run list), long (word array) and "
             "short (linked words) representation next to a plain set model; operations set/setrun/unset/flip, "
             "or/and/sub/xor in place and as ...Copy, copy, shrink, inject, extract; bits 0..200 biased to word "
             "boundaries and to +-2 of existing bits. After every operation every representation is compared with the "
             "model (IsSet 0..269, OnesCount, Len, IsZero, Next, Equal between registers, Extract's result, run-list "
             "representation invariant). Non-trivial: history of >=4 operations containing an inject/extract or a "
             "binary set operation; distinct = distinct operation histories."),
    "technique": "model-based stateful property testing (rapid state machine) against a plain integer-set model",
    "level_text": ("generated operation histories over all three representations compared with a set model after every step; "
                   "finds representation-invariant breakage that only a later operation observes; no absence claim"),
    "level_note": "trusts the Go map based set model; bits limited to 0..270; aliasing of both operands of an in-place operation is not generated",
    "assumptions": ["in-place binary operations are never applied with both operands being the same object",
                    "bits up to 270 only; word-array type has no Extract and is rebuilt from the model after one"],
    "campaigns": [
        {"test": "TestVerifC17", "checks": {"quick": 40000, "thorough": 3000000}},
        {"test": "TestVerifC17Fixed", "fixed": True, "checks": {"quick": 1, "thorough": 1}},
    ],
}
