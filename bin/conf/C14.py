"""C14 - the query parser is total (harness/query/zz_verif_c14_test.go)."""

CHECK = {
    "pkg": "internal/query",
    "level": "exploration",
    "rule": ("inputs: 52% grammar-aware token sequences (all 21 filter keys in mixed case, value lists up to 150 elements, closed/open "
             "ranges, +/- arithmetic on numbers and on a small pool of repeated variables so that coefficients > 1 arise, host "
             "masks, durations and absolute times, payload expressions with variables and converters, sub-query prefixes, "
             "sort:/limit:/group:, ':' and '=' separators, quoted and unquoted values, AND (explicit and juxtaposed) / OR / THEN / "
             "NOT ('-' '!') / parentheses to depth 3; a quarter of them 'sloppy': values of another key, junk, malformed tokens, "
             "missing quotes), 3% shapes with a normal form of 20..200 conjuncts, 5% nesting 10..300 deep, 20% byte-level mutations "
             "of grammar inputs (delete/insert token/replace/duplicate/truncate), 12% dictionary splices, 8% raw bytes. "
             "The size of the normal form is estimated conservatively on the syntax tree of the production grammar; inputs above "
             "200 conjuncts (or 400 conditions per conjunct) are discarded (the property exempts them). Oracle: no panic; returns "
             "within a 25 s watchdog (wall clock and process CPU time, stack sampled twice inside internal/query before a hang "
             "is reported; heap guard 3 GiB); two parses agree in error text or in sorting, limit, grouping and "
             "Conditions.String() (durations modulo k*(ref1-ref2)). Non-trivial: accepted by the grammar and carrying >= 2 "
             "filters, a variable, a list or a negation; distinct = distinct input strings. "
             "Thorough tier only: FuzzVerifC14, go's native coverage-guided fuzzer over byte strings with the same oracle, seeded with 300 examples of the generator above "
             "and the reproducers of repaired findings; its evidence counts executions (evaluations) and corpus entries with new coverage (non-trivial)."),
    "technique": "grammar-based and mutation-based generation (rapid) with an in-process watchdog, panic capture and a double-parse determinism check; in the thorough tier additionally go's native coverage-guided fuzzer on the same oracle, seeded with 300 examples of the structured generator",
    "level_text": ("generated query texts, from well-formed to raw bytes, run through query.Parse under a watchdog; finds panics, "
                   "simplification loops without progress, slow normal-form handling and run-to-run differences; no absence claim"),
    "level_note": ("promptness is only asserted for inputs whose estimated normal form stays below 200 conjuncts; nesting deeper "
                   "than 300 and inputs longer than a few KiB are not generated (the grammar parser is super-linear in the nesting "
                   "depth: 100 000 parentheses take > 10 s); the native fuzz campaign (thorough tier) cannot be pinned to a seed: its evidence counts executions and coverage-increasing inputs, a failing input is saved as the replay; the "
                   "size estimate and the shapes of open findings are computed with the production grammar (parser.ParseString / "
                   "queryTerm.QueryConditions), never with the simplification code under test"),
    "assumptions": ["a parse that is still inside internal/query after 25 s of wall-clock and of CPU time on an input with a small estimated normal form is a hang",
                    "two parses of one text may differ only in durations that depend on time.Now(), by an integer multiple (|k|<=64) of the difference of the two reference times",
                    "process-killing failures (fatal error: stack overflow) are attributed by the driver through the per-case trace file"],
    "mem_gb": 8,
    "nontrivial_floor": 0.05,
    # timeout_is_violation / death_is_violation are deliberately not set: hangs are decided in-process (watchdog with
    # stack confirmation) and fatal errors are recognised by the driver's crash pattern; a shard that merely dies or
    # exceeds its wall-clock cap is inconclusive, not a verdict about Parse.
    "campaigns": [
        {"test": "TestVerifC14", "checks": {"quick": 30000, "thorough": 1000000}, "timeout": {"quick": 900, "thorough": 3600}},
        {"test": "TestVerifC14Fixed", "fixed": True, "checks": {"quick": 1, "thorough": 1}},
        # coverage-guided byte-level campaign (go's native fuzzer, not pinnable to a seed): thorough tier only
        {"fuzz": "FuzzVerifC14", "fuzztime": {"thorough": 240}, "tiers": ["thorough"]},
    ],
}
