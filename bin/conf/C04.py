"""C04 - payload filters agree with plain regular-expression matching (harness/index zz_verif_c04_test.go)."""

CHECK = {
    "pkg": "internal/index",
    "level": "exploration",
    "technique": ("differential property testing of index.SearchStreams against an unoptimised reference matcher "
                  "(plain binaryregexp search per representation, harness/vq) over generated expressions, payload layouts and converter outputs"),
    "rule": "TODO",
    "level_text": "TODO",
    "level_note": "TODO",
    "assumptions": [],
    "campaigns": [
        {"test": "TestVerifC04", "checks": {"quick": 800, "thorough": 40000}},
    ],
}
