"""C04 - payload filters agree with plain regular-expression matching (harness/index zz_verif_c04_test.go)."""

CHECK = {
    "pkg": "internal/index",
    "level": "exploration",
    "technique": ("differential property testing of index.SearchStreams against an unoptimised reference matcher "
                  "(plain binaryregexp search per representation, harness/vq EvalNF/SeqStep) over generated expressions, "
                  "payload layouts and converter outputs written into real index files"),
    "rule": ("one case = a population: a pool of 2-5 payload expressions (vregex syntax trees glued to literal prefixes/suffixes, "
             "fixed-length class runs with a literal suffix, pure literals, named captures and @v@ references), 0-3 fake converters, "
             "1-6 streams whose raw payload and cached converter outputs are assembled from the expressions (members laid out in the "
             "order of a query's sequences, near misses, repeated literal prefixes/suffixes without a full match, filler; cut into "
             "chunks, interleaving of the two directions perturbed) and written with index.Writer, and 2-5 queries (AND of 1-3 "
             "conditions, each a filter or a THEN sequence of <=3 filters over cdata/sdata/data, negation of single filters and of the "
             "last element, selector none/.none/.converter; negated sequences only where exactly the raw representation is searched). Oracle: set of ids "
             "returned by index.SearchStreams(query.Parse(text).Conditions) == {s : vq.EvalNF(conditions, s)}. TestVerifC04Anchored "
             "is the same over expressions with ^ $ \\A \\z \\b \\B. Non-trivial: some query uses an expression with an active shortcut "
             "(literal prefix, constant suffix, fixed-length window) and selects some but not all streams, and a stream has >=2 "
             "chunks; distinct = distinct (queries, payloads)."),
    "level_text": ("generated-input differential search against a reference that uses no shortcut; decides the property only on the "
                   "generated space (no sub-queries, no tags, one index file); no absence claim"),
    "level_note": ("trusts harness/vq SeqStep/EvalNF (plain FindSubmatchIndex on the unshortened remainder, chunk rule at direction-run "
                   "granularity, aggregation over representations: positive = some, negated = none) and the vregex member sampler; "
                   "expressions are small (vregex MaxPaths 40) because regexanalysis.ConstantSuffix is exponential in alternations"),
    "assumptions": [
        "a fake ConverterAccess follows converters.cacheFile.DataForSearch: per-direction concatenation, cumulative sizes starting with {0,0}, one entry per non-empty chunk, wasCached=false for streams without output",
        "all payload filters of a query carry the same converter selector and name an existing converter (other combinations are documented engine errors)",
        "a variable is referenced only after the element that captures it in the same sequence; a named group that did not take part in the match has the empty value",
        "negated sequences are not generated when several representations are searched or a converter is named (aggregation over several / over no representation is not defined by the statement; observed: a stream without output of the named converter matches 'x then -y' but not 'x')",
        "expressions whose compiled program has more than 2000 start-to-end paths are re-drawn (regexanalysis.ConstantSuffix/AcceptedLength walk every path; such expressions take seconds to hours to analyse)",
        "duplicate ids in the result list are tolerated here (result listing is C02)",
    ],
    "campaigns": [
        {"test": "TestVerifC04", "checks": {"quick": 60000, "thorough": 1200000}, "timeout": {"quick": 600, "thorough": 3000}},
        {"test": "TestVerifC04Anchored", "checks": {"quick": 16000, "thorough": 300000}, "timeout": {"quick": 600, "thorough": 3000}},
        {"test": "TestVerifC04Fixed", "fixed": True, "checks": {"quick": 1, "thorough": 1}},
    ],
}
