"""C20 - no data races on shared service state: scenario engine under the Go race detector."""
import glob
import os
import re

REPO_FRAME = re.compile(r"^\s+(github\.com/spq/pkappa2/.+)\([^()]*\)\s*$")
FILE_LINE = re.compile(r"^\s+(/\S+\.go):(\d+)")


def parse_reports(text):
    """yield (signature, report text); signature = sorted pair of innermost non-harness repo functions of the two accesses."""
    for block in text.split("WARNING: DATA RACE")[1:]:
        block = block.split("==================")[0]
        stacks = re.split(r"\n(?=(?:Previous )?(?:[Rr]ead|[Ww]rite|atomic [a-z]+) (?:at|by) )", "\n" + block)
        funcs = []
        for st in stacks:
            if not re.match(r"\s*(?:Previous )?(?:[Rr]ead|[Ww]rite|atomic)", st):
                continue
            lines = st.split("\n")
            fn = None
            for i, l in enumerate(lines):
                m = REPO_FRAME.match(l)
                if not m:
                    continue
                loc = lines[i + 1] if i + 1 < len(lines) else ""
                if "zz_verif" in loc or "/internal/verif/" in loc:
                    continue
                fn = m.group(1).replace("github.com/spq/pkappa2/", "")
                break
            funcs.append(fn or "?")
        sig = "|".join(sorted(set(funcs[:2]))) if funcs else "?"
        yield sig, "WARNING: DATA RACE" + block


def post(pid, shards, reports, known, save_replay):
    violations, known_lines, inconclusive = [], [], []
    seen = {}
    for s in shards:
        texts = [open(s.logpath, errors="replace").read()]
        for p in glob.glob(os.path.join(s.cwd, "race.*")):
            texts.append(open(p, errors="replace").read())
        for t in texts:
            for sig, rep in parse_reports(t):
                seen.setdefault(sig, (s, rep))
    by_sig = {f.get("signature"): f for f in known.values() if f.get("signature")}
    for sig, (s, rep) in sorted(seen.items()):
        f = by_sig.get(sig)
        if f is not None and f["status"] == "open":
            known_lines.append("KNOWN-FINDING: property=%s %s: %s" % (pid, f["id"], f["what"]))
            continue
        path = save_replay(pid, s, {"test": s.test, "message": "data race between " + sig, "case": {"signature": sig, "report": rep[:6000]}}, rep)
        violations.append(("data race between " + sig + "\n" + rep[:1500], path))
    return violations, known_lines, inconclusive


CHECK = {
    "pkg": "internal/index/manager",
    "level": "exploration",
    "engine": "manager-scenario-engine",
    "race": True,
    "technique": "generated concurrent workloads (rapid) executed under the Go race detector; every detector report is a counterexample",
    "rule": ("free-running scenarios (gates open) over generated UDP traffic: imports, tag add/edit/delete, mark updates, converter attach/detach, views "
             "with searches, converter resets, webhook add/remove, configuration updates, add/remove of a PCAP-over-IP endpoint whose peer is a local listener that streams a few datagrams per connection "
             "(so the endpoint reader, the packet handler and the imports it triggers run), while eight pollers (Status, KnownPcaps, ListTags, ListConverters, "
             "ConverterStderr, ListPcapOverIPEndpoints, ListPcapProcessorWebhooks, Config) and an event listener that JSON-encodes every event (as the websocket handler does) "
             "run concurrently; a quarter of the cases stays alive >1.1 s so the periodic tag-event worker ticks. Oracle: the Go race detector "
             "(halt_on_error=0); each report is reduced to the unordered pair of innermost pkappa2 functions of the two accesses, which is the "
             "finding's signature. Non-trivial: >=3 kinds of background job ran; distinct = distinct histories."),
    "level_text": "happens-before race detection on executed accesses under generated concurrent activity; no report means no race on the executed paths only",
    "level_note": "schedules inside job bodies are the Go scheduler's; the watch directory and the HTTP layer are not exercised; reports whose both frames lie in harness code are ignored",
    "assumptions": ["-race instruments the whole test binary; harness accesses to manager fields happen inside closures posted to the service loop"],
    "extra_builds": [{"pkg": "internal/verif/convbin", "out": "convbin"}],
    "env": {"GORACE": "halt_on_error=0 log_path=race"},
    "parallel": 8,
    "nontrivial_floor": 0.005,
    "rewrites": [
        # reassembly snapshots after 4 packets instead of 100000: the scenarios have a few dozen packets
        {"file": "internal/index/builder/builder.go", "pattern": r">= 100_000\b", "replacement": ">= 4"},
    ],
    "campaigns": [
        {"test": "TestVerifC20", "checks": {"quick": 160, "thorough": 6000}, "timeout": {"quick": 900, "thorough": 7200}, "shrinktime": "1s"},
    ],
    "post": post,
}
