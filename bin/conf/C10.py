"""C10 - manager scenario engine (harness/manager zz_verif_scenario_test.go, zz_verif_engine_test.go)."""

CHECK = {
    "pkg": "internal/index/manager",
    "level": "exploration",
    "engine": "manager-scenario-engine",
    "technique": "stateful property testing (rapid state machine) of the service with a harness-owned schedule of background job completions; invariant evaluated inside the service loop after every step",
    "rule": ('scenario = generated UDP traffic (3-8 flows, up to 26 datagrams with payloads from a small pool, cut into 2-5 capture files so flows continue across captures) plus a rapid state-machine history of: importing the next capture(s), tag add / query edit / delete / colour, mark add / remove, converter attach / detach / reset, opening / using / releasing views, and *delivering the completion of a parked background job* (import, tagging, merge, convert) chosen by the generator - every job parks at a gate right before it posts its completion to the service loop, so the order of completions relative to API calls and to each other is generated. Scenario variants added later: one scenario in sixteen has 63/64/65/127/128 single-datagram flows (bitmap word boundaries); one import in eight also queues an upload that is no capture (empty, garbage, cut header); streams whose payload contains "x5" make the harness converter answer with a stray line in front of its output (the service gives up on them: no cached output may exist); tag/d, which no other tag refers to, may get a definition with a sub-query (ground truth by vq.EvalNFSub: some visible stream per sub-query name makes every condition true); held views are also asked tag filters (both polarities of marks) as part of their baseline; at quiescence a fresh view must show every capture the harness handed to ImportPcaps.; '
             "One view in three is opened and asked nothing at first; a twin opened right behind it is read at once and is the baseline for what the first one answers later. At the end of a history the captures that were not uploaded are handed over as one PCAP-over-IP stream (local peer, endpoint added, removed once it has received everything); the fresh view of the final check must show them too. "
             "(a) a view opened when no import is in flight shows, by connection key, exactly the conversations of the captures whose import completion was delivered, each once, with the payload runs the traffic model gives for those captures; (b) every held view returns byte-identical AllStreams / Stream().Data() / packet references and identical results for three fixed searches each time it is used while imports, merges, tag and converter jobs are delivered in between. Non-trivial: a merge replaced files and an import appended files during the history or a view's lifetime."),
    "level_text": 'invariant checked after every step of generated histories with generated completion orders; finds lost invalidations / reference-count and snapshot errors that need a specific interleaving; no absence claim',
    "level_note": 'UDP traffic only (TCP reassembly is C05/C08); chronological imports; the model assumes no flow idles 5 minutes',
    "assumptions": [],
    "extra_builds": [{"pkg": "internal/verif/convbin", "out": "convbin"}],
    "rewrites": [
        # reassembly snapshots after 4 packets instead of 100000: the scenarios have a few dozen packets
        {"file": "internal/index/builder/builder.go", "pattern": r">= 100_000\b", "replacement": ">= 4"},
    ],
    "campaigns": [
        {"test": "TestVerifC10", "checks": {"quick": 800, "thorough": 40000}, "steps": 40, "shrinktime": "90s", "death_is_violation": True,
         "timeout": {"quick": 600, "thorough": 5400}},
        {"test": "TestVerifC10Fixed", "fixed": True, "checks": {"quick": 1, "thorough": 1}, "death_is_violation": True},
    ],
}
