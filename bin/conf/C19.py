"""C19 - file endpoints stay inside the capture directory and never overwrite (harness/main)."""

CHECK = {
    "pkg": "cmd/pkappa2",
    "level": "exploration",
    "rule": ("each case is a sequence of 2-10 requests (+0-3 downloads after the imports ran) sent as hand-written request "
             "lines over a loopback TCP socket to the router of main.go backed by a real manager in a private sandbox "
             "root/l0/l1/l2/data/{pcap,index,state,snapshot,converters} with canary files on every level and planted "
             "files/directories inside the capture directory. Kinds: upload (plain, body in two parts, chunked, aborted "
             "mid-body; mostly POST), download, pair of concurrent uploads of one target with different bodies (bodies "
             "overlap in time). Targets: route prefix (canonical or one of 12 odd spellings incl. absolute-form) + tail "
             "that is a plain name, a directed traversal towards a planted file (1-5 dot-dot components in 21 spellings "
             "joined by 16 separator spellings), 1-4 arbitrary segments (names, sandbox directory names, dot segments, "
             "NUL, UTF-8, double encodings, absolute paths) or a plain name with an odd suffix; earlier tails are "
             "re-used (duplicates, download of an uploaded name). Bodies: valid 1-3 packet pcap, garbage, empty, "
             "truncated pcap. The import pipeline is wedged by a FIFO queued first, so Status().ImportJobCount counts "
             "queued captures exactly. After every request the digest of the whole sandbox tree is compared with the "
             "one before. Non-trivial: the sequence contains a traversal-shaped target (anything but a plain name "
             "under the canonical prefix), an upload of a name that already exists, or a concurrent pair; distinct = "
             "distinct request sequences (kind, method, target, mode, body lengths)."),
    "technique": ("generated request sequences over real loopback HTTP with raw request lines; sandboxed side-effect oracle "
                  "(file-system digest before/after every request) + exact import-queue accounting through a wedged import pipeline"),
    "level_text": ("generated request targets/sequences/concurrent pairs judged by a whole-sandbox file-system diff, the "
                   "manager's import queue length and the set of imported captures; no absence claim"),
    "level_note": ("trusts net/http's response parser and sha256; the concurrent pair overlaps the two bodies but the "
                   "interleaving inside the kernel/Go scheduler is not controlled; symlinks inside the capture directory, "
                   "basic-auth and the watch directory are not generated; sandbox on Linux only"),
    "assumptions": [
        "a request that is answered with a status other than 200 counts as refused",
        "the name a request is routed to is the text after the route prefix, as written or percent-decoded once, or the last element of either after dot-segment normalisation (always one path element)",
        "files named <timestamp>.<n>.{idx,state.json,snap} in index/state/snapshot belong to the manager and may change while it imports",
        "an import that takes arbitrarily long (FIFO as first queued capture) is a legitimate state of the manager",
    ],
    "campaigns": [
        {"test": "TestVerifC19", "checks": {"quick": 3000, "thorough": 100000},
         "timeout": {"quick": 600, "thorough": 3600}, "shrinktime": "20s"},
        # two hand-written request lists (textbook traversal spellings; duplicates, aborted and concurrent uploads)
        {"test": "TestVerifC19Fixed", "fixed": True, "checks": {"quick": 1, "thorough": 1}},
    ],
}
