"""C01 - index files return every stored stream exactly as written (harness/index, harness/vidx)."""

CHECK = {
    "pkg": "internal/index",
    "level": "exploration",
    "rule": ("1-40 generated stream records per file (model = input) written through NewWriter/AddStream/Finalize: IPv4/IPv6 "
             "hosts from pools of 2-5 or ~50 addresses, dense-shuffled or sparse IDs up to 2^40 incl. 0, 1-30 packets per "
             "stream or a run of 253-600 payload-less packets before/between/after payload packets, payload sizes "
             "{0,1,small,65535,65536,65537,128KiB+r}, gaps {0,1us,49.999ms,50ms,50.001ms,1s,10min,40min,72min}, 1-4 "
             "captures with awkward names, packet index bases {0,2^32-2,2^33+r,2^40}. Host campaigns: 4096-d IPv6 / "
             "16384-d IPv4 hosts (d in 0..3) filled by one-packet streams, then 3-20 generated streams around the point "
             "where the host group overflows. Every field of every stream, the ID set, Min/Max, absent neighbours, "
             "by-first-packet lookups (owner / nil for non-first packets and index+-1), AllStreams and MarshalJSON are "
             "compared with the input. Non-trivial: >=2 streams and one of {payload >64KiB, second host group, >=2 "
             "captures, offset >2^32us, sparse IDs, payload-less packets, idle run >255}; distinct = distinct record lists."),
    "technique": "property-based testing (rapid) with the written records as model; structured generators for the format's representation switches",
    "level_text": ("generated stream sets written and read back, compared field by field with the input, including files whose host "
                   "tables overflow a host group; no absence claim beyond the explored cases"),
    "level_note": ("per-packet timestamps and Data() chunk times are not asserted (a single gap >= 2^32 us is not representable); "
                   "zero-length Data entries are not generated because neither producer emits them"),
    "assumptions": ["inputs satisfy what the TCP/UDP producers guarantee: first packet client->server, non-decreasing timestamps, "
                    "Data entries in packet order and only for non-empty payload, a (capture, index) pair used by one packet of one stream, "
                    "both addresses of one family",
                    "process death by unbounded allocation in the writer is reported through a heap watchdog (3 GiB) as a crash of the running case"],
    "mem_gb": 10,
    "campaigns": [
        {"test": "TestVerifC01", "checks": {"quick": 4000, "thorough": 150000}, "death_is_violation": True},
        {"test": "TestVerifC01Hosts6", "checks": {"quick": 8, "thorough": 240}, "death_is_violation": True, "shrinktime": "20s"},
        {"test": "TestVerifC01Hosts4", "checks": {"quick": 2, "thorough": 64}, "shards": {"quick": 2, "thorough": 16},
         "death_is_violation": True, "shrinktime": "20s"},
        {"test": "TestVerifC01Fixed", "fixed": True, "checks": {"quick": 1, "thorough": 1}},
    ],
}
