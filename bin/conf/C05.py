"""C05 - indexed payload equals what the endpoints exchanged on the wire (harness/builder, harness/vtraffic)."""

CHECK = {
    "pkg": "internal/index/builder",
    "level": "exploration",
    "rule": ("generated traffic (internal/verif/vtraffic): 1-8 TCP/UDP conversations over IPv4/IPv6 with random initial sequence "
             "numbers (incl. wrapping), flights cut into 1..9000 byte segments, reordering inside a flight (displacement <=3; about one scenario in five has one flight of 270-640 one-byte segments with an early segment captured more than 256 places late), exact "
             "and re-segmented retransmissions after the original, about 4 % of the IPv4 packets with at least 16 bytes behind the IP header captured as two or three IPv4 fragments (in order or last first, consecutive records with one time stamp), pure ACKs, FIN/RST/half-close endings, interleaved by a generated "
             "merge, increasing microsecond time stamps (<4 min idle per flow; a quarter of the scenarios come from a coarse clock where packets of different conversations share a time stamp, never two packets of one conversation), UDP flows that share a flow-table bucket with another one (same hosts, port pairs with equal XOR), capture files whose first or last two packets are not in time stamp order (12 % of the files), cut into 1-5 capture files (pcap/pcapng; "
             "Ethernet, raw IP, IPv4, IPv6 link types) at generated points incl. mid-handshake and mid-flight. The files are imported "
             "through builder.New/FromPcap exactly like manager.importPcapJob does, in chronological batches of a generated partition, "
             "with a retained or a re-created builder (index directory re-listed) between batches. After the last batch every "
             "conversation must be visible as exactly one stream with the exchanged endpoints, protocol, per-direction bytes and order "
             "of direction changes; after every earlier batch the visible streams must equal those of a one-shot import of the same "
             "files by a fresh builder; the added/updated/reset bookkeeping returned to the manager must be consistent. Non-trivial: "
             ">=2 conversations, one of them interleaved with another, and (a TCP flow with a reordered or retransmitted segment, or a "
             "flow spanning >=2 capture files); distinct = distinct (traffic, batching) fingerprints."),
    "technique": "property-based testing with a traffic generator carrying its own ground truth; differential oracle (one-shot import) for intermediate states",
    "level_text": ("generated conversations with known payload pushed through the real pcap reader, reassembly and index writer; "
                   "compares what a user can read back with what was exchanged; no absence claim"),
    "level_note": ("well-formed traffic only: no lost segment, no reordering across a change of direction, no idle >= 4 min inside a flow, "
                   "distinct increasing time stamps, unique 5-tuples, no IP fragments; payload bytes are expanded from drawn seeds"),
    "assumptions": ["traffic is well-formed as described in harness/vtraffic/types.go",
                    "capture files arrive in the capture directory only when they are imported (builder.New replays files already present)",
                    "intermediate states are compared with a one-shot import of the same files, not with hand-written truth"],
    "campaigns": [
        {"test": "TestVerifC05", "checks": {"quick": 2500, "thorough": 120000}, "shrinktime": "25s"},
        {"test": "TestVerifC05Fixed", "fixed": True, "checks": {"quick": 1, "thorough": 1}},
    ],
    "nontrivial_floor": 0.03,
}
