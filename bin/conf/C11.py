"""C11 - tag management calls are total, atomic, graph well-formed (harness/manager zz_verif_c11_test.go)."""

CHECK = {
    "pkg": "internal/index/manager",
    "level": "exploration",
    "engine": "manager-scenario-engine",
    "technique": "model-based API fuzzing of the tag calls (rapid) with an atomicity/graph oracle read inside the service loop and a hang/crash watchdog",
    "rule": ("histories of 1-40 calls among AddTag / UpdateTag(query, colour, name, mark add, mark del, converters) / DelTag with names and "
             "definitions from a hostile pool (missing prefix, empty remainder, unparsable text, relative times, grouping, self reference, "
             "references to missing tags, cycle-closing edits, mark tags with non-id filters, ids >= next stream id, renames onto existing "
             "names / other types, unknown converters) over a manager holding 0-6 imported streams. After every call: an error leaves the "
             "tag table (definition, colour, converters, marks, referenced-by) unchanged; a success shows exactly the requested change and "
             "nothing else; the graph obtained by re-parsing all definitions has no dangling reference, no cycle, and the referenced "
             "indication mirrors it; deleting/renaming a referenced tag is refused; every call and a following Status() return within "
             "15 s. Non-trivial: >=1 rejected and >=2 accepted calls and a reference between two tags existed; distinct = distinct histories. The periodic tag-event worker ticks every 5 ms in this build (derived rewrite of its interval), so it runs between the calls of every history."),
    "level_text": "generated call histories against an explicit atomicity and well-formedness oracle; crash and hang are first-class outcomes (process death / watchdog)",
    "level_note": "background jobs run freely (gates open); the tag table is read through a closure posted to the service loop; the 15 s watchdog is three orders of magnitude above a normal call",
    "assumptions": ["one UpdateTag operation per call, as the HTTP front end issues them"],
    "extra_builds": [{"pkg": "internal/verif/convbin", "out": "convbin"}],
    # the periodic tag event worker ticks once per second; the build derives a 5 ms tick from the current source so that
    # its closure runs between the steps of every history (same code path, scaled interval)
    "rewrites": [
        {"file": "internal/index/manager/manager.go", "pattern": r"tagUpdateEventInterval = time\.Second \* 1\b", "replacement": "tagUpdateEventInterval = time.Millisecond * 5"},
        {"file": "internal/index/builder/builder.go", "pattern": r">= 100_000\b", "replacement": ">= 4"},
    ],
    "campaigns": [
        {"test": "TestVerifC11", "checks": {"quick": 1200, "thorough": 60000}, "death_is_violation": True,
         "timeout": {"quick": 600, "thorough": 5400}},
        {"test": "TestVerifC11Sched", "checks": {"quick": 600, "thorough": 30000}, "steps": 40, "shrinktime": "60s", "death_is_violation": True,
         "timeout": {"quick": 600, "thorough": 5400}},
        {"test": "TestVerifC11Fixed", "fixed": True, "checks": {"quick": 1, "thorough": 1}, "death_is_violation": True},
    ],
}
