"""C13 - manager scenario engine (harness/manager zz_verif_scenario_test.go, zz_verif_engine_test.go)."""

CHECK = {
    "pkg": "internal/index/manager",
    "level": "exploration",
    "engine": "manager-scenario-engine",
    "technique": "stateful property testing (rapid state machine) of the service with a harness-owned schedule of background job completions; invariant evaluated inside the service loop after every step",
    "rule": ('scenario = generated UDP traffic (3-8 flows, up to 26 datagrams with payloads from a small pool, cut into 2-5 capture files so flows continue across captures) plus a rapid state-machine history of: importing the next capture(s), tag add / query edit / delete / colour, mark add / remove, converter attach / detach / reset, opening / using / releasing views, and *delivering the completion of a parked background job* (import, tagging, merge, convert) chosen by the generator - every job parks at a gate right before it posts its completion to the service loop, so the order of completions relative to API calls and to each other is generated. Scenario variants added later: one scenario in sixteen has 63/64/65/127/128 single-datagram flows (bitmap word boundaries); one import in eight also queues an upload that is no capture (empty, garbage, cut header); streams whose payload contains "x5" make the harness converter answer with a stray line in front of its output (the service gives up on them: no cached output may exist); tag/d, which no other tag refers to, may get a definition with a sub-query (ground truth by vq.EvalNFSub: some visible stream per sub-query name makes every condition true); a step can make every later merge fail.; '
             'no read through a held view ever fails; after settling with all views released the set of *.idx files in the index directory equals the set of files the service serves and the use counts add up to the number of served files. Non-trivial: a view or a parked job held files across a delivered merge that replaced them. '
             'Merge fault campaign (TestVerifC13MergeFault): 2-4 generated index files with overlapping stream ids are opened, one of them is truncated on disk at a generated offset, index.Merge is called on the run the way the merge job does; when it reports failure the directory must hold exactly the inputs (the service keeps serving them), when it succeeds exactly the returned files are new. Non-trivial: the merge failed.'),
    "level_text": 'invariant checked after every step of generated histories with generated completion orders; finds lost invalidations / reference-count and snapshot errors that need a specific interleaving; no absence claim',
    "level_note": 'reads = AllStreams, Stream, Data, Packets, three searches; a background job that uses a closed index file is noticed through the log of the service, which is captured per scenario and searched for "file already closed" / "bad file descriptor"',
    "assumptions": [],
    "extra_builds": [{"pkg": "internal/verif/convbin", "out": "convbin"}],
    "rewrites": [
        # reassembly snapshots after 4 packets instead of 100000: the scenarios have a few dozen packets
        {"file": "internal/index/builder/builder.go", "pattern": r">= 100_000\b", "replacement": ">= 4"},
    ],
    "campaigns": [
        {"test": "TestVerifC13", "checks": {"quick": 800, "thorough": 40000}, "steps": 40, "shrinktime": "90s", "death_is_violation": True,
         "timeout": {"quick": 600, "thorough": 5400}},
        {"test": "TestVerifC13MergeFault", "checks": {"quick": 1600, "thorough": 60000}, "shrinktime": "20s"},
    ],
}
