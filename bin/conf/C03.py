"""C03 - query normalisation preserves meaning (harness/query zz_verif_c03_test.go, harness/vq)."""

CHECK = {
    "pkg": "internal/query",
    "level": "exploration",
    "technique": "differential property testing: reference evaluator of the expression as written vs. evaluator of the normal form, over generated expressions and streams",
    "rule": ("expressions from a grammar-based generator (all filter kinds, lists, open/closed ranges, same-stream variables with "
             "arithmetic, host masks, relative/absolute times, tags, payload filters, AND/OR/NOT/THEN nesting up to depth 4, "
             "capture/use chains) rendered to query text and parsed by query.Parse; 24 abstract streams per expression whose "
             "attributes sit on and next to the constants the generator uses; oracle: EvalNF(normal form, s) == EvalAST(expression, s) "
             "for every stream. Non-trivial: >=3 operators including NOT or THEN and both outcomes occur among the streams; "
             "distinct = distinct query texts. Expressions whose estimated normal form exceeds 200 conjuncts (either polarity) and "
             "expressions outside the THEN fragment fixed in DESIGN.md 4.4 are discarded and counted."),
    "level_text": ("generated-input search against two independent evaluators; decides the property only on the generated space "
                   "(no sub-queries, converters fixed to the raw representation); no absence claim"),
    "level_note": ("trusts the reference evaluators in harness/vq (written from the documented meaning and the struct comments of "
                   "conditions.go); the meaning of THEN over compound operands is the position-set reading of DESIGN.md 4.4"),
    "assumptions": ["query.Parse's reference time is taken from the returned Query.ReferenceTime",
                    "THEN semantics per DESIGN.md section 4.4; negated compound payload groups followed by THEN are not asserted"],
    "campaigns": [
        {"test": "TestVerifC03", "checks": {"quick": 120000, "thorough": 3000000}, "timeout": {"quick": 400, "thorough": 3600}},
        {"test": "TestVerifC03Fixed", "fixed": True, "checks": {"quick": 1, "thorough": 1}},
    ],
}
