"""C09 - manager scenario engine (harness/manager zz_verif_scenario_test.go, zz_verif_engine_test.go)."""

CHECK = {
    "pkg": "internal/index/manager",
    "level": "exploration",
    "engine": "manager-scenario-engine",
    "technique": "stateful property testing (rapid state machine) of the service with a harness-owned schedule of background job completions; invariant evaluated inside the service loop after every step",
    "rule": ('scenario = generated UDP traffic (3-8 flows, up to 26 datagrams with payloads from a small pool, cut into 2-5 capture files so flows continue across captures) plus a rapid state-machine history of: importing the next capture(s), tag add / query edit / delete / colour, mark add / remove, converter attach / detach / reset, opening / using / releasing views, and *delivering the completion of a parked background job* (import, tagging, merge, convert) chosen by the generator - every job parks at a gate right before it posts its completion to the service loop, so the order of completions relative to API calls and to each other is generated. Scenario variants added later: one scenario in sixteen has 63/64/65/127/128 single-datagram flows (bitmap word boundaries); one import in eight also queues an upload that is no capture (empty, garbage, cut header); streams whose payload contains "x5" make the harness converter answer with a stray line in front of its output (the service gives up on them: no cached output may exist); tag/d, which no other tag refers to, may get a definition with a sub-query (ground truth by vq.EvalNFSub: some visible stream per sub-query name makes every condition true); a step can make every later merge fail (its output directory is switched to a missing one): a failed merge must not be restarted for ever.; '
             'after the history API calls stop and parked jobs are delivered oldest-first, newest-first or in generated order; quiescence (no job flagged running, none parked, import queue empty, no tag with pending streams, no converter queue) must be reached within 40+8*(tags+captures)+2*streams*(converters+1) deliveries; a running flag without a job, a job body that never reaches its gate, or a completion that never runs (60 s) is a failure. Non-trivial: >=3 kinds of job were delivered and >=2 jobs were parked at the same time.'),
    "level_text": 'invariant checked after every step of generated histories with generated completion orders; finds lost invalidations / reference-count and snapshot errors that need a specific interleaving; no absence claim',
    "level_note": "bounded liveness under a scheduler the harness owns: 'eventually' is 'within B deliveries'; job bodies run to their gate immediately, what is generated is the delivery order; two jobs of the same kind in flight are impossible by construction of the running flags",
    "assumptions": [],
    "extra_builds": [{"pkg": "internal/verif/convbin", "out": "convbin"}],
    "rewrites": [
        # reassembly snapshots after 4 packets instead of 100000: the scenarios have a few dozen packets
        {"file": "internal/index/builder/builder.go", "pattern": r">= 100_000\b", "replacement": ">= 4"},
    ],
    "campaigns": [
        {"test": "TestVerifC09", "checks": {"quick": 800, "thorough": 40000}, "steps": 40, "shrinktime": "90s", "death_is_violation": True,
         "timeout": {"quick": 600, "thorough": 5400}},
        {"test": "TestVerifC09Fixed", "fixed": True, "checks": {"quick": 1, "thorough": 1}, "death_is_violation": True},
    ],
}
