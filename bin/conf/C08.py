"""C08 - import result does not depend on how and when captures arrive (harness/builder, harness/vtraffic)."""

CHECK = {
    "pkg": "internal/index/builder",
    "level": "exploration",
    "rule": ("C05 traffic scenarios x a generated subset of the capture files x every arrival order (generated permutation) x every "
             "partition of the arrivals into import calls x snapshot interval in {2,5,20,100,100000} packets (the literal 100_000 in "
             "builder.go is replaced at build time by a variable; if the literal is not found the label "
             "'snapshot-threshold-rewrite-NOT-active' appears and only real-size captures reach snapshots) x service restart "
             "(builder re-created, snapshot file reloaded, index directory re-listed, with or without the known-pcap cache) or "
             "retained builder between imports x (one import call in six) a well-formed capture without packets named at a generated "
             "position of the call (it stays in the capture directory for the restarts that follow) x (one in six) an upload that "
             "cannot be read as a capture (text, cut file header, cut packet record) at a generated position, which ends the call there "
             "and leaves the rest to a second call, as the manager does. After every import: the visible streams equal those of a one-shot import of the "
             "same files by a fresh builder (and the exchanged ground truth once all captures are in); the map connection key -> "
             "visible id is injective (except while a missing capture leaves a >=5 min hole in a flow) and every key keeps its id; "
             "the added/updated/reset/next-id bookkeeping is consistent. Non-trivial: a flow continues in a later import and (a "
             "snapshot was used, or arrival order != chronological order). Thorough adds real-size captures (>=120000 packets, "
             "untouched threshold)."),
    "technique": "metamorphic / differential property-based testing over import histories, with a build-time derived overlay lowering the snapshot interval",
    "level_text": ("generated import histories (order, batching, restarts, snapshot placement) of generated traffic compared with a "
                   "one-shot import and with the ground truth; no absence claim"),
    "level_note": ("same traffic assumptions as C05; lowering the snapshot interval scales snapshot placement down but does not change the code path; "
                   "restarts are modelled at the builder level (manager-level restarts belong to C12)"),
    "assumptions": ["traffic is well-formed as described in harness/vtraffic/types.go",
                    "a capture file is written into the capture directory when it arrives, never earlier",
                    "while a not yet arrived capture leaves a hole of >= 5 min in a flow, two streams for that flow are accepted"],
    "rewrites": [
        {"file": "internal/index/builder/builder.go", "pattern": r">= 100_000\b", "replacement": ">= verifSnapshotThreshold()"},
    ],
    "campaigns": [
        {"test": "TestVerifC08", "checks": {"quick": 3000, "thorough": 50000}, "shrinktime": "25s"},
        {"test": "TestVerifC08Large", "checks": {"quick": 2, "thorough": 32}, "shards": {"quick": 2, "thorough": 16}, "shrinktime": "1s", "mem_gb": 8,
         "timeout": {"quick": 420, "thorough": 1800}},
        {"test": "TestVerifC08Fixed", "fixed": True, "checks": {"quick": 1, "thorough": 1}},
    ],
    "nontrivial_floor": 0.03,
}
