"""C12 - manager scenario engine (harness/manager zz_verif_scenario_test.go, zz_verif_engine_test.go)."""

CHECK = {
    "pkg": "internal/index/manager",
    "level": "fault_enumeration",
    "engine": "manager-scenario-engine",
    "technique": "stateful property testing (rapid state machine) of the service with a harness-owned schedule of background job completions; invariant evaluated inside the service loop after every step",
    "rule": ("histories as in the scenario engine (generated UDP traffic cut into captures; imports, tag/mark/converter calls, config and webhook "
             "changes, generated deliveries of parked job completions), split into 2-4 epochs. An epoch ends with a clean Close (after settling) or with a "
             "crash point: the whole data directory is copied while jobs are parked at their gates - i.e. between a job's file operations (index written, "
             "merged file written, cache appended) and its registration with the service (inputs deleted, state saved) - and the copy is optionally damaged the "
             "way an interrupted write leaves it (newest-named partial state file, partial index without magic, partial snapshot file); the next epoch starts "
             "manager.New on the copy. Oracle after every restart: New succeeds; every acknowledged tag is present with definition, colour and converter "
             "attachments and no unacknowledged one exists; config and webhooks as acknowledged; every conversation of a delivered import is visible under the "
             "id recorded then, each connection once, no stream that no written capture contains; after a clean restart the payload equals that of the imported "
             "captures; after the last epoch settles, the C06 tag oracle holds for all tags. Non-trivial: a crash with at least one job parked, or a copy with "
             "partial files; distinct = distinct histories."),
    "level_text": "crash points enumerated at gate granularity (every position between a background job's file operations and its registration, on generated histories) plus simulated interrupted writes; recovery checked against the acknowledged state",
    "level_note": "crash = copy of the data directory at a gate (process-kill semantics for files already written, no torn write below a whole file except the three simulated partial files); SIGKILL inside a system call (strace injection) is not built; PCAP-over-IP endpoints are not exercised",
    "assumptions": [],
    "extra_builds": [{"pkg": "internal/verif/convbin", "out": "convbin"}],
    "campaigns": [
        {"test": "TestVerifC12", "checks": {"quick": 800, "thorough": 40000}, "steps": 40, "shrinktime": "90s", "death_is_violation": True,
         "timeout": {"quick": 600, "thorough": 5400}},
        {"test": "TestVerifC12Kill", "checks": {"quick": 48, "thorough": 1600}, "shrinktime": "1s", "death_is_violation": True,
         "timeout": {"quick": 900, "thorough": 7200}},
    ],
}
