"""C12 - manager scenario engine (harness/manager zz_verif_scenario_test.go, zz_verif_engine_test.go)."""

CHECK = {
    "pkg": "internal/index/manager",
    "level": "fault_enumeration",
    "engine": "manager-scenario-engine",
    "technique": ("fault injection over generated histories (rapid): (a) crash copies of the data directory at harness-owned job gates plus simulated interrupted writes, "
                  "(b) a child process running a generated script under strace whose file system calls are counted and delayed so that the process can be stopped right behind "
                  "a chosen one and its directories copied (the state a SIGKILL there leaves); every crash state is restarted and judged by a recovery oracle against the acknowledgements"),
    "rule": ("histories as in the scenario engine (generated UDP traffic cut into captures; imports, tag/mark/converter calls, config and webhook "
             "changes, generated deliveries of parked job completions), split into 2-4 epochs. An epoch ends with a clean Close (after settling) or with a "
             "crash point: the whole data directory is copied while jobs are parked at their gates - i.e. between a job's file operations (index written, "
             "merged file written, cache appended) and its registration with the service (inputs deleted, state saved) - and the copy is optionally damaged the "
             "way an interrupted write leaves it (newest-named partial state file, partial index without magic, partial snapshot file); the next epoch starts "
             "manager.New on the copy. Oracle after every restart: New succeeds; every acknowledged tag is present with definition, colour and converter "
             "attachments and no unacknowledged one exists; config and webhooks as acknowledged; every conversation of a delivered import is visible under the "
             "id recorded then, each connection once, no stream that no written capture contains; after a clean restart the payload equals that of the imported "
             "captures; after the last epoch settles, the C06 tag oracle holds for all tags. Non-trivial: a crash with at least one job parked, or a copy with "
             "partial files; distinct = distinct histories. "
             "Kill campaign (TestVerifC12Kill): a script of 5-18 calls (imports of 1-2 captures moved into the capture directory, tag add/query/delete/colour, mark add/remove, converter "
             "attach/detach, AutoInsertLimitToQuery, webhook add/remove, PCAP-over-IP endpoint add/remove, wait-for-quiescence, clean restart) is run by a child process with free-running "
             "background jobs under `strace -f -e inject=<file calls>:delay_exit`; after every call the child appends an acknowledgement (what the call returned and the tag table, settings, "
             "webhooks, endpoints the service then reports; after a wait also the visible streams with their ids and the captures handed over). The parent counts completed calls "
             "that change files below the data directories (creating openat, write, pwrite, rename, unlink, ftruncate, fsync, mkdir) and at generated counts (gaps 1..34, up to 24 per run) stops the "
             "child with SIGSTOP, waits until every thread is stopped, copies index/state/snapshot directories and the acknowledgement log, and continues it; the directory at the end of the script "
             "(exit without Close) is one more crash state. Oracle per crash state, after manager.New on the copy: New succeeds; tags, settings, webhooks and endpoints equal the last acknowledged "
             "state except for the object of the one call that was in flight; every stream acknowledged at the last quiescence is visible under its id, each connection once, reading "
             "every stream works, and every visible stream carries the payload the traffic model gives for the captures acknowledged as imported plus some subset of the captures handed over later; "
             "after waiting for quiescence no tag has pending streams and the C06 tag oracle holds. Non-trivial: at least 3 crash states in the run."),
    "level_text": "crash points enumerated (a) at gate granularity (every position between a background job's file operations and its registration) plus simulated interrupted writes and (b) behind individual file system calls of a real service process (generated positions in the sequence of creating/writing/renaming/unlinking calls on the data directories); recovery checked against the acknowledged state",
    "level_note": "a crash state is a copy of the directories taken while the process is stopped (gate campaign: parked at a gate; kill campaign: SIGSTOP right behind a delayed file system call), which is what a process kill at that instant leaves (page cache contents survive a process kill); power loss (unsynced data, reordered metadata) and torn single write calls are outside; the stop lands behind the chosen call or a few calls later when other threads are writing; a failing crash state is saved inside the replay file and re-judged deterministically by TestVerifC12KillReplay; PCAP-over-IP endpoints are configured (unreachable peers) but deliver no packets",
    "assumptions": [],
    "extra_builds": [{"pkg": "internal/verif/convbin", "out": "convbin"}],
    "rewrites": [
        # reassembly snapshots after 4 packets instead of 100000: the scenarios of this check have a few dozen packets
        {"file": "internal/index/builder/builder.go", "pattern": r">= 100_000\b", "replacement": ">= 4"},
    ],
    "campaigns": [
        {"test": "TestVerifC12", "checks": {"quick": 800, "thorough": 40000}, "steps": 40, "shrinktime": "90s", "death_is_violation": True,
         "timeout": {"quick": 600, "thorough": 5400}},
        {"test": "TestVerifC12Fixed", "fixed": True, "checks": {"quick": 1, "thorough": 1}, "death_is_violation": True},
        {"test": "TestVerifC12Kill", "checks": {"quick": 96, "thorough": 2400}, "shrinktime": "1s", "death_is_violation": True,
         "timeout": {"quick": 900, "thorough": 7200}},
    ],
}
