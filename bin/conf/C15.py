"""C15 - converter cache file (harness/converters)."""

CHECK = {
    "pkg": "internal/index/converters",
    "level": "exploration",
    "rule": ("rapid state machine over one cache file (opened through NewCache) and 8 stream ids next to a model "
             "map id -> latest stored chunk list. Operations: store (0..80 chunks, any direction sequence incl. "
             "server-first and same-direction runs, non-empty contents of 1..100000 bytes biased to varint/bufio "
             "boundaries, content types on none/all/any subset, chunk times = first-packet time + whole microseconds "
             "incl. non-monotonic and before-first-packet ones; a separate class with sub-microsecond fractions), "
             "invalidate(subset), reset, close+reopen (40 % of the reopens model a killed process: the descriptor is dropped without calling Close), cut the file at a generated offset (inside the last record, "
             "inside a record id, at a record boundary, inside the file header, anywhere)+reopen. TestVerifC15Big adds "
             "3..6 MiB chunks and mass invalidation so that the compaction inside setData (>=16 MiB and >=50% free) "
             "runs. After every operation every id is read through data(), DataForSearch(), Contains() and "
             "StreamCount and compared with the model (direction, bytes, time, content type, byte counts, "
             "per-direction concatenation and cumulative sizes). After a cut an independent scanner/decoder of the "
             "file format says which records lie completely before it; each id must serve its last such record unless "
             "that record had been invalidated. Non-trivial: >=4 operations, >=2 stores and at least one of "
             "reopen/cut/invalidate/compaction/store over a live id; distinct = distinct operation histories."),
    "technique": "model-based stateful property testing (rapid state machine) against a map model, with file truncation as crash points",
    "level_text": ("generated operation histories compared with a map model after every step, including reopen, load-time and "
                   "store-time compaction and truncation at generated offsets; no absence claim"),
    "level_note": ("trusts the harness's own decoder of the cache file format for the expectation after a cut; 8 ids; "
                   "empty chunks are not generated (zero length is the format's direction-flip marker); one process, no concurrency"),
    "assumptions": ["chunk contents are non-empty",
                    "a stream's first-packet time passed to the read is the one its latest chunk list was stored with",
                    "chunk times are within hours of the first-packet time",
                    "a cut models a crash while appending: everything after the cut offset is lost, nothing before it is damaged"],
    # Close() fsyncs the cache file; per-case directories go to a tmpfs when there is one (fallback: TMPDIR)
    "env": {"VERIF_C15_TMP": "/dev/shm"},
    "campaigns": [
        {"test": "TestVerifC15", "checks": {"quick": 20000, "thorough": 600000}},
        {"test": "TestVerifC15Big", "checks": {"quick": 160, "thorough": 4000}, "steps": 60, "mem_gb": 8,
         "timeout": {"quick": 900, "thorough": 7200}},
        {"test": "TestVerifC15Fixed", "fixed": True, "checks": {"quick": 1, "thorough": 1}},
    ],
}
