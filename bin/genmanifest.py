#!/usr/bin/env python3
"""Regenerates MANIFEST.json from bin/vconfig.py (claimed checks) and properties.jsonl."""
import json, os, sys
VERIF = os.path.dirname(os.path.dirname(os.path.abspath(__file__)))
sys.path.insert(0, os.path.join(VERIF, "bin"))
from vconfig import CHECKS, NOT_APPLICABLE, HOOK_COMMITS

props = [json.loads(l) for l in open(os.path.join(VERIF, "properties.jsonl"))]
# only checks that were validated by the lead are claimed (bin/claimed.txt, one id per line)
CLAIMED = set(open(os.path.join(VERIF, "bin", "claimed.txt")).read().split())
checks = []
for p in props:
    pid = p["id"]
    if pid not in CHECKS or pid in NOT_APPLICABLE or pid not in CLAIMED:
        continue
    c = CHECKS[pid]
    checks.append({
        "property_id": pid,
        "quick_cmd": "bin/vcheck run %s --tier quick" % pid,
        "thorough_cmd": "bin/vcheck run %s --tier thorough" % pid,
        "evidence_file": "/verif/evidence/%s.json" % pid,
        "replay_cmd_template": "bin/vcheck replay %s {path}" % pid,
        "engine": c.get("engine", "rapid-overlay"),
        "level_claimed": {"category": c.get("level", "exploration"), "text": c["level_text"], "design_ref": "DESIGN.md section 5, " + pid},
        "level_note": c["level_note"],
        "technique": c["technique"],
    })
m = {
    "version": 1,
    "setup_cmd": "bin/vcheck setup",
    "hooks": {
        "guard": "verif",
        "enable": "go test -tags verif -overlay=<generated> -modfile=<generated> (bin/vcheck builds every test binary from /repo's working tree this way)",
        "baseline_off_cmd": "bin/vcheck baseline-off",
        "source_commits": HOOK_COMMITS,
        "add_only": True,
    },
    "engines": [
        {"name": "rapid-overlay", "path": "/verif/harness", "serves_properties": [c["property_id"] for c in checks],
         "kind_free_text": "pgregory.net/rapid v1.3.0 property tests and state machines compiled into the pkappa2 packages through go's -overlay/-modfile (nothing is written to /repo), sharded over processes by bin/vcheck, which merges per-shard reports into evidence"},
    ],
    "checks": checks,
    "not_applicable": [{"property_id": p["id"], "reason": NOT_APPLICABLE.get(p["id"], "check not built yet (work in progress); see DESIGN.md section 5")}
                       for p in props if p["id"] not in CHECKS or p["id"] in NOT_APPLICABLE or p["id"] not in CLAIMED],
    "notes": "All commands run with cwd=/verif. VERIF_SEED selects the rapid seeds (seed*1000003+shard). Exit 2 = inconclusive.",
}
json.dump(m, open(os.path.join(VERIF, "MANIFEST.json"), "w"), indent=1)
print("claimed:", [c["property_id"] for c in checks])
