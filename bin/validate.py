#!/opt/veriftools/pyvenv/bin/python
import json, jsonschema, glob, sys, os
sys.path.insert(0, os.path.dirname(os.path.abspath(__file__)))
import vconfig  # every per-property configuration must load
jsonschema.validate(json.load(open('/verif/MANIFEST.json')), json.load(open('/root/.vp/MANIFEST.schema.json')))
es = json.load(open('/root/.vp/EVIDENCE.schema.json'))
m = json.load(open('/verif/MANIFEST.json'))
for c in m['checks']:
    try:
        jsonschema.validate(json.load(open(c['evidence_file'])), es)
    except Exception as e:
        print("EVIDENCE INVALID", c['property_id'], str(e)[:300]); continue
print('manifest ok; claimed', [c['property_id'] for c in m['checks']])
