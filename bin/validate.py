#!/opt/veriftools/pyvenv/bin/python
import json, jsonschema, glob, sys
jsonschema.validate(json.load(open('/verif/MANIFEST.json')), json.load(open('/root/.vp/MANIFEST.schema.json')))
es = json.load(open('/root/.vp/EVIDENCE.schema.json'))
m = json.load(open('/verif/MANIFEST.json'))
for c in m['checks']:
    try:
        jsonschema.validate(json.load(open(c['evidence_file'])), es)
    except Exception as e:
        print("EVIDENCE INVALID", c['property_id'], str(e)[:300]); continue
print('manifest ok; claimed', [c['property_id'] for c in m['checks']])
