package manager

// C12 (kill campaign) — crash points at system-call granularity.
//
// A generated script of API calls (imports, tag calls, marks, converter attachments, settings, webhooks,
// PCAP-over-IP endpoints, waits for quiescence, clean restarts) is run by a child process (this test binary
// re-executed as TestVerifC12Child) under strace. The parent reads strace's output, counts the completed
// file system calls that touch the data directories (every one of them is delayed on exit, so that the
// parent can act right behind it) and, at generated counts, stops the child (SIGSTOP to the whole process),
// copies the data directories — byte for byte what a SIGKILL at that instant would leave behind, including
// half written files — together with the acknowledgements the child has logged so far, and lets it continue.
// Every copy is then restarted in-process and judged against the acknowledged state. DESIGN.md §5 C12.

import (
	"archive/tar"
	"bufio"
	"bytes"
	"compress/gzip"
	"context"
	"encoding/base64"
	"encoding/json"
	"fmt"
	"io"
	"os"
	"os/exec"
	"path/filepath"
	"regexp"
	"sort"
	"strconv"
	"strings"
	"syscall"
	"testing"
	"time"

	"github.com/spq/pkappa2/internal/verif/vidx"
	"github.com/spq/pkappa2/internal/verif/vlib"
	"pgregory.net/rapid"
)

type c12kOp struct {
	Op    string   `json:"op"` // import addtag query del color markadd markdel conv config hook endpoint wait restart
	Caps  []int    `json:"caps,omitempty"`
	Name  string   `json:"name,omitempty"`
	Def   string   `json:"def,omitempty"`
	Color string   `json:"color,omitempty"`
	IDs   []uint64 `json:"ids,omitempty"`
	Set   []string `json:"set,omitempty"`
	Add   bool     `json:"add,omitempty"`
	Arg   string   `json:"arg,omitempty"`
}

func (o c12kOp) String() string {
	switch o.Op {
	case "import":
		return fmt.Sprintf("import%v", o.Caps)
	case "addtag":
		return fmt.Sprintf("AddTag(%s,%q)", o.Name, o.Def)
	case "query":
		return fmt.Sprintf("UpdateTag(%s,query=%q)", o.Name, o.Def)
	case "del":
		return fmt.Sprintf("DelTag(%s)", o.Name)
	case "color":
		return fmt.Sprintf("UpdateTag(%s,color=%s)", o.Name, o.Color)
	case "markadd", "markdel":
		return fmt.Sprintf("UpdateTag(%s,%s=%v)", o.Name, o.Op, o.IDs)
	case "conv":
		return fmt.Sprintf("UpdateTag(%s,converters=%v)", o.Name, o.Set)
	case "config":
		return fmt.Sprintf("SetConfig(%v)", o.Add)
	case "hook":
		return fmt.Sprintf("webhook(add=%v,%s)", o.Add, o.Arg)
	case "endpoint":
		return fmt.Sprintf("endpoint(add=%v,%s)", o.Add, o.Arg)
	}
	return o.Op
}

type c12kScript struct {
	Base    string     `json:"base"`
	Traffic *veTraffic `json:"traffic"`
	Ops     []c12kOp   `json:"ops"`
	Convs   []string   `json:"convs"`
}

type c12kTag struct {
	Def   string   `json:"def"`
	Color string   `json:"color"`
	Convs []string `json:"convs"`
}

// c12kAck is one line of the child's acknowledgement log: op I has returned (Err: what it returned) and the
// service reported this state afterwards.
type c12kAck struct {
	I         int                `json:"i"`
	Err       string             `json:"err,omitempty"`
	Fatal     string             `json:"fatal,omitempty"`
	Tags      map[string]c12kTag `json:"tags"`
	AutoLimit bool               `json:"autolimit"`
	Hooks     []string           `json:"hooks"`
	Endpoints []string           `json:"endpoints"`
	// only after a wait: the visible streams (canonical connection key -> id) and the captures handed to ImportPcaps so far
	Streams  map[string]uint64 `json:"streams,omitempty"`
	Imported []string          `json:"imported,omitempty"`
	Done     bool              `json:"done,omitempty"`
}

func c12kDirs(base string) veDirs {
	d := veDirs{base: base}
	d.pcap = filepath.Join(base, "pcap") + "/"
	d.index = filepath.Join(base, "index") + "/"
	d.state = filepath.Join(base, "state") + "/"
	d.snapshot = filepath.Join(base, "snapshot") + "/"
	d.converter = filepath.Join(base, "converter") + "/"
	return d
}

// ---------------------------------------------------------------------------------------------
// child

func c12kSnapshot(e *veEngine, ack *c12kAck, withStreams bool) error {
	return e.inLoop(func() {
		m := e.mgr
		ack.Tags = map[string]c12kTag{}
		for n, t := range m.tags {
			ack.Tags[n] = c12kTag{Def: t.definition, Color: t.color, Convs: t.converterNames()}
		}
		ack.AutoLimit = m.config.AutoInsertLimitToQuery
		ack.Hooks = append([]string{}, m.pcapProcessorWebhookUrls...)
		sort.Strings(ack.Hooks)
		ack.Endpoints = []string{}
		for _, ep := range m.pcapOverIPEndpoints {
			ack.Endpoints = append(ack.Endpoints, ep.Address)
		}
		sort.Strings(ack.Endpoints)
		if withStreams {
			ack.Streams = map[string]uint64{}
			if streams, err := veVisible(m.indexes); err == nil {
				for id, s := range streams {
					ck, _ := c12Canon(fmt.Sprintf("%s:%d>%s:%d", s.ClientHostIP(), s.ClientPort, s.ServerHostIP(), s.ServerPort), "")
					ack.Streams[ck] = id
				}
			}
		}
	})
}

func TestVerifC12Child(t *testing.T) {
	sp := os.Getenv("VERIF_C12_SCRIPT")
	if sp == "" {
		t.Skip("child mode of TestVerifC12Kill")
	}
	b, err := os.ReadFile(sp)
	if err != nil {
		fmt.Fprintln(os.Stderr, "child: script:", err)
		os.Exit(4)
	}
	var sc c12kScript
	if err := json.Unmarshal(b, &sc); err != nil {
		fmt.Fprintln(os.Stderr, "child: script:", err)
		os.Exit(4)
	}
	live := filepath.Join(sc.Base, "live")
	d := c12kDirs(live)
	ackf, err := os.OpenFile(filepath.Join(sc.Base, "acks.log"), os.O_CREATE|os.O_WRONLY|os.O_APPEND, 0o644)
	if err != nil {
		fmt.Fprintln(os.Stderr, "child: ack log:", err)
		os.Exit(4)
	}
	writeAck := func(a *c12kAck) {
		line, _ := json.Marshal(a)
		ackf.Write(append(line, '\n'))
	}
	fatal := func(i int, f string, a ...any) {
		writeAck(&c12kAck{I: i, Fatal: fmt.Sprintf(f, a...)})
		os.Exit(3)
	}
	os.WriteFile(filepath.Join(sc.Base, "child.pid"), []byte(strconv.Itoa(os.Getpid())), 0o644)
	e, err := veStart(d, true)
	if err != nil {
		fatal(-1, "manager.New failed on fresh directories: %v", err)
	}
	var imported []string
	for i, op := range sc.Ops {
		var opErr error
		call := func(f func() error) {
			err, hung := c11Call(f)
			if hung {
				fatal(i, "%s did not return within 15s", op)
			}
			opErr = err
		}
		switch op.Op {
		case "import":
			var names []string
			for _, ci := range op.Caps {
				n := fmt.Sprintf("cap%02d.pcap", ci)
				// the capture arrives complete: it is moved into the capture directory
				if err := os.Rename(filepath.Join(sc.Base, "staging", n), filepath.Join(d.pcap, n)); err != nil {
					fatal(i, "harness: %v", err)
				}
				names = append(names, n)
			}
			imported = append(imported, names...)
			e.mgr.ImportPcaps(names)
		case "addtag":
			call(func() error { return e.mgr.AddTag(op.Name, op.Color, op.Def) })
		case "query":
			call(func() error { return e.mgr.UpdateTag(op.Name, UpdateTagOperationUpdateQuery(op.Def)) })
		case "del":
			call(func() error { return e.mgr.DelTag(op.Name) })
		case "color":
			call(func() error { return e.mgr.UpdateTag(op.Name, UpdateTagOperationUpdateColor(op.Color)) })
		case "markadd":
			call(func() error { return e.mgr.UpdateTag(op.Name, UpdateTagOperationMarkAddStream(op.IDs)) })
		case "markdel":
			call(func() error { return e.mgr.UpdateTag(op.Name, UpdateTagOperationMarkDelStream(op.IDs)) })
		case "conv":
			call(func() error { return e.mgr.UpdateTag(op.Name, UpdateTagOperationSetConverter(op.Set)) })
		case "config":
			call(func() error { return e.mgr.SetConfig(Config{AutoInsertLimitToQuery: op.Add}) })
		case "hook":
			if op.Add {
				call(func() error { return e.mgr.AddPcapProcessorWebhook(op.Arg) })
			} else {
				call(func() error { return e.mgr.DelPcapProcessorWebhook(op.Arg) })
			}
		case "endpoint":
			if op.Add {
				call(func() error { return e.mgr.AddPcapOverIPEndpoint(op.Arg) })
			} else {
				call(func() error { return e.mgr.DelPcapOverIPEndpoint(op.Arg) })
			}
		case "wait":
			if err := e.waitIdle(60 * time.Second); err != nil {
				fatal(i, "%v", err)
			}
		case "restart":
			e.close()
			if e, err = veStart(d, true); err != nil {
				fatal(i, "manager.New failed after a clean shutdown: %v", err)
			}
		}
		ack := &c12kAck{I: i}
		if opErr != nil {
			ack.Err = opErr.Error()
		}
		if err := c12kSnapshot(e, ack, op.Op == "wait"); err != nil {
			fatal(i, "%v", err)
		}
		if op.Op == "wait" {
			ack.Imported = append([]string{}, imported...)
		}
		writeAck(ack)
	}
	writeAck(&c12kAck{I: len(sc.Ops), Done: true})
	// no Close: the end of the script is one more kill
	os.Exit(0)
}

// ---------------------------------------------------------------------------------------------
// recovery oracle

func c12kReadAcks(b []byte) []c12kAck {
	var out []c12kAck
	for _, line := range bytes.Split(b, []byte("\n")) {
		var a c12kAck
		if len(line) == 0 || json.Unmarshal(line, &a) != nil {
			continue // an incomplete last line is no acknowledgement
		}
		out = append(out, a)
	}
	return out
}

// c12kVerify restarts the service on a crash copy and compares it with what was acknowledged when the copy
// was taken. It returns "" when the property holds.
func c12kVerify(dir string, sc *c12kScript, acks []c12kAck) string {
	var last *c12kAck     // last acknowledged state
	var lastWait *c12kAck // last acknowledged quiescence
	nAck := 0
	for i := range acks {
		a := &acks[i]
		if a.Fatal != "" || a.Done {
			continue
		}
		last = a
		nAck = a.I + 1
		if a.Streams != nil {
			lastWait = a
		}
	}
	var inFlight *c12kOp // the call that may or may not have been applied
	if nAck < len(sc.Ops) {
		inFlight = &sc.Ops[nAck]
	}
	e, err := veStart(c12kDirs(dir), true)
	if err != nil {
		return fmt.Sprintf("the restart failed: manager.New: %v", err)
	}
	defer e.close()
	tags, _, err := c11State(e)
	if err != nil {
		return "after the restart: " + err.Error()
	}
	ackTags := map[string]c12kTag{}
	if last != nil {
		ackTags = last.Tags
	}
	flying := func(kind, key string) bool {
		if inFlight == nil {
			return false
		}
		switch inFlight.Op {
		case "addtag", "query", "del", "color", "markadd", "markdel", "conv":
			return kind == "tag" && inFlight.Name == key
		case "config":
			return kind == "config"
		case "hook":
			return kind == "hook" && inFlight.Arg == key
		case "endpoint":
			return kind == "endpoint" && inFlight.Arg == key
		}
		return false
	}
	for n, a := range ackTags {
		if flying("tag", n) {
			continue
		}
		got, ok := tags[n]
		if !ok {
			return fmt.Sprintf("after the restart the acknowledged tag %s is missing (tags now: %s)", n, strings.ReplaceAll(c11Render(tags), "\n", "; "))
		}
		if got.def != a.Def || got.color != a.Color || fmt.Sprint(got.converters) != fmt.Sprint(a.Convs) {
			return fmt.Sprintf("after the restart tag %s is def=%q color=%q converters=%v, acknowledged was def=%q color=%q converters=%v", n, got.def, got.color, got.converters, a.Def, a.Color, a.Convs)
		}
	}
	for n := range tags {
		if _, ok := ackTags[n]; !ok && !flying("tag", n) {
			return fmt.Sprintf("after the restart the tag %s exists although it was deleted or never acknowledged", n)
		}
	}
	if last != nil || inFlight == nil || inFlight.Op != "config" {
		want := last != nil && last.AutoLimit
		if got := e.mgr.Config().AutoInsertLimitToQuery; got != want && !flying("config", "") {
			return fmt.Sprintf("after the restart the setting AutoInsertLimitToQuery is %v, acknowledged %v", got, want)
		}
	}
	cmpSet := func(kind string, got, want []string) string {
		g, w := map[string]bool{}, map[string]bool{}
		for _, x := range got {
			g[x] = true
		}
		for _, x := range want {
			w[x] = true
		}
		for x := range w {
			if !g[x] && !flying(kind, x) {
				return fmt.Sprintf("after the restart the acknowledged %s %s is missing (now: %v)", kind, x, got)
			}
		}
		for x := range g {
			if !w[x] && !flying(kind, x) {
				return fmt.Sprintf("after the restart the %s %s exists although it was removed or never acknowledged", kind, x)
			}
		}
		return ""
	}
	var wantHooks, wantEps []string
	if last != nil {
		wantHooks, wantEps = last.Hooks, last.Endpoints
	}
	if msg := cmpSet("hook", e.mgr.ListPcapProcessorWebhooks(), wantHooks); msg != "" {
		return msg
	}
	var eps []string
	for _, ep := range e.mgr.ListPcapOverIPEndpoints() {
		eps = append(eps, ep.Address)
	}
	if msg := cmpSet("endpoint", eps, wantEps); msg != "" {
		return msg
	}

	// streams: every stream acknowledged at the last quiescence is visible under its id; every visible stream
	// carries the payload of the captures imported at that quiescence, possibly extended by captures handed
	// over later (their import may have been completed, half done, or not started when the process died)
	v := e.mgr.GetView()
	got := map[string]uint64{}
	content := map[string]string{}
	err = v.AllStreams(context.Background(), func(sc StreamContext) error {
		s := sc.Stream()
		raw := fmt.Sprintf("%s:%d>%s:%d", s.ClientHostIP(), s.ClientPort, s.ServerHostIP(), s.ServerPort)
		key, _ := c12Canon(raw, "")
		flipped := key != raw
		if _, dup := got[key]; dup {
			return fmt.Errorf("connection %s is visible twice", key)
		}
		got[key] = s.ID()
		data, err := s.Data()
		if err != nil {
			return fmt.Errorf("stream %d: %w", s.ID(), err)
		}
		var runs []string
		for _, run := range vidx.DataToRuns(data) {
			d := run.Dir
			if flipped {
				d = 1 - d
			}
			runs = append(runs, fmt.Sprintf("%d:%s", d, run.Data))
		}
		content[key] = strings.Join(runs, ",")
		return nil
	})
	v.Release()
	_ = e.inLoop(func() {})
	if err != nil {
		return fmt.Sprintf("after the restart reading all streams failed: %v", err)
	}
	imported := map[string]bool{}
	if lastWait != nil {
		for key, id := range lastWait.Streams {
			g, ok := got[key]
			if !ok {
				return fmt.Sprintf("after the restart the stream of %s (id %d, visible at the acknowledged quiescence after op %d) is not visible", key, id, lastWait.I)
			}
			if g != id {
				return fmt.Sprintf("after the restart the stream of %s has id %d, it had id %d before", key, g, id)
			}
		}
		for _, n := range lastWait.Imported {
			imported[n] = true
		}
	}
	var maybe []string
	for i := 0; i <= nAck && i < len(sc.Ops); i++ {
		if sc.Ops[i].Op != "import" {
			continue
		}
		for _, ci := range sc.Ops[i].Caps {
			if n := fmt.Sprintf("cap%02d.pcap", ci); !imported[n] {
				maybe = append(maybe, n)
			}
		}
	}
	model := &vsRun{tr: sc.Traffic}
	var alts []map[string]string
	for mask := 0; mask < 1<<len(maybe); mask++ {
		set := map[string]bool{}
		for n := range imported {
			set[n] = true
		}
		for i, n := range maybe {
			if mask&(1<<i) != 0 {
				set[n] = true
			}
		}
		alts = append(alts, c12CanonMap(model.expectedStreams(set)))
	}
	for key := range alts[0] {
		if _, ok := content[key]; !ok {
			return fmt.Sprintf("after the restart the stream of %s, contained in the captures whose import was acknowledged (%v), is not visible", key, lastWait.Imported)
		}
	}
	for key, c := range content {
		ok := false
		var wants []string
		for _, alt := range alts {
			w, exists := alt[key]
			if exists && w == c {
				ok = true
				break
			}
			if exists {
				wants = append(wants, w)
			}
		}
		if !ok {
			return fmt.Sprintf("after the restart the stream of %s has payload %q; the captures imported at the last acknowledged quiescence are %v, handed over later %v; possible payloads %q", key, c, c12kKeys(imported), maybe, wants)
		}
	}

	// convergence
	if err := e.waitIdle(90 * time.Second); err != nil {
		return "after the restart: " + err.Error()
	}
	var msg string
	_ = e.inLoop(func() {
		msg = e.checkTagsInLoop(nil)
		if msg == "" {
			for n, t := range e.mgr.tags {
				if !t.Uncertain.IsZero() {
					msg = fmt.Sprintf("tag %s still has streams pending re-evaluation although the service is idle", n)
				}
			}
		}
	})
	if msg != "" {
		return "after the restart and settling: " + msg
	}
	return ""
}

// ---------------------------------------------------------------------------------------------
// parent

var c12kTraced = []string{"openat", "creat", "write", "pwrite64", "writev", "rename", "renameat", "renameat2", "unlink", "unlinkat", "ftruncate", "truncate", "fsync", "fdatasync", "link", "linkat", "mkdir", "mkdirat"}

var c12kReadOnlyOpen = regexp.MustCompile(`openat\([^)]*O_RDONLY`)

// c12kSnapDir copies the live directories (converter executables and captures are linked, they never change).
func c12kSnapDir(live, dst string) error {
	return filepath.WalkDir(live, func(p string, de os.DirEntry, err error) error {
		if err != nil {
			if os.IsNotExist(err) {
				return nil
			}
			return err
		}
		rel, _ := filepath.Rel(live, p)
		target := filepath.Join(dst, rel)
		if de.IsDir() {
			return os.MkdirAll(target, 0o755)
		}
		if strings.HasPrefix(rel, "converter/") || strings.HasPrefix(rel, "pcap/") {
			return os.Link(p, target)
		}
		b, err := os.ReadFile(p)
		if err != nil {
			if os.IsNotExist(err) {
				return nil
			}
			return err
		}
		return os.WriteFile(target, b, 0o644)
	})
}

func c12kAllStopped(pid int) bool {
	ents, err := os.ReadDir(fmt.Sprintf("/proc/%d/task", pid))
	if err != nil || len(ents) == 0 {
		return false
	}
	for _, en := range ents {
		b, err := os.ReadFile(fmt.Sprintf("/proc/%d/task/%s/stat", pid, en.Name()))
		if err != nil {
			continue
		}
		i := bytes.LastIndexByte(b, ')')
		if i < 0 || i+2 >= len(b) {
			return false
		}
		if st := b[i+2]; st != 'T' && st != 't' {
			return false
		}
	}
	return true
}

// c12kStop stops the whole child process and waits until every thread is stopped.
func c12kStop(pid int) bool {
	if syscall.Kill(pid, syscall.SIGSTOP) != nil {
		return false
	}
	deadline := time.Now().Add(2 * time.Second)
	for time.Now().Before(deadline) {
		if c12kAllStopped(pid) {
			// a thread held by the tracer behind a delayed system call looks stopped, too: look again after the delay
			time.Sleep(4 * time.Millisecond)
			if c12kAllStopped(pid) {
				return true
			}
		}
		time.Sleep(300 * time.Microsecond)
	}
	syscall.Kill(pid, syscall.SIGCONT)
	return false
}

func c12kTarDir(dir string) string {
	var buf bytes.Buffer
	gz := gzip.NewWriter(&buf)
	tw := tar.NewWriter(gz)
	filepath.WalkDir(dir, func(p string, de os.DirEntry, err error) error {
		if err != nil || de.IsDir() {
			return nil
		}
		rel, _ := filepath.Rel(dir, p)
		if strings.HasPrefix(rel, "converter/") {
			return nil
		}
		b, err := os.ReadFile(p)
		if err != nil {
			return nil
		}
		tw.WriteHeader(&tar.Header{Name: rel, Mode: 0o644, Size: int64(len(b))})
		tw.Write(b)
		return nil
	})
	tw.Close()
	gz.Close()
	return base64.StdEncoding.EncodeToString(buf.Bytes())
}

func c12kUntar(b64, dir string) error {
	raw, err := base64.StdEncoding.DecodeString(b64)
	if err != nil {
		return err
	}
	gz, err := gzip.NewReader(bytes.NewReader(raw))
	if err != nil {
		return err
	}
	tr := tar.NewReader(gz)
	for {
		h, err := tr.Next()
		if err == io.EOF {
			return nil
		}
		if err != nil {
			return err
		}
		p := filepath.Join(dir, h.Name)
		os.MkdirAll(filepath.Dir(p), 0o755)
		b, err := io.ReadAll(tr)
		if err != nil {
			return err
		}
		if err := os.WriteFile(p, b, 0o644); err != nil {
			return err
		}
	}
}

type c12kPoint struct {
	dir    string
	count  int      // completed file system calls on the data directories before the copy
	recent []string // the last of them
	acks   []c12kAck
	atEnd  bool
}

func c12kGenOps(rt *rapid.T, tr *veTraffic, open map[string]bool, convs []string) []c12kOp {
	gen := &vsRun{rt: rt, open: open, cfg: vsConfig{converters: convs}}
	var ops []c12kOp
	remaining := []int{}
	for i := 0; i < tr.captures(); i++ {
		remaining = append(remaining, i)
	}
	added := []string{}
	has := func(n string) bool {
		for _, a := range added {
			if a == n {
				return true
			}
		}
		return false
	}
	n := rapid.IntRange(5, 18).Draw(rt, "nops")
	for len(ops) < n {
		kind := rapid.SampledFrom([]string{"import", "import", "import", "tag", "tag", "tag", "tag", "mark", "conv", "config", "hook", "endpoint", "wait", "wait", "restart"}).Draw(rt, "op")
		switch kind {
		case "import":
			if len(remaining) == 0 {
				continue
			}
			k := rapid.IntRange(1, 2).Draw(rt, "ncaps")
			op := c12kOp{Op: "import"}
			for i := 0; i < k && len(remaining) != 0; i++ {
				pick := 0
				if len(remaining) > 1 && rapid.IntRange(0, 3).Draw(rt, "outoforder") == 0 {
					pick = rapid.IntRange(1, len(remaining)-1).Draw(rt, "whichcap")
				}
				op.Caps = append(op.Caps, remaining[pick])
				remaining = append(remaining[:pick], remaining[pick+1:]...)
			}
			ops = append(ops, op)
		case "tag":
			sub := rapid.SampledFrom([]string{"add", "add", "query", "query", "del", "color"}).Draw(rt, "tagop")
			if len(added) == 0 {
				sub = "add"
			}
			switch sub {
			case "add":
				name := rapid.SampledFrom(vsTagNames).Draw(rt, "tagname")
				ops = append(ops, c12kOp{Op: "addtag", Name: name, Color: rapid.SampledFrom([]string{"#fff", "#abc"}).Draw(rt, "color"), Def: gen.genDef(name, added)})
				if !has(name) {
					added = append(added, name)
				}
			case "query":
				name := rapid.SampledFrom(added).Draw(rt, "tagname")
				ops = append(ops, c12kOp{Op: "query", Name: name, Def: gen.genDef(name, added)})
			case "del":
				ops = append(ops, c12kOp{Op: "del", Name: rapid.SampledFrom(added).Draw(rt, "tagname")})
			case "color":
				ops = append(ops, c12kOp{Op: "color", Name: rapid.SampledFrom(added).Draw(rt, "tagname"), Color: rapid.SampledFrom([]string{"#123", "#456"}).Draw(rt, "color")})
			}
		case "mark":
			if !has("mark/m") {
				ops = append(ops, c12kOp{Op: "addtag", Name: "mark/m", Color: "#fff", Def: rapid.SampledFrom(vsIDs).Draw(rt, "markdef")})
				added = append(added, "mark/m")
				continue
			}
			op := c12kOp{Op: rapid.SampledFrom([]string{"markadd", "markdel"}).Draw(rt, "markop"), Name: "mark/m"}
			for i, k := 0, rapid.IntRange(1, 3).Draw(rt, "nids"); i < k; i++ {
				op.IDs = append(op.IDs, uint64(rapid.IntRange(0, 8).Draw(rt, "id")))
			}
			ops = append(ops, op)
		case "conv":
			if len(added) == 0 {
				continue
			}
			ops = append(ops, c12kOp{Op: "conv", Name: rapid.SampledFrom(added).Draw(rt, "tagname"), Set: rapid.SampledFrom([][]string{{}, convs}).Draw(rt, "convset")})
		case "config":
			ops = append(ops, c12kOp{Op: "config", Add: rapid.Bool().Draw(rt, "autolimit")})
		case "hook":
			ops = append(ops, c12kOp{Op: "hook", Add: rapid.IntRange(0, 2).Draw(rt, "addhook") != 0, Arg: rapid.SampledFrom([]string{"http://127.0.0.1:1/a", "http://127.0.0.1:1/b"}).Draw(rt, "hook")})
		case "endpoint":
			ops = append(ops, c12kOp{Op: "endpoint", Add: rapid.IntRange(0, 2).Draw(rt, "addep") != 0, Arg: rapid.SampledFrom([]string{"127.0.0.1:1", "127.0.0.1:2"}).Draw(rt, "endpoint")})
		case "wait":
			if len(ops) != 0 && ops[len(ops)-1].Op != "wait" {
				ops = append(ops, c12kOp{Op: "wait"})
			}
		case "restart":
			ops = append(ops, c12kOp{Op: "restart"})
		}
	}
	return ops
}

func c12kProp(rt *rapid.T, c *vlib.Case, t *testing.T, open map[string]bool) {
	base, err := os.MkdirTemp("", "c12k-")
	if err != nil {
		rt.Fatalf("harness: tempdir: %v", err)
	}
	defer os.RemoveAll(base)
	live := filepath.Join(base, "live")
	d, err := veMakeDirs(live)
	if err != nil {
		rt.Fatalf("harness: dirs: %v", err)
	}
	convs := []string{"cva"}
	if err := veInstallConverters(d, convs); err != nil {
		rt.Fatalf("harness: converters: %v", err)
	}
	tr := vsGenTraffic(rt)
	staging := filepath.Join(base, "staging")
	os.MkdirAll(staging, 0o755)
	for i := 0; i < tr.captures(); i++ {
		if _, err := tr.writeCapture(veDirs{pcap: staging}, i); err != nil {
			rt.Fatalf("harness: capture: %v", err)
		}
	}
	ops := c12kGenOps(rt, tr, open, convs)
	gaps := rapid.SliceOfN(rapid.SampledFrom([]int{1, 1, 1, 2, 2, 3, 5, 8, 13, 21, 34}), 24, 24).Draw(rt, "gaps")
	sc := &c12kScript{Base: base, Traffic: tr, Ops: ops, Convs: convs}
	var opsText []string
	for _, o := range ops {
		opsText = append(opsText, o.String())
	}
	extra := map[string]any{}
	c.Render(func() any {
		m := map[string]any{"traffic": tr.brief(), "script": opsText, "stop_gaps": gaps, "replay_test": "TestVerifC12KillReplay", "script_json": sc}
		for k, v := range extra {
			m[k] = v
		}
		return m
	})
	sb, _ := json.Marshal(sc)
	scriptPath := filepath.Join(base, "script.json")
	if err := os.WriteFile(scriptPath, sb, 0o644); err != nil {
		rt.Fatalf("harness: %v", err)
	}

	pr, pw, err := os.Pipe()
	if err != nil {
		rt.Fatalf("harness: pipe: %v", err)
	}
	set := strings.Join(c12kTraced, ",")
	delay := vlib.EnvInt("VERIF_C12_DELAY_US", 1500)
	cmd := exec.Command("strace", "-f", "-y", "-qq", "-s", "0", "-o", "/dev/fd/3", "-e", "trace="+set, "-e", fmt.Sprintf("inject=%s:delay_exit=%d", set, delay),
		os.Args[0], "-test.run=^TestVerifC12Child$", "-test.timeout=300s")
	cmd.ExtraFiles = []*os.File{pw}
	cmd.Env = append(os.Environ(), "VERIF_C12_SCRIPT="+scriptPath)
	cmd.SysProcAttr = &syscall.SysProcAttr{Setpgid: true}
	var childOut bytes.Buffer
	cmd.Stdout, cmd.Stderr = &childOut, &childOut
	if err := cmd.Start(); err != nil {
		pw.Close()
		pr.Close()
		c.Discard("strace-unavailable")
		return
	}
	pw.Close()
	defer func() {
		syscall.Kill(-cmd.Process.Pid, syscall.SIGKILL)
	}()

	var points []*c12kPoint
	count, next, gi := 0, gaps[0], 0
	var recent []string
	missed := 0
	rd := bufio.NewReaderSize(pr, 1<<16)
	readDone := make(chan struct{})
	watchdog := time.AfterFunc(240*time.Second, func() { syscall.Kill(-cmd.Process.Pid, syscall.SIGKILL) })
	go func() {
		defer close(readDone)
		for {
			line, err := rd.ReadString('\n')
			if err != nil {
				return
			}
			if !strings.Contains(line, live) || !strings.Contains(line, " = ") || strings.Contains(line, "<unfinished") {
				continue
			}
			if c12kReadOnlyOpen.MatchString(line) || strings.Contains(line, " = -1 ") {
				continue // nothing changed on disk
			}
			count++
			l := strings.TrimSpace(strings.ReplaceAll(line, live, ""))
			if len(l) > 160 {
				l = l[:160]
			}
			recent = append(recent, l)
			if len(recent) > 6 {
				recent = recent[1:]
			}
			if count != next || gi >= len(gaps) {
				continue
			}
			gi++
			if gi < len(gaps) {
				next = count + gaps[gi]
			}
			pidb, err := os.ReadFile(filepath.Join(base, "child.pid"))
			pid, _ := strconv.Atoi(strings.TrimSpace(string(pidb)))
			if err != nil || pid == 0 || !c12kStop(pid) {
				missed++
				continue
			}
			p := &c12kPoint{dir: filepath.Join(base, fmt.Sprintf("crash%02d", len(points))), count: count, recent: append([]string{}, recent...)}
			cerr := c12kSnapDir(live, p.dir)
			ab, _ := os.ReadFile(filepath.Join(base, "acks.log"))
			syscall.Kill(pid, syscall.SIGCONT)
			if cerr != nil {
				missed++
				continue
			}
			p.acks = c12kReadAcks(ab)
			points = append(points, p)
		}
	}()
	<-readDone
	werr := cmd.Wait()
	watchdog.Stop()
	pr.Close()
	syscall.Kill(-cmd.Process.Pid, syscall.SIGKILL)
	ab, _ := os.ReadFile(filepath.Join(base, "acks.log"))
	acks := c12kReadAcks(ab)
	for _, a := range acks {
		if a.Fatal != "" {
			if strings.HasPrefix(a.Fatal, "harness:") {
				rt.Fatalf("%s", a.Fatal)
			}
			extra["child_acks"] = len(acks)
			rt.Fatalf("the service failed while running the script (op %d %s): %s", a.I, opName(ops, a.I), a.Fatal)
		}
	}
	done := len(acks) != 0 && acks[len(acks)-1].Done
	if !done {
		out := childOut.String()
		if len(out) > 3000 {
			out = out[len(out)-3000:]
		}
		if strings.Contains(out, "ptrace") || strings.Contains(out, "strace:") && count == 0 {
			c.Discard("strace-unavailable")
			return
		}
		if !strings.Contains(out, "panic:") && !strings.Contains(out, "fatal error:") {
			// killed by the watchdog or by the machine, not by the service: nothing can be concluded
			c.Discard("child-did-not-finish")
			return
		}
		rt.Fatalf("the service process died while running the script (%v) after %d acknowledgements; output: %s", werr, len(acks), out)
	}
	// the end of the script: the process exits without closing the manager
	end := &c12kPoint{dir: live, count: count, recent: recent, acks: acks, atEnd: true}
	points = append(points, end)

	c.Count("crash_points", len(points))
	c.Count("missed_stops", missed)
	c.Count("file_syscalls", count)
	kinds := map[string]bool{}
	for _, p := range points {
		if msg := c12kVerify(p.dir, sc, p.acks); msg != "" {
			nAck := 0
			for _, a := range p.acks {
				if !a.Done {
					nAck = a.I + 1
				}
			}
			extra["crash_after_file_syscalls"] = p.count
			extra["last_file_syscalls_before_the_crash"] = p.recent
			extra["acknowledged_ops"] = nAck
			extra["op_in_flight"] = opName(ops, nAck)
			extra["acks_json"] = p.acks
			extra["crash_dir_tgz_b64"] = c12kTarDir(p.dir)
			rt.Fatalf("crash after %d file system calls (last: %v), %d calls acknowledged, in flight: %s: %s", p.count, p.recent, nAck, opName(ops, nAck), msg)
		}
		for _, l := range p.recent[max(0, len(p.recent)-1):] {
			switch {
			case strings.Contains(l, ".state.json"):
				kinds["state"] = true
			case strings.Contains(l, ".idx"):
				kinds["index"] = true
			case strings.Contains(l, ".snap"):
				kinds["snapshot"] = true
			case strings.Contains(l, ".cidx"):
				kinds["cache"] = true
			case strings.Contains(l, "/pcap/"):
				kinds["capture"] = true
			}
			switch {
			case strings.Contains(l, "write(") || strings.Contains(l, "pwrite64(") || strings.Contains(l, "writev("):
				kinds["after-write"] = true
			case strings.Contains(l, "rename"):
				kinds["after-rename"] = true
			case strings.Contains(l, "unlink"):
				kinds["after-unlink"] = true
			case strings.Contains(l, "openat("):
				kinds["after-create"] = true
			}
		}
	}
	for k := range kinds {
		c.Label("crash-point:" + k)
	}
	for _, o := range ops {
		c.Label("op:" + o.Op)
	}
	c.LabelIf(len(points) >= 10, "crash-points>=10")
	if len(points) >= 3 {
		c.NonTrivial(strings.Join(opsText, ";") + fmt.Sprint(tr.brief(), gaps))
	}
}

func c12kKeys(m map[string]bool) []string {
	out := make([]string, 0, len(m))
	for k := range m {
		out = append(out, k)
	}
	sort.Strings(out)
	return out
}

func opName(ops []c12kOp, i int) string {
	if i < 0 || i >= len(ops) {
		return "(none)"
	}
	return ops[i].String()
}

func TestVerifC12Kill(t *testing.T) {
	open := vlib.OpenFindings()
	vlib.Check(t, "C12", func(rt *rapid.T, c *vlib.Case) { c12kProp(rt, c, t, open) })
}

// TestVerifC12KillReplay re-judges a saved crash directory (VERIF_REPLAY_FILE: a replay file of TestVerifC12Kill).
func TestVerifC12KillReplay(t *testing.T) {
	p := os.Getenv("VERIF_REPLAY_FILE")
	if p == "" {
		t.Skip("replay mode of TestVerifC12Kill")
	}
	b, err := os.ReadFile(p)
	if err != nil {
		t.Fatal(err)
	}
	var body struct {
		Case struct {
			Script *c12kScript `json:"script_json"`
			Acks   []c12kAck   `json:"acks_json"`
			Tgz    string      `json:"crash_dir_tgz_b64"`
		} `json:"case"`
	}
	if err := json.Unmarshal(b, &body); err != nil {
		t.Fatal(err)
	}
	if body.Case.Script == nil || body.Case.Tgz == "" {
		t.Fatal("the replay file holds no crash directory")
	}
	dir, err := os.MkdirTemp("", "c12k-replay-")
	if err != nil {
		t.Fatal(err)
	}
	defer os.RemoveAll(dir)
	d, err := veMakeDirs(dir)
	if err != nil {
		t.Fatal(err)
	}
	if err := veInstallConverters(d, body.Case.Script.Convs); err != nil {
		t.Fatal(err)
	}
	if err := c12kUntar(body.Case.Tgz, dir); err != nil {
		t.Fatal(err)
	}
	if msg := c12kVerify(dir, body.Case.Script, body.Case.Acks); msg != "" {
		t.Fatalf("%s", msg)
	}
}
