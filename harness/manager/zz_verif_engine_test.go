package manager

// Scenario engine for the manager properties (C06, C09, C10, C11, C12, C13,
// C16, C20). See DESIGN.md §3.4 and §4.6.
//
// The engine owns the schedule of background job completions through the
// build-tag guarded hooks in manager.go: every job parks at its gate right
// before it posts its completion closure to the service loop; the harness
// decides when each parked job is delivered.

import (
	"bytes"
	"context"
	"fmt"
	"io"
	"log"
	"os"
	"path/filepath"
	"runtime"
	"sort"
	"strconv"
	"strings"
	"sync"
	"syscall"
	"time"

	"github.com/gopacket/gopacket"
	"github.com/gopacket/gopacket/layers"
	"github.com/gopacket/gopacket/pcapgo"
	"github.com/spq/pkappa2/internal/index"
	"github.com/spq/pkappa2/internal/query"
	"github.com/spq/pkappa2/internal/verif/vidx"
	"github.com/spq/pkappa2/internal/verif/vq"
)

var veKinds = []string{"import", "tag", "merge", "convert"}

type veGate struct {
	kind    string
	stage   string // "begin": the job body has not run yet; "gate": the body is done, the completion is not posted yet
	release chan struct{}
}

// veEngine is the harness side of the hooks. Only one engine is current at a time.
type veEngine struct {
	mu      sync.Mutex
	begun   map[string]int
	gated   map[string]int
	ended   map[string]int
	parked  []*veGate
	auto    bool // gates do not block (free running)
	changed chan struct{}
	// holdNext[kind]: the next job of that kind is also held before its body runs (at begin), so that API
	// calls and deliveries can be placed between the snapshot a job takes when it is started and its reads
	holdNext map[string]bool

	mgr    *Manager
	dirs   veDirs
	closed bool

	// statistics about the schedule, used for non-triviality rules
	maxParked       int
	kindsSeen       map[string]bool
	deliveries      int
	invalWhileTag   int // invalidating events applied while a tagging job was between begin and delivery
	mergeWhileHeld  int
	importWhileHeld int
}

var (
	veCurrent   *veEngine
	veCurrentMu sync.Mutex
)

func veInstallHooks() {
	VerifJobBegin = func(kind string) {
		if e := veGet(); e != nil {
			e.mu.Lock()
			e.begun[kind]++
			e.kindsSeen[kind] = true
			if !e.auto && e.holdNext[kind] {
				delete(e.holdNext, kind)
				g := &veGate{kind: kind, stage: "begin", release: make(chan struct{})}
				e.parked = append(e.parked, g)
				e.mu.Unlock()
				e.notify()
				<-g.release
				return
			}
			e.mu.Unlock()
			e.notify()
		}
	}
	VerifJobGate = func(kind string) {
		e := veGet()
		if e == nil {
			return
		}
		e.mu.Lock()
		e.gated[kind]++
		if e.auto {
			e.mu.Unlock()
			e.notify()
			return
		}
		g := &veGate{kind: kind, stage: "gate", release: make(chan struct{})}
		e.parked = append(e.parked, g)
		if len(e.parked) > e.maxParked {
			e.maxParked = len(e.parked)
		}
		e.mu.Unlock()
		e.notify()
		<-g.release
	}
	VerifJobEnd = func(kind string) {
		if e := veGet(); e != nil {
			e.mu.Lock()
			e.ended[kind]++
			e.mu.Unlock()
			e.notify()
		}
	}
}

func veGet() *veEngine {
	veCurrentMu.Lock()
	defer veCurrentMu.Unlock()
	return veCurrent
}

func (e *veEngine) notify() {
	select {
	case e.changed <- struct{}{}:
	default:
	}
}

type veDirs struct {
	base, pcap, index, snapshot, state, converter string
}

func veMakeDirs(base string) (veDirs, error) {
	d := veDirs{base: base}
	d.pcap = filepath.Join(base, "pcap") + "/"
	d.index = filepath.Join(base, "index") + "/"
	d.state = filepath.Join(base, "state") + "/"
	d.snapshot = filepath.Join(base, "snapshot") + "/"
	d.converter = filepath.Join(base, "converter") + "/"
	for _, p := range []string{d.pcap, d.index, d.snapshot, d.state, d.converter} {
		if err := os.MkdirAll(p, 0o755); err != nil {
			return d, err
		}
	}
	return d, nil
}

// veInstallConverters copies the deterministic converter executable under the given names.
func veInstallConverters(d veDirs, names []string) error {
	src := filepath.Join(os.Getenv("VERIF_BUILD"), "convbin")
	b, err := os.ReadFile(src)
	if err != nil {
		return fmt.Errorf("converter binary %s missing (extra_builds): %w", src, err)
	}
	for _, n := range names {
		if err := os.WriteFile(filepath.Join(d.converter, n), b, 0o755); err != nil {
			return err
		}
	}
	return nil
}

func init() {
	veInstallHooks()
	if os.Getenv("VERIF_MANAGER_LOG") == "" {
		log.SetOutput(io.Discard)
	}
}

// veStart creates a manager on the directories and makes the engine current.
func veStart(d veDirs, auto bool) (*veEngine, error) {
	e := &veEngine{begun: map[string]int{}, gated: map[string]int{}, ended: map[string]int{}, changed: make(chan struct{}, 1), holdNext: map[string]bool{},
		auto: auto, dirs: d, kindsSeen: map[string]bool{}}
	veCurrentMu.Lock()
	veCurrent = e
	veCurrentMu.Unlock()
	mgr, err := New(d.pcap, d.index, d.snapshot, d.state, d.converter, "")
	if err != nil {
		veCurrentMu.Lock()
		veCurrent = nil
		veCurrentMu.Unlock()
		return nil, err
	}
	e.mgr = mgr
	return e, nil
}

// inLoop runs f inside the service loop and waits for it.
func (e *veEngine) inLoop(f func()) error {
	done := make(chan struct{})
	select {
	case e.mgr.jobs <- func() { f(); close(done) }:
	case <-time.After(30 * time.Second):
		return fmt.Errorf("service loop does not accept work (hung or dead)")
	}
	select {
	case <-done:
		return nil
	case <-time.After(60 * time.Second):
		return fmt.Errorf("closure posted to the service loop did not finish within 60s")
	}
}

type veFlags struct {
	imp, tag, merge, conv bool
	importQueue           int
}

func (e *veEngine) flags() (veFlags, error) {
	var f veFlags
	err := e.inLoop(func() {
		f = veFlags{imp: len(e.mgr.importJobs) != 0, tag: e.mgr.taggingJobRunning, merge: e.mgr.mergeJobRunning, conv: e.mgr.converterJobRunning, importQueue: len(e.mgr.importJobs)}
	})
	return f, err
}

func (f veFlags) of(kind string) bool {
	switch kind {
	case "import":
		return f.imp
	case "tag":
		return f.tag
	case "merge":
		return f.merge
	}
	return f.conv
}

func (e *veEngine) parkedCount(kind string) int {
	e.mu.Lock()
	defer e.mu.Unlock()
	n := 0
	for _, g := range e.parked {
		if g.kind == kind {
			n++
		}
	}
	return n
}

// sync waits until every running flag corresponds to exactly one job parked at
// its gate (gated mode). A flag that stays set although no job of that kind is
// between begin and end is reported as stuck.
func (e *veEngine) sync() error {
	if e.auto {
		return nil
	}
	deadline := time.Now().Add(60 * time.Second)
	for {
		f, err := e.flags()
		if err != nil {
			return err
		}
		ok := true
		for _, k := range veKinds {
			want := 0
			if f.of(k) {
				want = 1
			}
			if e.parkedCount(k) != want {
				ok = false
			}
		}
		if ok {
			return nil
		}
		if time.Now().After(deadline) {
			e.mu.Lock()
			defer e.mu.Unlock()
			var sb strings.Builder
			for _, k := range veKinds {
				fmt.Fprintf(&sb, "%s: flag=%v begun=%d gated=%d ended=%d; ", k, f.of(k), e.begun[k], e.gated[k], e.ended[k])
			}
			return fmt.Errorf("running flags and parked jobs do not agree after 60s: %s\nblocked goroutines of the service:\n%s", sb.String(), veBlockedGoroutines())
		}
		select {
		case <-e.changed:
		case <-time.After(20 * time.Millisecond):
		}
	}
}

// waitIdle waits (free running mode) until no background job is flagged as running.
func (e *veEngine) waitIdle(max time.Duration) error {
	deadline := time.Now().Add(max)
	for {
		f, err := e.flags()
		if err != nil {
			return err
		}
		if !f.imp && !f.tag && !f.merge && !f.conv {
			return nil
		}
		if time.Now().After(deadline) {
			return fmt.Errorf("background work did not settle within %v: import=%v tag=%v merge=%v convert=%v\nblocked goroutines of the service:\n%s", max, f.imp, f.tag, f.merge, f.conv, veBlockedGoroutines())
		}
		select {
		case <-e.changed:
		case <-time.After(2 * time.Millisecond):
		}
	}
}

// deliver opens the gate of the oldest parked job of the kind and waits until its completion closure ran.
func (e *veEngine) deliver(kind string) (bool, error) {
	e.mu.Lock()
	var g *veGate
	for i, p := range e.parked {
		if p.kind == kind && p.stage == "gate" {
			g = p
			e.parked = append(e.parked[:i], e.parked[i+1:]...)
			break
		}
	}
	before := e.ended[kind]
	e.mu.Unlock()
	if g == nil {
		return false, nil
	}
	close(g.release)
	deadline := time.Now().Add(60 * time.Second)
	for {
		e.mu.Lock()
		done := e.ended[kind] > before
		e.mu.Unlock()
		if done {
			break
		}
		if time.Now().After(deadline) {
			return true, fmt.Errorf("completion of the %s job did not run within 60s after its gate was opened", kind)
		}
		select {
		case <-e.changed:
		case <-time.After(20 * time.Millisecond):
		}
	}
	e.mu.Lock()
	e.deliveries++
	e.mu.Unlock()
	return true, e.sync()
}

// parkedKinds lists the jobs whose completion can be delivered (parked at their gate).
func (e *veEngine) parkedKinds() []string {
	e.mu.Lock()
	defer e.mu.Unlock()
	var ks []string
	for _, g := range e.parked {
		if g.stage == "gate" {
			ks = append(ks, g.kind)
		}
	}
	return ks
}

// heldKinds lists the jobs held before their body ran.
func (e *veEngine) heldKinds() []string {
	e.mu.Lock()
	defer e.mu.Unlock()
	var ks []string
	for _, g := range e.parked {
		if g.stage == "begin" {
			ks = append(ks, g.kind)
		}
	}
	return ks
}

// start lets a job held at begin run its body; it then parks at its gate.
func (e *veEngine) start(kind string) (bool, error) {
	e.mu.Lock()
	var g *veGate
	for i, p := range e.parked {
		if p.kind == kind && p.stage == "begin" {
			g = p
			e.parked = append(e.parked[:i], e.parked[i+1:]...)
			break
		}
	}
	e.mu.Unlock()
	if g == nil {
		return false, nil
	}
	close(g.release)
	return true, e.sync()
}

// settle delivers parked jobs in the order chosen by pick until nothing is
// parked and no flag is set, or the bound is exceeded.
func (e *veEngine) settle(bound int, pick func(kinds []string) int) (int, error) {
	n := 0
	for {
		if hk := e.heldKinds(); len(hk) != 0 {
			if _, err := e.start(hk[0]); err != nil {
				return n, err
			}
			continue
		}
		ks := e.parkedKinds()
		if len(ks) == 0 {
			f, err := e.flags()
			if err != nil {
				return n, err
			}
			if !f.imp && !f.tag && !f.merge && !f.conv {
				return n, nil
			}
			if err := e.sync(); err != nil {
				return n, err
			}
			continue
		}
		if n >= bound {
			return n, fmt.Errorf("no quiescence after %d deliveries (still parked: %v)", n, ks)
		}
		i := 0
		if pick != nil {
			i = pick(ks)
		}
		if _, err := e.deliver(ks[i]); err != nil {
			return n, err
		}
		n++
	}
}

// close settles nothing: it opens all gates (auto mode), waits for the flags to clear and closes the manager.
func (e *veEngine) close() {
	e.mu.Lock()
	if e.closed {
		e.mu.Unlock()
		return
	}
	e.closed = true
	e.auto = true
	parked := e.parked
	e.parked = nil
	e.mu.Unlock()
	for _, g := range parked {
		close(g.release)
	}
	deadline := time.Now().Add(30 * time.Second)
	for time.Now().Before(deadline) {
		f, err := e.flags()
		if err != nil {
			break
		}
		if !f.imp && !f.tag && !f.merge && !f.conv {
			break
		}
		time.Sleep(5 * time.Millisecond)
	}
	done := make(chan struct{})
	go func() { e.mgr.Close(); close(done) }()
	select {
	case <-done:
	case <-time.After(30 * time.Second):
	}
	veCurrentMu.Lock()
	if veCurrent == e {
		veCurrent = nil
	}
	veCurrentMu.Unlock()
	veReapConverters(e.dirs.converter)
}

// veReapConverters ends the converter processes of a closed manager. Manager.Close only closes the cache
// files: the processes stay alive (or, once they exit, stay zombies because the goroutine that would wait
// for them sleeps on a channel nobody closes any more), which adds up to thousands of processes in a
// long campaign. Only children of this process whose executable lies in the given converter directory are touched.
func veReapConverters(convDir string) {
	self := os.Getpid()
	tasks, _ := os.ReadDir(fmt.Sprintf("/proc/%d/task", self))
	seen := map[int]bool{}
	for _, tk := range tasks {
		b, err := os.ReadFile(fmt.Sprintf("/proc/%d/task/%s/children", self, tk.Name()))
		if err != nil {
			continue
		}
		for _, f := range strings.Fields(string(b)) {
			pid, err := strconv.Atoi(f)
			if err != nil || seen[pid] {
				continue
			}
			seen[pid] = true
			exe, err := os.Readlink(fmt.Sprintf("/proc/%d/exe", pid))
			if err != nil {
				// a zombie has no exe link any more: identify it by its name and its parent
				st, _ := os.ReadFile(fmt.Sprintf("/proc/%d/stat", pid))
				i, j := bytes.IndexByte(st, '('), bytes.LastIndexByte(st, ')')
				if i < 0 || j < i || j+2 >= len(st) || st[j+2] != 'Z' {
					continue
				}
				if _, err := os.Stat(filepath.Join(convDir, string(st[i+1:j]))); err != nil {
					continue
				}
			} else if !strings.HasPrefix(exe, strings.TrimSuffix(convDir, "/")+"/") {
				continue
			}
			_ = syscall.Kill(pid, syscall.SIGKILL)
			var ws syscall.WaitStatus
			_, _ = syscall.Wait4(pid, &ws, 0, nil)
		}
	}
}

// ---------------------------------------------------------------------------------------------
// traffic: UDP flows cut into capture files

type vePacket struct {
	Flow    int
	Dir     int // 0 client->server
	Off     time.Duration
	Payload string
}

type veFlow struct {
	Client, Server string // ip
	CPort, SPort   uint16
}

type veTraffic struct {
	Base     time.Time
	Flows    []veFlow
	Packets  []vePacket // sorted by Off, strictly increasing
	Cuts     []int      // capture i holds Packets[Cuts[i]:Cuts[i+1]]
	Written  map[int]string
	Imported map[int]bool
	Fat      bool // one flow carries more data than a pipe holds
	// datagrams written as IPv4 fragments so far
	Fragmented int
}

func (tr *veTraffic) captures() int { return len(tr.Cuts) - 1 }

func (tr *veTraffic) brief() map[string]any {
	pk := []string{}
	for _, p := range tr.Packets {
		pl := p.Payload
		if len(pl) > 24 {
			pl = fmt.Sprintf("%s..(%d bytes)..%s", pl[:4], len(pl), pl[len(pl)-3:])
		}
		pk = append(pk, fmt.Sprintf("f%d/%d+%s:%q", p.Flow, p.Dir, p.Off, pl))
	}
	fl := []string{}
	for _, f := range tr.Flows {
		fl = append(fl, fmt.Sprintf("%s:%d>%s:%d", f.Client, f.CPort, f.Server, f.SPort))
	}
	return map[string]any{"flows": fl, "packets": pk, "cuts": tr.Cuts}
}

func veSerializeUDP(f veFlow, dir int, payload string) ([]byte, layers.LinkType) {
	src, dst, sp, dp := f.Client, f.Server, f.CPort, f.SPort
	if dir == 1 {
		src, dst, sp, dp = dst, src, dp, sp
	}
	udp := layers.UDP{SrcPort: layers.UDPPort(sp), DstPort: layers.UDPPort(dp)}
	opts := gopacket.SerializeOptions{ComputeChecksums: true, FixLengths: true}
	buf := gopacket.NewSerializeBuffer()
	ip := layers.IPv4{Version: 4, TTL: 64, SrcIP: parseIP4(src), DstIP: parseIP4(dst), Protocol: layers.IPProtocolUDP}
	if err := udp.SetNetworkLayerForChecksum(&ip); err != nil {
		panic(err)
	}
	if err := gopacket.SerializeLayers(buf, opts, &ip, &udp, gopacket.Payload([]byte(payload))); err != nil {
		panic(err)
	}
	return append([]byte{}, buf.Bytes()...), layers.LinkTypeIPv4
}

func parseIP4(s string) []byte {
	var a, b, c, d int
	fmt.Sscanf(s, "%d.%d.%d.%d", &a, &b, &c, &d)
	return []byte{byte(a), byte(b), byte(c), byte(d)}
}

// writeCapture writes capture i into the pcap directory (only at the step at which it "arrives").
func (tr *veTraffic) writeCapture(d veDirs, i int) (string, error) {
	if n, ok := tr.Written[i]; ok {
		return n, nil
	}
	name := fmt.Sprintf("cap%02d.pcap", i)
	f, err := os.Create(filepath.Join(d.pcap, name))
	if err != nil {
		return "", err
	}
	w := pcapgo.NewWriter(f)
	if err := w.WriteFileHeader(65536, layers.LinkTypeIPv4); err != nil {
		f.Close()
		return "", err
	}
	for k, p := range tr.Packets[tr.Cuts[i]:tr.Cuts[i+1]] {
		data, _ := veSerializeUDP(tr.Flows[p.Flow], p.Dir, p.Payload)
		records := [][]byte{data}
		// every third large datagram arrives as two IPv4 fragments (every sixth with the second one first)
		if gi := tr.Cuts[i] + k; len(p.Payload) >= 64 && gi%3 == 0 {
			records = veFragment(data, uint16(gi+1), 8*(3+gi%40), gi%6 == 0)
			tr.Fragmented++
		}
		for _, rec := range records {
			ci := gopacket.CaptureInfo{Timestamp: tr.Base.Add(p.Off), CaptureLength: len(rec), Length: len(rec)}
			if err := w.WritePacket(ci, rec); err != nil {
				f.Close()
				return "", err
			}
		}
	}
	if err := f.Close(); err != nil {
		return "", err
	}
	if tr.Written == nil {
		tr.Written = map[int]string{}
	}
	tr.Written[i] = name
	return name, nil
}

// veFragment cuts an IPv4 datagram (header without options) into two fragments at the given offset of its payload.
func veFragment(dgram []byte, id uint16, cut int, reverse bool) [][]byte {
	hdr, body := dgram[:20], dgram[20:]
	if cut%8 != 0 || cut <= 0 || cut >= len(body) {
		return [][]byte{dgram}
	}
	var out [][]byte
	for _, part := range [][2]int{{0, cut}, {cut, len(body)}} {
		fb := append(append([]byte{}, hdr...), body[part[0]:part[1]]...)
		fb[2], fb[3] = byte(len(fb)>>8), byte(len(fb))
		fb[4], fb[5] = byte(id>>8), byte(id)
		fo := uint16(part[0] / 8)
		if part[1] != len(body) {
			fo |= 0x2000
		}
		fb[6], fb[7] = byte(fo>>8), byte(fo)
		fb[10], fb[11] = 0, 0
		sum := uint32(0)
		for j := 0; j < 20; j += 2 {
			sum += uint32(fb[j])<<8 | uint32(fb[j+1])
		}
		for sum>>16 != 0 {
			sum = sum&0xffff + sum>>16
		}
		fb[10], fb[11] = byte(^uint16(sum)>>8), byte(^uint16(sum))
		out = append(out, fb)
	}
	if reverse {
		out[0], out[1] = out[1], out[0]
	}
	return out
}

// ---------------------------------------------------------------------------------------------
// ground truth

// veVisible reads the visible streams (newest version per id) through the given readers.
func veVisible(readers []*index.Reader) (map[uint64]*index.Stream, error) {
	out := map[uint64]*index.Stream{}
	for i := len(readers) - 1; i >= 0; i-- {
		r := readers[i]
		for id := range r.StreamIDs() {
			if _, ok := out[id]; ok {
				continue
			}
			s, err := r.StreamByID(id)
			if err != nil {
				return nil, err
			}
			if s == nil {
				return nil, fmt.Errorf("stream %d listed but not found in %s", id, r.Filename())
			}
			out[id] = s
		}
	}
	return out, nil
}

// veConvFails: harness/convbin answers a stream with "x5" in its payload with a line that is no chunk and
// dies when it reads a chunk with "x7" in it.
func veConvFails(data []index.Data) bool {
	for _, d := range data {
		if bytes.Contains(d.Content, []byte("x5")) || bytes.Contains(d.Content, []byte("x7")) {
			return true
		}
	}
	return false
}

// veConvExpected is the converter function of harness/convbin applied to the stream's current chunks.
func veConvExpected(name string, data []index.Data) []vq.Run {
	var out []index.Data
	for _, d := range data {
		out = append(out, index.Data{Direction: d.Direction, Content: []byte(name + ":" + strings.ToUpper(string(d.Content)))})
	}
	return vidx.DataToRuns(out)
}

type veTagDef struct {
	name string
	def  string
	cond query.ConditionsSet
	ref  time.Time
	refs []string
}

// veTruth evaluates every tag definition on every visible stream from scratch.
// convData(name, id) returns the cached converter output of a stream (nil, false if none).
func veTruth(streams map[uint64]*index.Stream, tags map[string]string, convNames []string, convData func(name string, id uint64) ([]vq.Run, bool)) (map[string]map[uint64]bool, map[uint64]*vq.Stream, error) {
	defs := map[string]*veTagDef{}
	for n, d := range tags {
		q, err := query.Parse(d)
		if err != nil {
			return nil, nil, fmt.Errorf("tag %s: definition %q does not parse: %v", n, d, err)
		}
		f := q.Conditions.Features()
		defs[n] = &veTagDef{name: n, def: d, cond: q.Conditions, ref: q.ReferenceTime, refs: append(append([]string{}, f.MainTags...), f.SubQueryTags...)}
	}
	// dependency order
	var order []string
	done := map[string]bool{}
	for len(order) < len(defs) {
		progress := false
		names := make([]string, 0, len(defs))
		for n := range defs {
			names = append(names, n)
		}
		sort.Strings(names)
	next:
		for _, n := range names {
			if done[n] {
				continue
			}
			for _, r := range defs[n].refs {
				if _, ok := defs[r]; ok && !done[r] {
					continue next
				}
			}
			done[n] = true
			order = append(order, n)
			progress = true
		}
		if !progress {
			return nil, nil, fmt.Errorf("tag definitions contain a cycle")
		}
	}
	vs := map[uint64]*vq.Stream{}
	for id, s := range streams {
		v, err := vidx.ToVQ(s)
		if err != nil {
			return nil, nil, fmt.Errorf("stream %d: %v", id, err)
		}
		for _, cn := range convNames {
			if runs, ok := convData(cn, id); ok {
				v.Conv[cn] = runs
			}
		}
		vs[id] = v
	}
	truth := map[string]map[uint64]bool{}
	for _, n := range order {
		d := defs[n]
		truth[n] = map[uint64]bool{}
		var all []*vq.Stream
		if vq.HasSubQueries(d.cond) {
			for _, id := range vidx.SortedIDs(vs) {
				all = append(all, vs[id])
			}
		}
		for id, v := range vs {
			var ok bool
			var err error
			if all != nil {
				ok, err = vq.EvalNFSub(d.cond, v, all, vq.Env{Ref: d.ref})
			} else {
				ok, err = vq.EvalNF(d.cond, v, vq.Env{Ref: d.ref})
			}
			if err != nil {
				return nil, nil, fmt.Errorf("tag %s on stream %d: %v", n, id, err)
			}
			truth[n][id] = ok
			v.Tags[n] = vq.TagState{Matches: ok}
		}
	}
	return truth, vs, nil
}

// veConvData reads the cached output of a converter for a stream as direction runs.
func (e *veEngine) convData(name string, id uint64) ([]vq.Run, bool) {
	c, ok := e.mgr.converters[name]
	if !ok {
		return nil, false
	}
	bufs, sizes, _, _, cached, err := c.DataForSearch(id)
	if err != nil || !cached {
		return nil, false
	}
	var runs []vq.Run
	for i := 1; i < len(sizes); i++ {
		for dir := 0; dir < 2; dir++ {
			if n := sizes[i][dir] - sizes[i-1][dir]; n > 0 {
				runs = append(runs, vq.Run{Dir: dir, Data: append([]byte{}, bufs[dir][sizes[i-1][dir]:sizes[i][dir]]...)})
			}
		}
	}
	return runs, true
}

// veSnapshotState is what the invariants read inside the service loop.
type veState struct {
	nextStreamID uint64
	indexes      []*index.Reader
	tags         map[string]veTagState
	convNames    []string
	toConvert    map[string][]uint
	used         map[*index.Reader]uint
}

type veTagState struct {
	def        string
	color      string
	matches    map[uint]bool
	uncertain  map[uint]bool
	converters []string
	referenced bool
	refBy      []string
}

func veBits(bm interface{ Next(*uint) bool }) map[uint]bool {
	out := map[uint]bool{}
	for i := uint(0); bm.Next(&i); i++ {
		out[i] = true
	}
	return out
}

// readState must be called inside the service loop.
func (e *veEngine) readState() *veState {
	m := e.mgr
	st := &veState{nextStreamID: m.nextStreamID, indexes: append([]*index.Reader{}, m.indexes...), tags: map[string]veTagState{}, toConvert: map[string][]uint{}, used: map[*index.Reader]uint{}}
	for n, t := range m.tags {
		ts := veTagState{def: t.definition, color: t.color, matches: veBits(t.Matches), uncertain: veBits(t.Uncertain), converters: t.converterNames(), referenced: len(t.referencedBy) != 0}
		for r := range t.referencedBy {
			ts.refBy = append(ts.refBy, r)
		}
		sort.Strings(ts.refBy)
		st.tags[n] = ts
	}
	for n := range m.converters {
		st.convNames = append(st.convNames, n)
	}
	sort.Strings(st.convNames)
	for n, bm := range m.streamsToConvert {
		for i := uint(0); bm.Next(&i); i++ {
			st.toConvert[n] = append(st.toConvert[n], i)
		}
	}
	for r, c := range m.usedIndexes {
		st.used[r] = c
	}
	return st
}

// veCheckTags is invariant I6: every decided (tag, stream) pair agrees with the
// definition evaluated on the stream's current data. Must run inside the loop.
func (e *veEngine) checkTagsInLoop(skipTag func(name, def string) bool) string {
	st := e.readState()
	streams, err := veVisible(st.indexes)
	if err != nil {
		return "reading the served index files failed: " + err.Error()
	}
	defs := map[string]string{}
	for n, t := range st.tags {
		defs[n] = t.def
	}
	truth, _, err := veTruth(streams, defs, st.convNames, e.convData)
	if err != nil {
		return "ground truth: " + err.Error()
	}
	names := make([]string, 0, len(st.tags))
	for n := range st.tags {
		names = append(names, n)
	}
	sort.Strings(names)
	for _, n := range names {
		t := st.tags[n]
		if skipTag != nil && skipTag(n, t.def) {
			continue
		}
		ids := make([]uint64, 0, len(streams))
		for id := range streams {
			ids = append(ids, id)
		}
		sort.Slice(ids, func(i, j int) bool { return ids[i] < ids[j] })
		for _, id := range ids {
			if t.uncertain[uint(id)] {
				continue
			}
			if got, want := t.matches[uint(id)], truth[n][id]; got != want {
				return fmt.Sprintf("tag %s (definition %q): stream %d is reported as decided with membership %v, but the definition evaluated on its current data gives %v", n, t.def, id, got, want)
			}
		}
		// a decided match for a stream that does not exist
		for id := range t.matches {
			if _, ok := streams[uint64(id)]; !ok && !t.uncertain[id] && uint64(id) < st.nextStreamID {
				return fmt.Sprintf("tag %s: decided match for stream %d which is not visible", n, id)
			}
		}
	}
	return ""
}

// ---------------------------------------------------------------------------------------------
// view helpers

type veViewAnswer struct {
	streams string
	search  []string
}

func veUseView(v *View, queries []string) (*veViewAnswer, error) {
	ctx := context.Background()
	var sb bytes.Buffer
	ids := []uint64{}
	seen := map[uint64]bool{}
	err := v.AllStreams(ctx, func(sc StreamContext) error {
		s := sc.Stream()
		if seen[s.ID()] {
			return fmt.Errorf("AllStreams visited stream %d twice", s.ID())
		}
		seen[s.ID()] = true
		ids = append(ids, s.ID())
		return nil
	})
	if err != nil {
		return nil, fmt.Errorf("AllStreams: %w", err)
	}
	sort.Slice(ids, func(i, j int) bool { return ids[i] < ids[j] })
	for _, id := range ids {
		sc, err := v.Stream(id)
		if err != nil {
			return nil, fmt.Errorf("Stream(%d): %w", id, err)
		}
		if sc.Stream() == nil {
			return nil, fmt.Errorf("Stream(%d) not found although AllStreams listed it", id)
		}
		o, err := vidx.ObserveStream(sc.Stream(), true)
		if err != nil {
			return nil, fmt.Errorf("stream %d: %w", id, err)
		}
		fmt.Fprintf(&sb, "%d %s:%d %s:%d %s %d %d %d/%d %q %q %v %v\n", o.ID, o.Client, o.CPort, o.Server, o.SPort, o.Protocol, o.FirstUS, o.LastUS, o.ClientBytes, o.ServerBytes, o.Payload[0], o.Payload[1], o.Runs, o.PacketRefs)
	}
	ans := &veViewAnswer{streams: sb.String()}
	for _, qs := range queries {
		q, err := query.Parse(qs)
		if err != nil {
			return nil, fmt.Errorf("query %q: %w", qs, err)
		}
		var res []string
		_, _, _, err = v.SearchStreams(ctx, q, func(sc StreamContext) error {
			res = append(res, fmt.Sprint(sc.Stream().ID()))
			return nil
		})
		if err != nil {
			return nil, fmt.Errorf("SearchStreams(%q): %w", qs, err)
		}
		ans.search = append(ans.search, strings.Join(res, ","))
	}
	return ans, nil
}

// veBlockedGoroutines lists the goroutines that are inside pkappa2 code outside the harness (what a job that never
// finishes, or a call that never returns, is waiting for): header and pkappa2 frames only, the whole stack for
// goroutines inside a system call; idle service loops and converter processes that wait for input are counted.
func veBlockedGoroutines() string {
	buf := make([]byte, 32<<20)
	buf = buf[:runtime.Stack(buf, true)]
	var out []string
	idleProc, idleLoop := 0, 0
	for _, g := range strings.Split(string(buf), "\n\n") {
		if strings.Contains(g, "veBlockedGoroutines") {
			continue
		}
		lines := strings.Split(g, "\n")
		keep := []string{lines[0]}
		full := strings.Contains(lines[0], "syscall")
		frames, own := 0, 0
		for i := 1; i+1 < len(lines); i += 2 {
			if strings.HasPrefix(lines[i], "created by") {
				continue
			}
			if strings.Contains(lines[i], "spq/pkappa2") {
				frames++
				if !strings.Contains(lines[i+1], "zz_verif") && !strings.Contains(lines[i], "internal/verif/") {
					own++
				}
				keep = append(keep, lines[i], lines[i+1])
			} else if full {
				keep = append(keep, lines[i], lines[i+1])
			}
		}
		if own == 0 {
			continue
		}
		if frames == 1 && strings.Contains(g, "converters.(*Process).run(") && strings.Contains(g, "process.go:168") {
			idleProc++
			continue
		}
		if frames == 1 && strings.Contains(g, "manager.New.func1") && strings.Contains(lines[0], "chan receive") {
			idleLoop++
			continue
		}
		if frames == 1 && (strings.Contains(g, "tagUpdateEventWorker") || strings.Contains(g, "pcapOverIPPacketHandler")) {
			continue
		}
		if len(out) < 40 {
			out = append(out, strings.Join(keep, "\n"))
		}
	}
	return fmt.Sprintf("%s\n(%d converter processes waiting for input, %d idle service loops)\nchild processes:\n%s", strings.Join(out, "\n--\n"), idleProc, idleLoop, veChildProcesses())
}

// veChildProcesses describes the child processes of the test process (the converter executables): state, what
// they wait in, their standard descriptors.
func veChildProcesses() string {
	self := os.Getpid()
	ents, _ := os.ReadDir("/proc")
	var out []string
	for _, e := range ents {
		pid, err := strconv.Atoi(e.Name())
		if err != nil {
			continue
		}
		st, err := os.ReadFile(fmt.Sprintf("/proc/%d/stat", pid))
		if err != nil {
			continue
		}
		// pid (comm) state ppid ...
		txt := string(st)
		r := strings.LastIndex(txt, ")")
		if r < 0 {
			continue
		}
		f := strings.Fields(txt[r+1:])
		if len(f) < 2 || f[1] != strconv.Itoa(self) {
			continue
		}
		wchan, _ := os.ReadFile(fmt.Sprintf("/proc/%d/wchan", pid))
		cmd, _ := os.ReadFile(fmt.Sprintf("/proc/%d/cmdline", pid))
		fds := []string{}
		for fd := 0; fd < 3; fd++ {
			l, _ := os.Readlink(fmt.Sprintf("/proc/%d/fd/%d", pid, fd))
			fds = append(fds, l)
		}
		out = append(out, fmt.Sprintf("pid %d state %s wchan %q cmd %q fds %v", pid, f[0], wchan, strings.ReplaceAll(string(cmd), "\x00", " "), fds))
		if len(out) >= 40 {
			break
		}
	}
	return strings.Join(out, "\n")
}
