package manager

// Hand-written reproducers of the findings of C06, C09 and C10 (regression
// tier for repaired ones, KNOWN-FINDING probes for open ones).

import (
	"bytes"
	"context"
	"fmt"
	"github.com/spq/pkappa2/internal/query"
	"net"
	"os"
	"path/filepath"
	"runtime"
	"strings"
	"sync"
	"testing"
	"time"

	"github.com/spq/pkappa2/internal/verif/vlib"
)

// vfScript is a gated engine over n UDP flows; flow i: client datagram payloads[i][0], then server datagram payloads[i][1] (if non-empty).
type vfScript struct {
	e    *veEngine
	base string
	tr   *veTraffic
	hist []string
}

func vfStart(payloads [][2]string, cuts []int, convs []string, auto bool) (*vfScript, error) {
	base, err := os.MkdirTemp("", "vf-")
	if err != nil {
		return nil, err
	}
	d, err := veMakeDirs(base)
	if err != nil {
		return nil, err
	}
	if err := veInstallConverters(d, convs); err != nil {
		return nil, err
	}
	tr := &veTraffic{Base: time.Date(2024, 1, 2, 13, 0, 0, 0, time.UTC)}
	off := time.Duration(0)
	for i, p := range payloads {
		tr.Flows = append(tr.Flows, veFlow{Client: "10.0.0.1", Server: "10.0.0.2", CPort: uint16(1000 + i), SPort: 80})
		off += time.Second
		tr.Packets = append(tr.Packets, vePacket{Flow: i, Dir: 0, Off: off, Payload: p[0]})
		if p[1] != "" {
			off += time.Second
			tr.Packets = append(tr.Packets, vePacket{Flow: i, Dir: 1, Off: off, Payload: p[1]})
		}
	}
	if cuts == nil {
		cuts = []int{0, len(tr.Packets)}
	}
	tr.Cuts = cuts
	e, err := veStart(d, auto)
	if err != nil {
		os.RemoveAll(base)
		return nil, err
	}
	s := &vfScript{e: e, base: base, tr: tr}
	if err := e.sync(); err != nil {
		s.close()
		return nil, err
	}
	return s, nil
}

func (s *vfScript) close() {
	s.e.close()
	os.RemoveAll(s.base)
}

func (s *vfScript) importCapture(i int) error {
	n, err := s.tr.writeCapture(s.e.dirs, i)
	if err != nil {
		return err
	}
	s.hist = append(s.hist, "import "+n)
	s.e.mgr.ImportPcaps([]string{n})
	return s.e.sync()
}

func (s *vfScript) call(desc string, f func(m *Manager) error) error {
	err, hung := c11Call(func() error { return f(s.e.mgr) })
	if hung {
		return fmt.Errorf("%s did not return within 15s", desc)
	}
	s.hist = append(s.hist, fmt.Sprintf("%s -> %v", desc, err))
	if err != nil {
		return fmt.Errorf("%s: %v", desc, err)
	}
	return s.e.sync()
}

func (s *vfScript) deliver(kind string) error {
	ok, err := s.e.deliver(kind)
	s.hist = append(s.hist, "deliver "+kind)
	if err != nil {
		return err
	}
	if !ok {
		return fmt.Errorf("no %s job is parked (history %v, parked %v)", kind, s.hist, s.e.parkedKinds())
	}
	return nil
}

func (s *vfScript) checkTags() string {
	msg := ""
	if err := s.e.inLoop(func() { msg = s.e.checkTagsInLoop(nil) }); err != nil {
		return err.Error()
	}
	return msg
}

func (s *vfScript) settle() error {
	_, err := s.e.settle(200, nil)
	s.hist = append(s.hist, "settle")
	return err
}

func c06FixedCase(name string) (string, any) {
	fail := func(s *vfScript, f string, a ...any) (string, any) {
		return fmt.Sprintf(f, a...), s.hist
	}
	switch name {
	case "F-C06-id-only-tags":
		s, err := vfStart([][2]string{{"aa", ""}, {"bb", ""}}, nil, nil, false)
		if err != nil {
			return "setup: " + err.Error(), nil
		}
		defer s.close()
		if err := s.call("AddTag tag/b id:1:", func(m *Manager) error { return m.AddTag("tag/b", "#fff", "id:1:") }); err != nil {
			return fail(s, "%v", err)
		}
		if err := s.importCapture(0); err != nil {
			return fail(s, "%v", err)
		}
		// the tag job started by AddTag (nothing to evaluate yet) may be parked
		for _, k := range []string{"tag", "import"} {
			if s.e.parkedCount(k) > 0 {
				if err := s.deliver(k); err != nil {
					return fail(s, "%v", err)
				}
			}
		}
		if msg := s.checkTags(); msg != "" {
			return fail(s, "%s", msg)
		}
		if err := s.settle(); err != nil {
			return fail(s, "%v", err)
		}
		if msg := s.checkTags(); msg != "" {
			return fail(s, "%s", msg)
		}
	case "F-C06-inherited-invalidation-lost":
		s, err := vfStart([][2]string{{"aa", ""}, {"bb", ""}, {"cc", ""}}, nil, nil, false)
		if err != nil {
			return "setup: " + err.Error(), nil
		}
		defer s.close()
		if err := s.importCapture(0); err != nil {
			return fail(s, "%v", err)
		}
		if err := s.deliver("import"); err != nil {
			return fail(s, "%v", err)
		}
		if err := s.settle(); err != nil {
			return fail(s, "%v", err)
		}
		if err := s.call("AddTag mark/m id:0,2", func(m *Manager) error { return m.AddTag("mark/m", "#fff", "id:0,2") }); err != nil {
			return fail(s, "%v", err)
		}
		if err := s.call("AddTag tag/a mark:m", func(m *Manager) error { return m.AddTag("tag/a", "#fff", "mark:m") }); err != nil {
			return fail(s, "%v", err)
		}
		if s.e.parkedCount("tag") != 1 {
			return fail(s, "expected the tagging job of tag/a to be parked, parked: %v", s.e.parkedKinds())
		}
		if err := s.call("markdel [2]", func(m *Manager) error { return m.UpdateTag("mark/m", UpdateTagOperationMarkDelStream([]uint64{2})) }); err != nil {
			return fail(s, "%v", err)
		}
		if err := s.deliver("tag"); err != nil {
			return fail(s, "%v", err)
		}
		if msg := s.checkTags(); msg != "" {
			return fail(s, "%s", msg)
		}
		if err := s.settle(); err != nil {
			return fail(s, "%v", err)
		}
		if msg := s.checkTags(); msg != "" {
			return fail(s, "%s", msg)
		}
	case "F-C06-converter-reset-stale":
		s, err := vfStart([][2]string{{"aa", "bb"}, {"cc", "dd"}}, nil, []string{"cva"}, false)
		if err != nil {
			return "setup: " + err.Error(), nil
		}
		defer s.close()
		steps := []func() error{
			func() error { return s.importCapture(0) },
			func() error { return s.deliver("import") },
			s.settle,
			func() error {
				return s.call("AddTag tag/a sport:80", func(m *Manager) error { return m.AddTag("tag/a", "#fff", "sport:80") })
			},
			s.settle,
			func() error {
				return s.call("attach cva to tag/a", func(m *Manager) error { return m.UpdateTag("tag/a", UpdateTagOperationSetConverter([]string{"cva"})) })
			},
			s.settle,
			func() error {
				return s.call("AddTag tag/b sdata.cva:BB", func(m *Manager) error { return m.AddTag("tag/b", "#fff", "sdata.cva:BB") })
			},
			s.settle,
		}
		for _, f := range steps {
			if err := f(); err != nil {
				return fail(s, "%v", err)
			}
		}
		if msg := s.checkTags(); msg != "" {
			return fail(s, "before the detach: %s", msg)
		}
		var matches int
		_ = s.e.inLoop(func() { matches = s.e.mgr.tags["tag/b"].Matches.OnesCount() })
		if matches == 0 {
			return fail(s, "setup problem: tag/b matches nothing although stream 0 has converter output cva:BB")
		}
		if err := s.call("detach cva from tag/a", func(m *Manager) error { return m.UpdateTag("tag/a", UpdateTagOperationSetConverter([]string{})) }); err != nil {
			return fail(s, "%v", err)
		}
		if err := s.settle(); err != nil {
			return fail(s, "%v", err)
		}
		if msg := s.checkTags(); msg != "" {
			return fail(s, "%s", msg)
		}
	case "F-C06-inlined-tag-reference-time":
		s, err := vfStart([][2]string{{"aa", ""}, {"bb", ""}}, nil, nil, false)
		if err != nil {
			return "setup: " + err.Error(), nil
		}
		defer s.close()
		if err := s.call("AddTag tag/a time window", func(m *Manager) error {
			// the first stream lies exactly on the lower bound: an error of the size of the wait below shows
			return m.AddTag("tag/a", "#fff", `time:"2024-01-02 130001:2024-01-02 130010"`)
		}); err != nil {
			return fail(s, "%v", err)
		}
		for s.e.parkedCount("tag") > 0 {
			if err := s.deliver("tag"); err != nil {
				return fail(s, "%v", err)
			}
		}
		// the wall clock must move on between the normalisation of the tag and its evaluation on demand
		time.Sleep(30 * time.Millisecond)
		if err := s.importCapture(0); err != nil {
			return fail(s, "%v", err)
		}
		if err := s.deliver("import"); err != nil {
			return fail(s, "%v", err)
		}
		// tag/a is pending for the new streams (its tagging job is parked); a view evaluates it on demand
		v := s.e.mgr.GetView()
		shown := map[uint64][]string{}
		err = v.AllStreams(context.Background(), func(sc StreamContext) error {
			tags, err := sc.AllTags()
			shown[sc.Stream().ID()] = tags
			return err
		}, PrefetchAllTags())
		v.Release()
		_ = s.e.inLoop(func() {})
		if err != nil {
			return fail(s, "AllStreams: %v", err)
		}
		for id := uint64(0); id < 2; id++ {
			if fmt.Sprint(shown[id]) != "[tag/a]" {
				return fail(s, "stream %d (inside the time window of tag/a) is shown with tags %v while the tag is pending", id, shown[id])
			}
		}
	case "F-C06-negated-pending-subquery-tag", "F-C06-nested-subquery-tags":
		// three flows to the same server port; a tag "some stream with client port 1000 has my server port" holds for all
		s, err := vfStart([][2]string{{"aa", "bb"}, {"cc", "dd"}, {"ee", "ff"}}, nil, nil, false)
		if err != nil {
			return "setup: " + err.Error(), nil
		}
		defer s.close()
		if err := s.importCapture(0); err != nil {
			return fail(s, "%v", err)
		}
		if err := s.settle(); err != nil {
			return fail(s, "%v", err)
		}
		if err := s.call("AddTag tag/a with a sub-query", func(m *Manager) error {
			return m.AddTag("tag/a", "#fff", "@qa:cport:1000 sport:@qa:sport@")
		}); err != nil {
			return fail(s, "%v", err)
		}
		qs, want := "-tag:a", "[]"
		if name == "F-C06-nested-subquery-tags" {
			if err := s.call("AddTag tag/d filtering on tag/a inside a sub-query", func(m *Manager) error {
				return m.AddTag("tag/d", "#fff", "@qd:tag:a sport:@qd:sport@")
			}); err != nil {
				return fail(s, "%v", err)
			}
			qs, want = "tag:d", "[0 1 2]"
		}
		// the tagging jobs are parked: the tags are pending and evaluated on demand
		q, err := query.Parse(qs + " sort:id")
		if err != nil {
			return fail(s, "%v", err)
		}
		v := s.e.mgr.GetView()
		got := []uint64{}
		_, _, _, err = v.SearchStreams(context.Background(), q, func(sc StreamContext) error {
			got = append(got, sc.Stream().ID())
			return nil
		})
		v.Release()
		_ = s.e.inLoop(func() {})
		if err != nil {
			return fail(s, "search %q: %v", qs, err)
		}
		if fmt.Sprint(got) != want {
			return fail(s, "search %q while the tags are pending returned %v, the definitions give %s", qs, got, want)
		}
	case "F-C06-recreated-tag-old-job-result":
		// a tagging job is in flight for tag/a; the tag is taken away (deleted, renamed, or given another definition)
		// and a tag of the same name and definition appears while the tag it refers to has changed
		for _, variant := range []string{"delete", "redefine", "rename"} {
			s, err := vfStart([][2]string{{"aa", ""}, {"bb", ""}, {"cc", ""}}, nil, nil, false)
			if err != nil {
				return "setup: " + err.Error(), nil
			}
			msg, hist := func() (string, any) {
				defer s.close()
				s.hist = append(s.hist, "variant "+variant)
				add := func(name, def string) func() error {
					return func() error {
						return s.call("AddTag "+name+" "+def, func(m *Manager) error { return m.AddTag(name, "#fff", def) })
					}
				}
				del := func(name string) func() error {
					return func() error { return s.call("DelTag "+name, func(m *Manager) error { return m.DelTag(name) }) }
				}
				steps := []func() error{
					func() error { return s.importCapture(0) },
					func() error { return s.deliver("import") },
					s.settle,
					add("mark/m", "id:1"),
					add("tag/a", "mark:m"),
				}
				for _, f := range steps {
					if err := f(); err != nil {
						return fail(s, "%v", err)
					}
				}
				if s.e.parkedCount("tag") != 1 {
					return fail(s, "expected the tagging job of tag/a to be parked, parked: %v", s.e.parkedKinds())
				}
				switch variant {
				case "delete":
					steps = []func() error{del("tag/a"), del("mark/m"), add("mark/m", "id:0"), add("tag/a", "mark:m")}
				case "redefine":
					steps = []func() error{
						func() error {
							return s.call("UpdateTag tag/a query=id:2", func(m *Manager) error { return m.UpdateTag("tag/a", UpdateTagOperationUpdateQuery("id:2")) })
						},
						del("mark/m"), add("mark/m", "id:0"),
						func() error {
							return s.call("UpdateTag tag/a query=mark:m", func(m *Manager) error { return m.UpdateTag("tag/a", UpdateTagOperationUpdateQuery("mark:m")) })
						},
					}
				case "rename":
					steps = []func() error{
						func() error {
							return s.call("UpdateTag tag/a name=tag/x", func(m *Manager) error { return m.UpdateTag("tag/a", UpdateTagOperationUpdateName("tag/x")) })
						},
						del("tag/x"), del("mark/m"), add("mark/m", "id:0"), add("tag/a", "mark:m"),
					}
				}
				for _, f := range steps {
					if err := f(); err != nil {
						return fail(s, "%v", err)
					}
				}
				if err := s.deliver("tag"); err != nil {
					return fail(s, "%v", err)
				}
				if msg := s.checkTags(); msg != "" {
					return fail(s, "%s", msg)
				}
				if err := s.settle(); err != nil {
					return fail(s, "%v", err)
				}
				if msg := s.checkTags(); msg != "" {
					return fail(s, "%s", msg)
				}
				return "", nil
			}()
			if msg != "" {
				return msg, hist
			}
		}
	default:
		return "unknown fixed case", name
	}
	return "", nil
}

func TestVerifC06Fixed(t *testing.T) {
	vlib.Fixed(t, "C06", []string{"F-C06-id-only-tags", "F-C06-inherited-invalidation-lost", "F-C06-converter-reset-stale", "F-C06-inlined-tag-reference-time",
		"F-C06-negated-pending-subquery-tag", "F-C06-nested-subquery-tags", "F-C06-recreated-tag-old-job-result"}, c06FixedCase)
}

func c09FixedCase(name string) (string, any) {
	switch name {
	case "F-C09-streamids-off-by-one", "F-C09-convert-missing-stream-hang":
		e, cleanup, err := veQuickManager(1, []string{"cva"})
		if err != nil {
			return "setup: " + err.Error(), nil
		}
		defer cleanup()
		if err := e.mgr.AddTag("mark/n", "#fff", "id:0,1"); err != nil {
			return "AddTag: " + err.Error(), nil
		}
		tags, _, err := c11State(e)
		if err != nil {
			return err.Error(), nil
		}
		if name == "F-C09-streamids-off-by-one" {
			if got := fmt.Sprint(sortedKeys(tags["mark/n"].matches)); got != "[0]" {
				return "mark/n=id:0,1 on a service holding only stream 0 records the matches " + got, nil
			}
			return "", nil
		}
		// force the shape even when the off-by-one is repaired: queue a non-existing stream for conversion
		if err := e.mgr.UpdateTag("mark/n", UpdateTagOperationSetConverter([]string{"cva"})); err != nil {
			return "attach: " + err.Error(), nil
		}
		_ = e.inLoop(func() {
			e.mgr.streamsToConvert["cva"].Set(5)
			e.mgr.startConverterJobIfNeeded()
		})
		if err := e.waitIdle(20 * time.Second); err != nil {
			return "after queueing a stream id that is in no index: " + err.Error(), nil
		}
	default:
		return "unknown fixed case", name
	}
	return "", nil
}

func TestVerifC09Fixed(t *testing.T) {
	vlib.Fixed(t, "C09", []string{"F-C09-streamids-off-by-one", "F-C09-convert-missing-stream-hang"}, c09FixedCase)
}

// c10DescriptorProbe: PCAP-over-IP connections come and go while other goroutines open a file, hold it for a
// moment and read it. Nobody but the goroutine that opened a file closes it: a read that fails with "bad file
// descriptor" means somebody closed a descriptor number that was not theirs any more.
func c10DescriptorProbe() (string, any) {
	s, err := vfStart([][2]string{{"aa", ""}}, nil, nil, true)
	if err != nil {
		return "setup: " + err.Error(), nil
	}
	defer s.close()
	ln, err := net.Listen("tcp", "127.0.0.1:0")
	if err != nil {
		return "setup: " + err.Error(), nil
	}
	defer ln.Close()
	conns := 0
	var cmu sync.Mutex
	go func() {
		for {
			conn, err := ln.Accept()
			if err != nil {
				return
			}
			cmu.Lock()
			conns++
			cmu.Unlock()
			// a capture header and nothing else, then the peer hangs up
			_, _ = conn.Write([]byte{0xd4, 0xc3, 0xb2, 0xa1, 2, 0, 4, 0, 0, 0, 0, 0, 0, 0, 0, 0, 0, 0, 1, 0, 228, 0, 0, 0})
			conn.Close()
		}
	}()
	probe := filepath.Join(s.base, "probe.bin")
	if err := os.WriteFile(probe, bytes.Repeat([]byte{7}, 4096), 0o644); err != nil {
		return "setup: " + err.Error(), nil
	}
	stop := make(chan struct{})
	var wg sync.WaitGroup
	var fmu sync.Mutex
	failure := ""
	for g := 0; g < 12; g++ {
		wg.Add(1)
		go func() {
			defer wg.Done()
			buf := make([]byte, 64)
			for {
				select {
				case <-stop:
					return
				default:
				}
				f, err := os.Open(probe)
				if err != nil {
					continue
				}
				for i := 0; i < 6; i++ {
					if _, err := f.ReadAt(buf, int64(i)*64); err != nil {
						fmu.Lock()
						if failure == "" {
							failure = fmt.Sprintf("reading a file this goroutine had just opened and not closed failed: %v", err)
						}
						fmu.Unlock()
						break
					}
					runtime.Gosched()
				}
				f.Close()
			}
		}()
	}
	addr := ln.Addr().String()
	deadline := time.Now().Add(12 * time.Second)
	for round := 0; time.Now().Before(deadline); round++ {
		// the endpoint reconnects one second after its peer hung up: adding and removing it makes it connect at once
		if err := s.e.mgr.AddPcapOverIPEndpoint(addr); err != nil {
			close(stop)
			wg.Wait()
			return "AddPcapOverIPEndpoint: " + err.Error(), nil
		}
		time.Sleep(3 * time.Millisecond)
		_ = s.e.mgr.DelPcapOverIPEndpoint(addr)
		fmu.Lock()
		failed := failure != ""
		fmu.Unlock()
		if failed {
			break
		}
	}
	close(stop)
	wg.Wait()
	cmu.Lock()
	n := conns
	cmu.Unlock()
	if failure != "" {
		return fmt.Sprintf("after %d PCAP-over-IP connections: %s", n, failure), nil
	}
	if n < 50 {
		// a machine too busy to get the probe going says nothing about the descriptor
		fmt.Fprintf(os.Stderr, "c10DescriptorProbe: only %d PCAP-over-IP connections in 12s, probe not conclusive\n", n)
	}
	return "", nil
}

func c10FixedCase(name string) (string, any) {
	switch name {
	case "F-C10-pcap-over-ip-descriptor-closed-twice":
		return c10DescriptorProbe()
	case "F-C10-empty-view-refetch":
		s, err := vfStart([][2]string{{"aa", ""}, {"bb", ""}}, nil, nil, false)
		if err != nil {
			return "setup: " + err.Error(), nil
		}
		defer s.close()
		v := s.e.mgr.GetView()
		if _, err := v.ReferenceTime(); err != nil {
			return err.Error(), nil
		}
		first, err := veUseView(&v, []string{"sport:80"})
		if err != nil {
			return err.Error(), nil
		}
		if err := s.importCapture(0); err != nil {
			return err.Error(), s.hist
		}
		if err := s.deliver("import"); err != nil {
			return err.Error(), s.hist
		}
		second, err := veUseView(&v, []string{"sport:80"})
		if err != nil {
			return err.Error(), s.hist
		}
		v.Release()
		_ = s.e.inLoop(func() {})
		if first.streams != second.streams || strings.Join(first.search, "|") != strings.Join(second.search, "|") {
			return fmt.Sprintf("a view opened on the empty service showed %q/%v first and %q/%v after an import was delivered", first.streams, first.search, second.streams, second.search), s.hist
		}
	default:
		return "unknown fixed case", name
	}
	return "", nil
}

func TestVerifC10Fixed(t *testing.T) {
	vlib.Fixed(t, "C10", []string{"F-C10-empty-view-refetch", "F-C10-pcap-over-ip-descriptor-closed-twice"}, c10FixedCase)
}

func c16FixedCase(name string) (string, any) {
	switch name {
	case "F-C16-detached-converter-runs-again":
		// two captures: the second extends stream 0. A converter job is held before its body, the converter is
		// detached, the job then converts anyway (its list was taken at its start); the later import must not
		// make the detached converter run again.
		s, err := vfStart([][2]string{{"aa", "bb"}, {"cc", ""}, {"", ""}}, []int{0, 3, 4}, []string{"cva"}, false)
		if err != nil {
			return "setup: " + err.Error(), nil
		}
		defer s.close()
		s.tr.Packets[3] = vePacket{Flow: 0, Dir: 0, Off: s.tr.Packets[2].Off + time.Second, Payload: "more"}
		s.tr.Flows = s.tr.Flows[:2]
		logPath := filepath.Join(s.base, "conversions.log")
		os.Setenv("VERIF_CONV_LOG", logPath)
		logLen := func() int {
			b, _ := os.ReadFile(logPath)
			return strings.Count(string(b), "\n")
		}
		fail := func(f string, a ...any) (string, any) { return fmt.Sprintf(f, a...), s.hist }
		steps := []func() error{
			func() error { return s.importCapture(0) },
			s.settle,
			func() error {
				return s.call("AddTag tag/a sport:80", func(m *Manager) error { return m.AddTag("tag/a", "#fff", "sport:80") })
			},
			s.settle,
			func() error {
				s.e.mu.Lock()
				s.e.holdNext["convert"] = true
				s.e.mu.Unlock()
				return nil
			},
			func() error {
				return s.call("attach cva to tag/a", func(m *Manager) error { return m.UpdateTag("tag/a", UpdateTagOperationSetConverter([]string{"cva"})) })
			},
			func() error {
				return s.call("detach cva from tag/a", func(m *Manager) error { return m.UpdateTag("tag/a", UpdateTagOperationSetConverter([]string{})) })
			},
			s.settle,
		}
		for _, f := range steps {
			if err := f(); err != nil {
				return fail("%v", err)
			}
		}
		before := logLen()
		if err := s.importCapture(1); err != nil {
			return fail("%v", err)
		}
		if err := s.settle(); err != nil {
			return fail("%v", err)
		}
		if after := logLen(); after != before {
			return fail("converter cva ran %d more times after it had been detached from every tag (import extending stream 0)", after-before)
		}
	default:
		return "unknown fixed case", name
	}
	return "", nil
}

func TestVerifC16Fixed(t *testing.T) {
	vlib.Fixed(t, "C16", []string{"F-C16-detached-converter-runs-again"}, c16FixedCase)
}

var _ = filepath.Join
