package manager

// C13 (merge fault campaign) — a merge that fails must not leave files in the
// index directory that the service does not serve. The service calls
// index.Merge(IndexDir, run) and, when it fails, keeps serving the inputs; the
// directory then has to hold exactly the inputs. The fault is an input file that
// got damaged on disk after it was opened (truncated at a generated offset).

import (
	"fmt"
	"os"
	"path/filepath"
	"sort"
	"strings"
	"testing"

	"github.com/spq/pkappa2/internal/index"
	"github.com/spq/pkappa2/internal/verif/vidx"
	"github.com/spq/pkappa2/internal/verif/vlib"
	"pgregory.net/rapid"
)

func c13FaultProp(rt *rapid.T, c *vlib.Case) {
	dir, err := os.MkdirTemp("", "c13f-")
	if err != nil {
		rt.Fatalf("harness: %v", err)
	}
	defer os.RemoveAll(dir)
	u := vidx.GenUniverse(rt)
	u.NoBig, u.NoIdle = true, true
	u.GenWindow(rt)
	nfiles := rapid.IntRange(2, 4).Draw(rt, "files")
	next := uint64(0)
	var readers []*index.Reader
	var names []string
	defer func() {
		for _, r := range readers {
			r.Close()
		}
	}()
	var brief []any
	for i := 0; i < nfiles; i++ {
		var recs []*vidx.SRec
		n := rapid.IntRange(1, 6).Draw(rt, "streams")
		ids := []uint64{}
		for j := 0; j < n; j++ {
			id := next
			if next > 0 && rapid.IntRange(0, 3).Draw(rt, "again") == 0 {
				id = uint64(rapid.IntRange(0, int(next)-1).Draw(rt, "oldid")) // a newer version of an existing stream
			} else {
				next++
			}
			dup := false
			for _, x := range ids {
				dup = dup || x == id
			}
			if dup {
				continue
			}
			ids = append(ids, id)
			recs = append(recs, u.GenStream(rt, id))
		}
		name := fmt.Sprintf("2024-01-0%d_000000.000.0.idx", i+1)
		r, err := vidx.BuildIndex(filepath.Join(dir, name), recs)
		if err != nil {
			rt.Fatalf("harness: writing input %d: %v", i, err)
		}
		readers = append(readers, r)
		names = append(names, name)
		brief = append(brief, map[string]any{"file": name, "ids": ids})
	}
	victim := rapid.IntRange(0, nfiles-1).Draw(rt, "damaged")
	st, err := os.Stat(filepath.Join(dir, names[victim]))
	if err != nil {
		rt.Fatalf("harness: %v", err)
	}
	// anywhere in the file (rapid's integer ranges favour small values: spread them)
	cut := st.Size() * int64(rapid.IntRange(0, 996).Draw(rt, "cutpermille")*373%997) / 997
	if rapid.IntRange(0, 4).Draw(rt, "cutsmall") == 0 {
		cut = int64(rapid.IntRange(0, 300).Draw(rt, "cut"))
	}
	if cut >= st.Size() {
		cut = st.Size() - 1
	}
	c.Render(func() any {
		return map[string]any{"inputs_oldest_first": brief, "damaged": names[victim], "truncated_to": cut, "size": st.Size()}
	})
	if err := os.Truncate(filepath.Join(dir, names[victim]), cut); err != nil {
		rt.Fatalf("harness: %v", err)
	}
	merged, mergeErr := index.Merge(dir, readers)
	for _, m := range merged {
		m.Close()
	}
	ents, _ := os.ReadDir(dir)
	var extra []string
	for _, en := range ents {
		known := false
		for _, n := range names {
			known = known || n == en.Name()
		}
		if !known {
			extra = append(extra, en.Name())
		}
	}
	sort.Strings(extra)
	c.LabelIf(mergeErr != nil, "merge-failed")
	c.LabelIf(mergeErr == nil, "merge-succeeded-despite-damage")
	c.LabelIf(cut < 200, "cut-in-header")
	if mergeErr != nil {
		if len(extra) != 0 {
			rt.Fatalf("the merge failed (%v) but left %v in the index directory next to its inputs %v", mergeErr, extra, names)
		}
		c.NonTrivial(fmt.Sprint(brief, victim, cut))
		return
	}
	if len(merged) == 0 {
		rt.Fatalf("the merge reported success but returned no file")
	}
	if len(extra) != len(merged) {
		rt.Fatalf("the merge returned %d files, the index directory holds %v next to the inputs", len(merged), extra)
	}
	_ = strings.Join
}

func TestVerifC13MergeFault(t *testing.T) {
	vlib.Check(t, "C13", c13FaultProp)
}
