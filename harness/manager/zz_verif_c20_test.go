package manager

// C20 — no data races on shared service state. The scenario runs free (gates
// open) under the Go race detector with concurrent API callers, pollers and an
// event listener; the detector's reports are the oracle (parsed by the driver,
// bin/conf/C20.py). DESIGN.md §5 C20.

import (
	"encoding/binary"
	"encoding/json"
	"fmt"
	"net"
	"os"
	"path/filepath"
	"sort"
	"strings"
	"sync"
	"testing"
	"time"

	"github.com/gopacket/gopacket"
	"github.com/gopacket/gopacket/layers"
	"github.com/gopacket/gopacket/pcapgo"
	"github.com/spq/pkappa2/internal/verif/vlib"
	"pgregory.net/rapid"
)

// c20Feeder is a PCAP-over-IP peer: every connection gets a pcap stream of a few UDP datagrams of its own flow.
func c20Feeder(stop chan struct{}, wg *sync.WaitGroup) (string, func(), error) {
	ln, err := net.Listen("tcp", "127.0.0.1:0")
	if err != nil {
		return "", nil, err
	}
	wg.Add(1)
	go func() {
		defer wg.Done()
		for n := 0; ; n++ {
			conn, err := ln.Accept()
			if err != nil {
				return
			}
			wg.Add(1)
			go func(conn net.Conn, n int) {
				defer wg.Done()
				defer conn.Close()
				w := pcapgo.NewWriter(conn)
				if w.WriteFileHeader(65536, layers.LinkTypeIPv4) != nil {
					return
				}
				fl := veFlow{Client: "10.9.9.1", Server: "10.9.9.2", CPort: uint16(5000 + n%1000), SPort: 9}
				for i := 0; i < 6; i++ {
					data, _ := veSerializeUDP(fl, i%2, "feed")
					ci := gopacket.CaptureInfo{Timestamp: time.Date(2024, 1, 2, 14, 0, 0, 0, time.UTC).Add(time.Duration(n*100+i) * time.Millisecond), CaptureLength: len(data), Length: len(data)}
					if w.WritePacket(ci, data) != nil {
						return
					}
					select {
					case <-stop:
						return
					case <-time.After(3 * time.Millisecond):
					}
				}
				select {
				case <-stop:
				case <-time.After(30 * time.Millisecond):
				}
			}(conn, n)
		}
	}()
	return ln.Addr().String(), func() { ln.Close() }, nil
}

func c20Prop(rt *rapid.T, c *vlib.Case, t *testing.T) {
	base, err := os.MkdirTemp("", "c20-")
	if err != nil {
		rt.Fatalf("tempdir: %v", err)
	}
	defer os.RemoveAll(base)
	d, err := veMakeDirs(base)
	if err != nil {
		rt.Fatalf("dirs: %v", err)
	}
	cfg := vsDefaultConfig("C20")
	cfg.converters = []string{"cva"}
	if err := veInstallConverters(d, cfg.converters); err != nil {
		rt.Fatalf("converters: %v", err)
	}
	r := &vsRun{rt: rt, c: c, cfg: cfg, open: map[string]bool{}, tr: vsGenTraffic(rt), kindsDelivered: map[string]bool{}, lastDefs: map[string]string{}}
	r.views[0], r.views[1] = &vsView{}, &vsView{}
	r.hangInconclusive = true
	c.Render(func() any { return map[string]any{"traffic": r.tr.brief(), "history": r.hist} })
	e, err := veStart(d, true)
	if err != nil {
		rt.Fatalf("manager.New: %v", err)
	}
	r.e = e
	defer e.close()

	stop := make(chan struct{})
	var wg sync.WaitGroup
	// event listener
	ch, closeListener := e.mgr.Listen()
	wg.Add(1)
	go func() {
		defer wg.Done()
		// what the websocket handler of cmd/pkappa2 does with every event; like that handler it does not wait for
		// the channel to be closed (an event handed over right after the close request leaves it open until the
		// next event)
		for {
			select {
			case ev, ok := <-ch:
				if !ok {
					return
				}
				_, _ = json.Marshal(ev)
			case <-stop:
				return
			}
		}
	}()
	// pollers
	pollers := []func(){
		func() { e.mgr.Status() },
		func() { e.mgr.KnownPcaps() },
		func() { e.mgr.ListTags() },
		func() { e.mgr.ListConverters() },
		func() { e.mgr.ListPcapOverIPEndpoints() },
		func() { e.mgr.Config() },
		func() { e.mgr.ListPcapProcessorWebhooks() },
		func() {
			for _, st := range e.mgr.ListConverters() {
				for _, p := range st.Processes {
					_, _ = e.mgr.ConverterStderr(st.Name, p.Pid)
				}
				_, _ = e.mgr.ConverterStderr(st.Name, -1)
			}
		},
	}
	for _, p := range pollers {
		p := p
		wg.Add(1)
		go func() {
			defer wg.Done()
			for {
				select {
				case <-stop:
					return
				default:
				}
				p()
				time.Sleep(200 * time.Microsecond)
			}
		}()
	}
	feedAddr, closeFeeder, err := c20Feeder(stop, &wg)
	if err != nil {
		rt.Fatalf("harness: listen: %v", err)
	}
	fed := false
	steps := rapid.IntRange(8, 30).Draw(rt, "steps")
	for i := 0; i < steps; i++ {
		switch rapid.SampledFrom([]string{"import", "import", "tag", "tag", "tag", "mark", "conv", "conv", "reset", "view", "pause", "endpoint", "hook", "config", "grow"}).Draw(rt, "step") {
		case "grow":
			// the capture tool is still writing: an already handed over capture file gets one more record (a copy of
			// its first one); later imports read the file again. No oracle looks at stream contents here.
			var names []string
			for _, n := range r.tr.Written {
				names = append(names, n)
			}
			sort.Strings(names)
			if len(names) == 0 {
				continue
			}
			n := rapid.SampledFrom(names).Draw(rt, "grown")
			path := filepath.Join(e.dirs.pcap, n)
			if b, err := os.ReadFile(path); err == nil && len(b) >= 40 {
				incl := int(binary.LittleEndian.Uint32(b[32:36]))
				if 40+incl <= len(b) {
					if f, err := os.OpenFile(path, os.O_APPEND|os.O_WRONLY, 0o644); err == nil {
						_, _ = f.Write(b[24 : 40+incl])
						f.Close()
						r.log("capture %s grew by one record", n)
						c.Label("imported-capture-file-grew")
					}
				}
			}
		case "hook":
			u := rapid.SampledFrom([]string{"http://127.0.0.1:1/a", "http://127.0.0.1:1/b", "http://127.0.0.1:1/c"}).Draw(rt, "hook")
			if rapid.IntRange(0, 2).Draw(rt, "addhook") != 0 {
				r.apiCall("AddWebhook("+u+")", func() error { return e.mgr.AddPcapProcessorWebhook(u) })
			} else {
				r.apiCall("DelWebhook("+u+")", func() error { return e.mgr.DelPcapProcessorWebhook(u) })
			}
		case "config":
			v := rapid.Bool().Draw(rt, "autolimit")
			r.apiCall(fmt.Sprintf("SetConfig(%v)", v), func() error { return e.mgr.SetConfig(Config{AutoInsertLimitToQuery: v}) })
		case "endpoint":
			if rapid.IntRange(0, 2).Draw(rt, "addendpoint") != 0 {
				if r.apiCall("AddPcapOverIPEndpoint", func() error { return e.mgr.AddPcapOverIPEndpoint(feedAddr) }) == nil {
					fed = true
				}
			} else {
				r.apiCall("DelPcapOverIPEndpoint", func() error { return e.mgr.DelPcapOverIPEndpoint(feedAddr) })
			}
		case "import":
			if r.nextCapture < r.tr.captures() {
				r.stepImport()
			}
		case "tag":
			r.stepTag()
		case "mark":
			for _, n := range r.existingTags() {
				if strings.HasPrefix(n, "mark/") {
					r.stepMark()
					break
				}
			}
		case "conv":
			if len(r.existingTags()) != 0 {
				r.stepConv()
			}
		case "reset":
			r.stepReset()
		case "view":
			v := e.mgr.GetView()
			if _, err := veUseView(&v, []string{"sport:80", "cdata:aa"}); err != nil {
				r.log("view: %v", err)
			}
			v.Release()
		case "pause":
			time.Sleep(time.Duration(rapid.IntRange(1, 20).Draw(rt, "ms")) * time.Millisecond)
		}
	}
	// the periodic tag event worker ticks once per second: stay alive long enough to see it, then settle
	if rapid.IntRange(0, 3).Draw(rt, "longtail") == 0 {
		time.Sleep(1100 * time.Millisecond)
	}
	// no further packets: remove the endpoint and the peer, then let the imports it caused drain
	_ = e.mgr.DelPcapOverIPEndpoint(feedAddr)
	closeFeeder()
	if fed {
		time.Sleep(30 * time.Millisecond)
	}
	c.LabelIf(fed, "pcap-over-ip-endpoint-fed")
	if err := e.waitIdle(60 * time.Second); err != nil {
		// not a data race: the case is set aside (counted in the evidence), see DESIGN section 7
		close(stop)
		r.inconclusive("background-work-did-not-settle", err.Error())
	}
	close(stop)
	closeListener()
	wg.Wait()
	e.mu.Lock()
	kinds := 0
	for _, k := range veKinds {
		if e.begun[k] > 0 {
			kinds++
			c.Label("job:" + k)
		}
	}
	e.mu.Unlock()
	c.Count("steps", len(r.hist))
	if kinds >= 3 {
		c.NonTrivial(strings.Join(r.hist, ";") + fmt.Sprint(r.tr.brief()))
	}
}

func TestVerifC20(t *testing.T) {
	vlib.Check(t, "C20", func(rt *rapid.T, c *vlib.Case) { c20Prop(rt, c, t) })
}
