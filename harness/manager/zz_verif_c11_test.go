package manager

// C11 — tag management calls are total, atomic and keep the tag graph
// well-formed. API fuzzing against a reference model of the tag table
// (DESIGN.md §5 C11). Gates are open (free running background jobs).

import (
	"fmt"
	"os"
	"slices"
	"sort"
	"strings"
	"testing"
	"time"

	"github.com/spq/pkappa2/internal/query"
	"github.com/spq/pkappa2/internal/verif/vlib"
	"pgregory.net/rapid"
)

var (
	c11Names = []string{"tag/a", "tag/b", "tag/c", "service/s", "mark/m", "mark/n", "generated/g",
		"", "a", "tag/", "foo/x", "mark/", "tag/a/b", "TAG/a"}
	c11Defs = []string{
		"cport:1000", "sport:80", "cdata:aa", "sdata:bb", "protocol:udp", "chost:10.0.0.1", `ftime:"2024-01-02 1300:"`,
		"tag:a", "tag:b", "tag:c", "service:s", "-tag:a", "tag:a tag:b", "tag:b or tag:c", "mark:m", "generated:g", "tag:a service:s",
		"@s:tag:a sport:80", "@s:tag:b cport:@s:cport@", "@x:service:s @x:sport:80 sport:80",
		"id:0", "id:0,1", "id:1:3", "id:2", "id:7", "id:0,9", "id:5:",
		"cport:", "(", "cdata:(", "ftime:-1h:", `group:"@sport@"`, "sport:80 sort:id", "limit:5 sport:80", "", "tag:missing", "service:nope tag:a", "@sub:sport:80 sport:@sub:sport@",
	}
	c11Colors = []string{"#fff", "#000", "red", ""}
	c11Convs  = [][]string{{}, {"cva"}, {"cvb"}, {"cva", "cvb"}, {"nope"}, {"cva", "nope"}, {"cva", "cva"}, {"cvb", "cva", "cvb"}}
)

type c11Tag struct {
	def    string
	color  string
	convs  []string
	marks  map[uint64]bool // for mark/generated tags
	isMark bool
}

// c11State reads the real tag table inside the service loop.
// c11Def draws a definition: half of the time one that references other tags.
func c11Def(rt *rapid.T) string {
	if rapid.Bool().Draw(rt, "refdef") {
		return rapid.SampledFrom(c11Defs[7:20]).Draw(rt, "rdef")
	}
	return rapid.SampledFrom(c11Defs).Draw(rt, "def")
}

func c11State(e *veEngine) (map[string]veTagState, uint64, error) {
	var st *veState
	if err := e.inLoop(func() { st = e.readState() }); err != nil {
		return nil, 0, err
	}
	return st.tags, st.nextStreamID, nil
}

func c11Render(tags map[string]veTagState) string {
	names := make([]string, 0, len(tags))
	for n := range tags {
		names = append(names, n)
	}
	sort.Strings(names)
	var sb strings.Builder
	for _, n := range names {
		t := tags[n]
		m := make([]int, 0, len(t.matches))
		if strings.HasPrefix(n, "mark/") || strings.HasPrefix(n, "generated/") {
			for id := range t.matches {
				m = append(m, int(id))
			}
			sort.Ints(m)
		}
		fmt.Fprintf(&sb, "%s def=%q color=%q conv=%v marks=%v refby=%v\n", n, t.def, t.color, t.converters, m, t.refBy)
	}
	return sb.String()
}

// c11Graph checks well-formedness of the tag graph obtained by re-parsing every definition.
func c11Graph(tags map[string]veTagState) string {
	refs := map[string][]string{}
	referenced := map[string]map[string]bool{}
	for n, t := range tags {
		q, err := query.Parse(t.def)
		if err != nil {
			return fmt.Sprintf("tag %s holds a definition that does not parse: %q: %v", n, t.def, err)
		}
		f := q.Conditions.Features()
		for _, r := range append(append([]string{}, f.MainTags...), f.SubQueryTags...) {
			if _, ok := tags[r]; !ok {
				return fmt.Sprintf("tag %s (definition %q) references the missing tag %s", n, t.def, r)
			}
			refs[n] = append(refs[n], r)
			if referenced[r] == nil {
				referenced[r] = map[string]bool{}
			}
			referenced[r][n] = true
		}
	}
	// cycles
	state := map[string]int{}
	var visit func(string) string
	visit = func(n string) string {
		switch state[n] {
		case 1:
			return n
		case 2:
			return ""
		}
		state[n] = 1
		for _, r := range refs[n] {
			if c := visit(r); c != "" {
				return c
			}
		}
		state[n] = 2
		return ""
	}
	for n := range tags {
		if c := visit(n); c != "" {
			return fmt.Sprintf("tag definitions form a reference cycle through %s", c)
		}
	}
	for n, t := range tags {
		want := len(referenced[n]) != 0
		if t.referenced != want {
			return fmt.Sprintf("tag %s: referenced indication is %v but definitions say %v (referenced by %v, recorded %v)", n, t.referenced, want, referenced[n], t.refBy)
		}
	}
	return ""
}

// c11Call runs an API call with a watchdog.
func c11Call(f func() error) (err error, hung bool) {
	done := make(chan error, 1)
	go func() { done <- f() }()
	select {
	case err := <-done:
		return err, false
	case <-time.After(15 * time.Second):
		return nil, true
	}
}

func c11Prop(rt *rapid.T, c *vlib.Case, t *testing.T, open map[string]bool) {
	base, err := os.MkdirTemp("", "c11-")
	if err != nil {
		rt.Fatalf("tempdir: %v", err)
	}
	defer os.RemoveAll(base)
	d, err := veMakeDirs(base)
	if err != nil {
		rt.Fatalf("dirs: %v", err)
	}
	if err := veInstallConverters(d, []string{"cva", "cvb"}); err != nil {
		rt.Fatalf("converters: %v", err)
	}
	var hist []string
	c.Render(func() any { return hist })
	// 0..6 streams: one-datagram UDP flows in one capture
	nStreams := rapid.IntRange(0, 6).Draw(rt, "streams")
	tr := &veTraffic{Base: time.Date(2024, 1, 2, 13, 0, 0, 0, time.UTC)}
	for i := 0; i < nStreams; i++ {
		tr.Flows = append(tr.Flows, veFlow{Client: "10.0.0.1", Server: "10.0.0.2", CPort: uint16(1000 + i), SPort: 80})
		tr.Packets = append(tr.Packets, vePacket{Flow: i, Off: time.Duration(i+1) * time.Second, Payload: []string{"aa", "bb", "aabb", "cc"}[i%4]})
	}
	tr.Cuts = []int{0, len(tr.Packets)}
	e, err := veStart(d, true)
	if err != nil {
		rt.Fatalf("manager.New: %v", err)
	}
	defer e.close()
	hist = append(hist, fmt.Sprintf("streams=%d", nStreams))
	if nStreams > 0 {
		name, err := tr.writeCapture(d, 0)
		if err != nil {
			rt.Fatalf("write capture: %v", err)
		}
		e.mgr.ImportPcaps([]string{name})
		deadline := time.Now().Add(30 * time.Second)
		for {
			st := e.mgr.Status()
			if st.ImportJobCount == 0 && st.StreamCount == nStreams {
				break
			}
			if time.Now().After(deadline) {
				rt.Fatalf("import of %d streams did not finish", nStreams)
			}
			time.Sleep(2 * time.Millisecond)
		}
	}

	model := map[string]*c11Tag{}
	rejected, accepted, hadRef := 0, 0, false
	steps := rapid.IntRange(1, 40).Draw(rt, "steps")
	for i := 0; i < steps; i++ {
		// let background jobs of earlier calls finish: they legitimately change matches
		if err := e.waitIdle(60 * time.Second); err != nil {
			rt.Fatalf("step %d: %v (history %v)", i, err, hist)
		}
		before, next, err := c11State(e)
		if err != nil {
			rt.Fatalf("step %d: %v", i, err)
		}
		beforeText := c11Render(before)
		name := rapid.SampledFrom(c11Names).Draw(rt, "name")
		if rapid.IntRange(0, 3).Draw(rt, "validname") != 0 {
			name = rapid.SampledFrom(c11Names[:7]).Draw(rt, "vname")
		}
		// prefer names that exist for update/delete
		existing := make([]string, 0, len(before))
		for n := range before {
			existing = append(existing, n)
		}
		sort.Strings(existing)
		op := rapid.SampledFrom([]string{"add", "add", "add", "query", "query", "color", "name", "markadd", "markdel", "conv", "del"}).Draw(rt, "op")
		if op != "add" && len(existing) != 0 && rapid.IntRange(0, 4).Draw(rt, "useexisting") != 0 {
			name = rapid.SampledFrom(existing).Draw(rt, "existing")
		}
		bootstrap := len(existing) < 2 && rapid.IntRange(0, 3).Draw(rt, "bootstrap") != 0
		if bootstrap {
			// build up a few plain tags first so that references can succeed later
			op = "add"
			name = rapid.SampledFrom(c11Names[:7]).Draw(rt, "bname")
		}
		var call func() error
		desc := ""
		var ids []uint64
		arg := ""
		var convs []string
		switch op {
		case "add":
			arg = c11Def(rt)
			if bootstrap {
				arg = rapid.SampledFrom(c11Defs[:7]).Draw(rt, "bdef")
				if _, _, isMark := parseTagName(name); isMark {
					arg = rapid.SampledFrom(c11Defs[20:25]).Draw(rt, "bmdef")
				}
			}
			color := rapid.SampledFrom(c11Colors).Draw(rt, "color")
			desc = fmt.Sprintf("AddTag(%q,%q,%q)", name, color, arg)
			call = func() error { return e.mgr.AddTag(name, color, arg) }
			convs = []string{color}
		case "query":
			arg = c11Def(rt)
			desc = fmt.Sprintf("UpdateTag(%q, query=%q)", name, arg)
			call = func() error { return e.mgr.UpdateTag(name, UpdateTagOperationUpdateQuery(arg)) }
		case "color":
			arg = rapid.SampledFrom(c11Colors).Draw(rt, "color")
			desc = fmt.Sprintf("UpdateTag(%q, color=%q)", name, arg)
			call = func() error { return e.mgr.UpdateTag(name, UpdateTagOperationUpdateColor(arg)) }
		case "name":
			arg = rapid.SampledFrom(c11Names).Draw(rt, "newname")
			desc = fmt.Sprintf("UpdateTag(%q, name=%q)", name, arg)
			call = func() error { return e.mgr.UpdateTag(name, UpdateTagOperationUpdateName(arg)) }
		case "markadd", "markdel":
			n := rapid.IntRange(0, 3).Draw(rt, "nids")
			for j := 0; j < n; j++ {
				ids = append(ids, uint64(rapid.IntRange(0, 8).Draw(rt, "id")))
			}
			desc = fmt.Sprintf("UpdateTag(%q, %s=%v)", name, op, ids)
			if op == "markadd" {
				call = func() error { return e.mgr.UpdateTag(name, UpdateTagOperationMarkAddStream(ids)) }
			} else {
				call = func() error { return e.mgr.UpdateTag(name, UpdateTagOperationMarkDelStream(ids)) }
			}
		case "conv":
			convs = rapid.SampledFrom(c11Convs).Draw(rt, "convs")
			desc = fmt.Sprintf("UpdateTag(%q, converters=%v)", name, convs)
			call = func() error { return e.mgr.UpdateTag(name, UpdateTagOperationSetConverter(convs)) }
		case "del":
			desc = fmt.Sprintf("DelTag(%q)", name)
			call = func() error { return e.mgr.DelTag(name) }
		}
		if open["F-C11-setconverter-partial"] && op == "conv" {
			// a failing converter update detaches some converters before it reports the error
			unknown := false
			for _, cn := range convs {
				if cn == "nope" {
					unknown = true
				}
			}
			if unknown {
				c.Count("excluded_known", 1)
				continue
			}
		}
		hist = append(hist, desc)
		c.Trace(t)
		callErr, hung := c11Call(call)
		if hung {
			rt.Fatalf("%s did not return within 15s (service hangs)", desc)
		}
		after, _, err := c11State(e)
		if err != nil {
			rt.Fatalf("after %s: %v", desc, err)
		}
		afterText := c11Render(after)
		if callErr != nil {
			hist[len(hist)-1] += " -> error: " + callErr.Error()
			rejected++
			if afterText != beforeText {
				rt.Fatalf("%s was rejected (%v) but the tags changed:\nbefore:\n%safter:\n%s", desc, callErr, beforeText, afterText)
			}
		} else {
			hist[len(hist)-1] += " -> ok"
			accepted++
			// exactly the requested change
			want := map[string]veTagState{}
			for n, ts := range before {
				want[n] = ts
			}
			switch op {
			case "add":
				if _, existed := before[name]; existed {
					rt.Fatalf("%s succeeded although the tag exists", desc)
				}
				ts, ok := after[name]
				if !ok {
					rt.Fatalf("%s succeeded but the tag is not listed", desc)
				}
				if ts.def != arg || ts.color != convs[0] || len(ts.converters) != 0 {
					rt.Fatalf("%s succeeded but the tag is listed as def=%q color=%q conv=%v", desc, ts.def, ts.color, ts.converters)
				}
				typ, sub, _ := parseTagName(name)
				if typ == "" || sub == "" {
					rt.Fatalf("%s succeeded with an invalid tag name", desc)
				}
			case "query":
				ts := after[name]
				if ts.def != arg {
					rt.Fatalf("%s succeeded but the definition is %q", desc, ts.def)
				}
			case "color":
				ts := after[name]
				if arg != "" && ts.color != arg {
					rt.Fatalf("%s succeeded but the colour is %q", desc, ts.color)
				}
			case "name":
				if arg != "" && arg != name {
					if _, ok := after[arg]; !ok {
						rt.Fatalf("%s succeeded but %q is not listed", desc, arg)
					}
					if _, ok := after[name]; ok {
						rt.Fatalf("%s succeeded but the old name is still listed", desc)
					}
					if before[name].referenced {
						rt.Fatalf("%s renamed a tag that other tags reference", desc)
					}
				}
			case "markadd", "markdel":
				if _, _, isMark := parseTagName(name); !isMark {
					if len(ids) != 0 {
						rt.Fatalf("%s succeeded on a tag that is not a mark", desc)
					}
					break
				}
				b, a := before[name], after[name]
				wantSet := map[uint]bool{}
				for id := range b.matches {
					wantSet[id] = true
				}
				for _, id := range ids {
					if id >= next {
						rt.Fatalf("%s succeeded although stream %d does not exist (next id %d)", desc, id, next)
					}
					if op == "markadd" {
						wantSet[uint(id)] = true
					} else {
						delete(wantSet, uint(id))
					}
				}
				if fmt.Sprint(sortedKeys(wantSet)) != fmt.Sprint(sortedKeys(a.matches)) {
					rt.Fatalf("%s succeeded: marked streams are %v, want %v (before %v)", desc, sortedKeys(a.matches), sortedKeys(wantSet), sortedKeys(b.matches))
				}
			case "conv":
				a := after[name]
				got := append([]string{}, a.converters...)
				sort.Strings(got)
				// a name given twice is one converter
				w := []string{}
				for _, cn := range convs {
					if !slices.Contains(w, cn) {
						w = append(w, cn)
					}
				}
				sort.Strings(w)
				if fmt.Sprint(got) != fmt.Sprint(w) {
					rt.Fatalf("%s succeeded but attached converters are %v", desc, got)
				}
			case "del":
				if _, ok := after[name]; ok {
					rt.Fatalf("%s succeeded but the tag is still listed", desc)
				}
				if before[name].referenced {
					rt.Fatalf("%s deleted a tag that other tags reference", desc)
				}
			}
			// nothing else changed
			for n, ts := range before {
				if n == name || (op == "name" && n == arg) {
					continue
				}
				as, ok := after[n]
				if !ok {
					rt.Fatalf("%s made the unrelated tag %s disappear", desc, n)
				}
				if as.def != ts.def || as.color != ts.color || fmt.Sprint(as.converters) != fmt.Sprint(ts.converters) {
					rt.Fatalf("%s changed the unrelated tag %s: %+v -> %+v", desc, n, ts, as)
				}
			}
		}
		if msg := c11Graph(after); msg != "" {
			rt.Fatalf("after %s: %s\ntags:\n%s", desc, msg, afterText)
		}
		for _, ts := range after {
			if ts.referenced {
				hadRef = true
			}
		}
		// responsiveness
		if _, hung := c11Call(func() error { e.mgr.Status(); return nil }); hung {
			rt.Fatalf("after %s the service no longer answers Status()", desc)
		}
	}
	_ = model
	c.Count("calls", accepted+rejected)
	c.LabelIf(hadRef, "had-reference")
	c.LabelIf(rejected > 0, "had-rejection")
	if rejected >= 1 && accepted >= 2 && hadRef {
		c.NonTrivial(strings.Join(hist, ";"))
	}
}

func sortedKeys(m map[uint]bool) []int {
	out := make([]int, 0, len(m))
	for k := range m {
		out = append(out, int(k))
	}
	sort.Ints(out)
	return out
}

func TestVerifC11(t *testing.T) {
	open := vlib.OpenFindings()
	vlib.Check(t, "C11", func(rt *rapid.T, c *vlib.Case) { c11Prop(rt, c, t, open) })
}

// veQuickManager starts a free-running manager holding n one-datagram UDP streams.
func veQuickManager(n int, convs []string) (*veEngine, func(), error) {
	base, err := os.MkdirTemp("", "vefix-")
	if err != nil {
		return nil, nil, err
	}
	d, err := veMakeDirs(base)
	if err != nil {
		return nil, nil, err
	}
	if len(convs) != 0 {
		if err := veInstallConverters(d, convs); err != nil {
			return nil, nil, err
		}
	}
	tr := &veTraffic{Base: time.Date(2024, 1, 2, 13, 0, 0, 0, time.UTC)}
	for i := 0; i < n; i++ {
		tr.Flows = append(tr.Flows, veFlow{Client: "10.0.0.1", Server: "10.0.0.2", CPort: uint16(1000 + i), SPort: 80})
		tr.Packets = append(tr.Packets, vePacket{Flow: i, Off: time.Duration(i+1) * time.Second, Payload: "aa"})
	}
	tr.Cuts = []int{0, len(tr.Packets)}
	e, err := veStart(d, true)
	if err != nil {
		os.RemoveAll(base)
		return nil, nil, err
	}
	cleanup := func() { e.close(); os.RemoveAll(base) }
	if n > 0 {
		name, err := tr.writeCapture(d, 0)
		if err != nil {
			cleanup()
			return nil, nil, err
		}
		e.mgr.ImportPcaps([]string{name})
		deadline := time.Now().Add(30 * time.Second)
		for {
			st := e.mgr.Status()
			if st.ImportJobCount == 0 && st.StreamCount == n {
				break
			}
			if time.Now().After(deadline) {
				cleanup()
				return nil, nil, fmt.Errorf("import did not finish")
			}
			time.Sleep(2 * time.Millisecond)
		}
	}
	return e, cleanup, nil
}

// c11Fixed runs one hand-written history; each step is (description, call, wantError).
func c11FixedCase(name string) (string, any) {
	type step struct {
		desc    string
		f       func(m *Manager) error
		wantErr bool
	}
	var steps []step
	streams := 2
	convs := []string{"cva"}
	post := func(e *veEngine) string { return "" }
	switch name {
	case "F-C11-update-missing-ref":
		steps = []step{
			{"AddTag tag/a", func(m *Manager) error { return m.AddTag("tag/a", "#fff", "cport:1000") }, false},
			{"UpdateTag tag/a query=tag:missing", func(m *Manager) error { return m.UpdateTag("tag/a", UpdateTagOperationUpdateQuery("tag:missing")) }, true},
		}
	case "F-C11-update-cycle":
		steps = []step{
			{"AddTag tag/a", func(m *Manager) error { return m.AddTag("tag/a", "#fff", "cport:1000") }, false},
			{"AddTag tag/b=tag:a", func(m *Manager) error { return m.AddTag("tag/b", "#fff", "tag:a") }, false},
			{"UpdateTag tag/a query=tag:b", func(m *Manager) error { return m.UpdateTag("tag/a", UpdateTagOperationUpdateQuery("tag:b")) }, true},
		}
	case "F-C11-mark-stream0":
		steps = []step{
			{"AddTag mark/m=id:1", func(m *Manager) error { return m.AddTag("mark/m", "#fff", "id:1") }, false},
			{"markadd [0]", func(m *Manager) error { return m.UpdateTag("mark/m", UpdateTagOperationMarkAddStream([]uint64{0})) }, false},
		}
		post = func(e *veEngine) string {
			tags, _, err := c11State(e)
			if err != nil {
				return err.Error()
			}
			if got := fmt.Sprint(sortedKeys(tags["mark/m"].matches)); got != "[0 1]" {
				return "after marking stream 0 the marked streams are " + got + ", want [0 1]"
			}
			return ""
		}
	case "F-C11-setconverter-partial":
		steps = []step{
			{"AddTag tag/a", func(m *Manager) error { return m.AddTag("tag/a", "#fff", "cport:1000") }, false},
			{"attach cva", func(m *Manager) error { return m.UpdateTag("tag/a", UpdateTagOperationSetConverter([]string{"cva"})) }, false},
			{"set converters [nope]", func(m *Manager) error { return m.UpdateTag("tag/a", UpdateTagOperationSetConverter([]string{"nope"})) }, true},
		}
		post = func(e *veEngine) string {
			tags, _, err := c11State(e)
			if err != nil {
				return err.Error()
			}
			if got := fmt.Sprint(tags["tag/a"].converters); got != "[cva]" {
				return "the rejected converter update changed the attached converters to " + got
			}
			return ""
		}
	case "F-C11-generated-nonid-query":
		steps = []step{
			{"AddTag tag/a", func(m *Manager) error { return m.AddTag("tag/a", "#fff", "cport:1000") }, false},
			{"AddTag generated/g=id:0", func(m *Manager) error { return m.AddTag("generated/g", "#fff", "id:0") }, false},
			{"UpdateTag generated/g query=-tag:a", func(m *Manager) error { return m.UpdateTag("generated/g", UpdateTagOperationUpdateQuery("-tag:a")) }, true},
		}
	default:
		return "unknown fixed case", name
	}
	e, cleanup, err := veQuickManager(streams, convs)
	if err != nil {
		return "setup: " + err.Error(), name
	}
	defer cleanup()
	var hist []string
	for _, s := range steps {
		callErr, hung := c11Call(func() error { return s.f(e.mgr) })
		if hung {
			return s.desc + " did not return within 15s (service hangs)", hist
		}
		hist = append(hist, fmt.Sprintf("%s -> %v", s.desc, callErr))
		if (callErr != nil) != s.wantErr {
			return fmt.Sprintf("%s returned %v, want error=%v", s.desc, callErr, s.wantErr), hist
		}
		if _, hung := c11Call(func() error { e.mgr.Status(); return nil }); hung {
			return "after " + s.desc + " the service no longer answers", hist
		}
		tags, _, err := c11State(e)
		if err != nil {
			return err.Error(), hist
		}
		if msg := c11Graph(tags); msg != "" {
			return "after " + s.desc + ": " + msg, hist
		}
	}
	if msg := post(e); msg != "" {
		return msg, hist
	}
	return "", nil
}

func TestVerifC11Fixed(t *testing.T) {
	vlib.Fixed(t, "C11", []string{"F-C11-update-missing-ref", "F-C11-update-cycle", "F-C11-mark-stream0", "F-C11-setconverter-partial", "F-C11-generated-nonid-query"}, c11FixedCase)
}
