package manager

// C12 — state survives restart and a crash at any point (gate granularity).
// Histories as in the scenario driver, split into epochs. An epoch ends with a
// clean Close or with a crash: the data directory is copied while background
// jobs are parked at their gates (between a job's file operations and its
// registration with the service) and optionally damaged the way an interrupted
// write would leave it; the next epoch starts a new manager on the copy.
// DESIGN.md §5 C12.

import (
	"context"
	"fmt"
	"io"
	"io/fs"
	"os"
	"path/filepath"
	"sort"
	"strings"
	"testing"
	"time"

	"github.com/spq/pkappa2/internal/verif/vidx"
	"github.com/spq/pkappa2/internal/verif/vlib"
	"pgregory.net/rapid"
)

type c12Ack struct {
	tags     map[string]c12AckTag // acknowledged tag table
	config   Config
	webhooks map[string]bool
	ids      map[string]uint64 // connection key -> stream id recorded when an import completion was observed
}

type c12AckTag struct {
	def, color string
	convs      []string
}

// c12Canon makes a connection key and its payload rendering independent of which endpoint is called the
// client: a stream whose earlier packets arrive later is reset and may turn around, keeping its id.
func c12Canon(key, runs string) (string, string) {
	a, b, _ := strings.Cut(key, ">")
	if a <= b {
		return key, runs
	}
	var out []string
	for _, r := range strings.Split(runs, ",") {
		if strings.HasPrefix(r, "0:") {
			out = append(out, "1:"+r[2:])
		} else if strings.HasPrefix(r, "1:") {
			out = append(out, "0:"+r[2:])
		} else {
			out = append(out, r)
		}
	}
	return b + ">" + a, strings.Join(out, ",")
}

func c12CanonMap(m map[string]string) map[string]string {
	out := map[string]string{}
	for k, v := range m {
		ck, cv := c12Canon(k, v)
		out[ck] = cv
	}
	return out
}

func copyTree(src, dst string) error {
	return filepath.WalkDir(src, func(p string, d fs.DirEntry, err error) error {
		if err != nil {
			return err
		}
		rel, _ := filepath.Rel(src, p)
		target := filepath.Join(dst, rel)
		if d.IsDir() {
			return os.MkdirAll(target, 0o755)
		}
		info, err := d.Info()
		if err != nil {
			return err
		}
		in, err := os.Open(p)
		if err != nil {
			return err
		}
		defer in.Close()
		out, err := os.OpenFile(target, os.O_CREATE|os.O_WRONLY|os.O_TRUNC, info.Mode().Perm())
		if err != nil {
			return err
		}
		if _, err := io.Copy(out, in); err != nil {
			out.Close()
			return err
		}
		return out.Close()
	})
}

// c12Snapshot reads the acknowledged state from the running manager (inside the
// loop): tags as last acknowledged, config, webhooks and the ids of all visible streams.
func c12ReadAck(r *vsRun, ack *c12Ack) {
	_ = r.e.inLoop(func() {
		m := r.e.mgr
		ack.tags = map[string]c12AckTag{}
		for n, t := range m.tags {
			ack.tags[n] = c12AckTag{def: t.definition, color: t.color, convs: t.converterNames()}
		}
		ack.config = m.config
		ack.webhooks = map[string]bool{}
		for _, w := range m.pcapProcessorWebhookUrls {
			ack.webhooks[w] = true
		}
		streams, err := veVisible(m.indexes)
		if err == nil {
			for id, s := range streams {
				ck, _ := c12Canon(fmt.Sprintf("%s:%d>%s:%d", s.ClientHostIP(), s.ClientPort, s.ServerHostIP(), s.ServerPort), "")
				ack.ids[ck] = id
			}
		}
	})
}

// c12Damage leaves files in the copied directory the way interrupted writes would.
func c12Damage(rt *rapid.T, d veDirs, hist *[]string) {
	kinds := rapid.SliceOfNDistinct(rapid.SampledFrom([]string{"state", "index", "snapshot", "cache", "cache", "none", "none"}), 0, 3, func(s string) string { return s }).Draw(rt, "damage")
	for _, k := range kinds {
		switch k {
		case "state":
			// a state file that was being written: newest name, cut JSON
			ents, _ := os.ReadDir(d.state)
			for _, en := range ents {
				if strings.HasSuffix(en.Name(), ".state.json") {
					b, _ := os.ReadFile(filepath.Join(d.state, en.Name()))
					if len(b) > 2 {
						cut := rapid.IntRange(0, len(b)-2).Draw(rt, "statecut")
						os.WriteFile(filepath.Join(d.state, "2999-01-01_000000.000.0.state.json"), b[:cut], 0o644)
						*hist = append(*hist, fmt.Sprintf("damage: partial state file (%d of %d bytes)", cut, len(b)))
					}
					break
				}
			}
		case "index":
			// an index file that was being written: the magic is written last, so the header is still zero
			ents, _ := os.ReadDir(d.index)
			for _, en := range ents {
				if strings.HasSuffix(en.Name(), ".idx") {
					b, _ := os.ReadFile(filepath.Join(d.index, en.Name()))
					if len(b) > 200 {
						cut := rapid.IntRange(0, len(b)).Draw(rt, "indexcut")
						nb := append([]byte{}, b[:cut]...)
						for i := 0; i < 16 && i < len(nb); i++ {
							nb[i] = 0
						}
						os.WriteFile(filepath.Join(d.index, "2999-01-01_000000.000.0.idx"), nb, 0o644)
						*hist = append(*hist, fmt.Sprintf("damage: partial index file without magic (%d of %d bytes)", cut, len(b)))
					}
					break
				}
			}
		case "cache":
			// a converter cache file whose last record was being appended when the process died
			ents, _ := os.ReadDir(d.index)
			for _, en := range ents {
				if strings.HasSuffix(en.Name(), ".cidx") {
					p := filepath.Join(d.index, en.Name())
					if st, err := os.Stat(p); err == nil && st.Size() > 16 {
						cut := rapid.Int64Range(1, 40).Draw(rt, "cachecut")
						if cut >= st.Size()-8 {
							cut = st.Size() - 9
						}
						if cut > 0 && os.Truncate(p, st.Size()-cut) == nil {
							*hist = append(*hist, fmt.Sprintf("damage: converter cache %s cut by %d of %d bytes", en.Name(), cut, st.Size()))
						}
					}
				}
			}
		case "snapshot":
			ents, _ := os.ReadDir(d.snapshot)
			for _, en := range ents {
				if strings.HasSuffix(en.Name(), ".snap") {
					b, _ := os.ReadFile(filepath.Join(d.snapshot, en.Name()))
					if len(b) > 1 {
						cut := rapid.IntRange(0, len(b)-1).Draw(rt, "snapcut")
						os.WriteFile(filepath.Join(d.snapshot, "2999-01-01_000000.000.0.snap"), b[:cut], 0o644)
						*hist = append(*hist, fmt.Sprintf("damage: partial snapshot file (%d of %d bytes)", cut, len(b)))
					}
					break
				}
			}
		}
	}
}

func c12Verify(r *vsRun, ack *c12Ack, inFlight map[string]bool, crashed bool) {
	// tags
	tags, _, err := c11State(r.e)
	if err != nil {
		r.fatalf("after restart: %v", err)
	}
	for n, a := range ack.tags {
		if inFlight[n] {
			continue
		}
		got, ok := tags[n]
		if !ok {
			r.fatalf("after the restart the acknowledged tag %s is missing (tags now: %v)", n, c11Render(tags))
		}
		if got.def != a.def || got.color != a.color || fmt.Sprint(got.converters) != fmt.Sprint(a.convs) {
			r.fatalf("after the restart tag %s is def=%q color=%q converters=%v, acknowledged was def=%q color=%q converters=%v", n, got.def, got.color, got.converters, a.def, a.color, a.convs)
		}
	}
	for n := range tags {
		if _, ok := ack.tags[n]; !ok && !inFlight[n] {
			r.fatalf("after the restart the tag %s exists although it was deleted or never acknowledged", n)
		}
	}
	if c := r.e.mgr.Config(); c != ack.config {
		r.fatalf("after the restart the config is %+v, acknowledged %+v", c, ack.config)
	}
	hooks := map[string]bool{}
	for _, w := range r.e.mgr.ListPcapProcessorWebhooks() {
		hooks[w] = true
	}
	if fmt.Sprint(hooks) != fmt.Sprint(ack.webhooks) {
		r.fatalf("after the restart the webhooks are %v, acknowledged %v", hooks, ack.webhooks)
	}
	// streams of completed imports under their old ids
	v := r.e.mgr.GetView()
	got := map[string]uint64{}
	content := map[string]string{}
	err = v.AllStreams(context.Background(), func(sc StreamContext) error {
		s := sc.Stream()
		key, _ := c12Canon(fmt.Sprintf("%s:%d>%s:%d", s.ClientHostIP(), s.ClientPort, s.ServerHostIP(), s.ServerPort), "")
		flipped := key != fmt.Sprintf("%s:%d>%s:%d", s.ClientHostIP(), s.ClientPort, s.ServerHostIP(), s.ServerPort)
		if _, dup := got[key]; dup {
			return fmt.Errorf("connection %s is visible twice", key)
		}
		got[key] = s.ID()
		data, err := s.Data()
		if err != nil {
			return err
		}
		var runs []string
		for _, run := range vidx.DataToRuns(data) {
			d := run.Dir
			if flipped {
				d = 1 - d
			}
			runs = append(runs, fmt.Sprintf("%d:%s", d, run.Data))
		}
		content[key] = strings.Join(runs, ",")
		return nil
	})
	v.Release()
	_ = r.e.inLoop(func() {})
	if err != nil {
		r.fatalf("after the restart reading all streams failed: %v", err)
	}
	for key, id := range ack.ids {
		g, ok := got[key]
		if !ok {
			r.fatalf("after the restart the stream of %s (id %d, import completed before) is not visible", key, id)
		}
		if g != id {
			r.fatalf("after the restart the stream of %s has id %d, it had id %d before", key, g, id)
		}
	}
	// nothing invented: every visible conversation exists in the captures written so far
	all := map[string]bool{}
	for i := range r.tr.Written {
		all[fmt.Sprintf("cap%02d.pcap", i)] = true
	}
	possible := c12CanonMap(r.expectedStreams(all))
	for key := range got {
		if _, ok := possible[key]; !ok {
			r.fatalf("after the restart a stream %s is visible that no capture contains", key)
		}
	}
	// content: that of the delivered imports, or of those plus the captures of an import job whose index file
	// was already written when the crash copy was taken (such a file is complete and legitimately loaded)
	_ = crashed
	imported := map[string]bool{}
	for n := range r.importedFiles {
		imported[n] = true
	}
	want := c12CanonMap(r.expectedStreams(imported))
	// an import job parked at the crash took a prefix of the queue that existed then; the captures behind it were
	// never imported but lie in the capture directory: later imports replay them for the flows they touch, unless a
	// reassembly snapshot lets them start behind those captures. Per stream any subset of the queue may show.
	alts := []map[string]string{want}
	queue := []string{}
	seenQ := map[string]bool{}
	for _, n := range r.maybeQueue {
		if !seenQ[n] && !imported[n] {
			seenQ[n] = true
			queue = append(queue, n)
		}
	}
	if len(queue) > 8 {
		queue = queue[:8]
	}
	for mask := 1; mask < 1<<len(queue); mask++ {
		set := map[string]bool{}
		for n := range imported {
			set[n] = true
		}
		for i, n := range queue {
			if mask&(1<<i) != 0 {
				set[n] = true
			}
		}
		alts = append(alts, c12CanonMap(r.expectedStreams(set)))
	}
	// per conversation: queued captures that never got imported are still replayed by later imports for the
	// flows those touch, so each stream may correspond to a different prefix
	for key := range want {
		ok := false
		for _, alt := range alts {
			if content[key] == alt[key] {
				ok = true
				break
			}
		}
		if !ok {
			r.fatalf("after the restart the stream of %s has payload %q; the captures whose import completed (%v) contain %q (import queue at the crash: %v)", key, content[key], r.importedFiles, want[key], r.maybeQueue)
		}
	}
}

func c12Prop(rt *rapid.T, c *vlib.Case, t *testing.T, open map[string]bool) {
	base, err := os.MkdirTemp("", "c12-")
	if err != nil {
		rt.Fatalf("tempdir: %v", err)
	}
	defer os.RemoveAll(base)
	epochDir := func(i int) string { return filepath.Join(base, fmt.Sprintf("e%d", i)) }
	d, err := veMakeDirs(epochDir(0))
	if err != nil {
		rt.Fatalf("dirs: %v", err)
	}
	cfg := vsDefaultConfig("C12")
	cfg.converters = []string{"cva"}
	cfg.wConv, cfg.wView, cfg.wMark = 1, 0, 1
	if err := veInstallConverters(d, cfg.converters); err != nil {
		rt.Fatalf("converters: %v", err)
	}
	r := &vsRun{rt: rt, c: c, cfg: cfg, open: open, tr: vsGenTraffic(rt), kindsDelivered: map[string]bool{}, lastDefs: map[string]string{}, deliveredCaptures: map[int]bool{}}
	r.views[0], r.views[1] = &vsView{}, &vsView{}
	c.Render(func() any { return map[string]any{"traffic": r.tr.brief(), "history": r.hist} })
	ack := &c12Ack{ids: map[string]uint64{}, tags: map[string]c12AckTag{}, webhooks: map[string]bool{}}
	defer func() {
		// never leave a manager (inotify instance, goroutines, converter processes) behind, also on failure
		if r.e != nil {
			r.e.close()
		}
	}()
	r.maybeFiles = map[string]bool{}
	r.importedFiles = map[string]bool{}
	epochs := rapid.IntRange(2, 4).Draw(rt, "epochs")
	crashes, crashWithParked, damaged := 0, 0, 0
	for ep := 0; ep < epochs; ep++ {
		e, err := veStart(d, false)
		if err != nil {
			r.fatalf("epoch %d: manager.New failed on the directory left by the previous epoch: %v", ep, err)
		}
		r.e = e
		if err := e.sync(); err != nil {
			e.close()
			r.fatalf("epoch %d: %v", ep, err)
		}
		if ep > 0 {
			c12Verify(r, ack, map[string]bool{}, r.hist[len(r.hist)-1] != "close")
		}
		nsteps := rapid.IntRange(1, 14).Draw(rt, "epochsteps")
		for i := 0; i < nsteps; i++ {
			switch rapid.SampledFrom([]string{"import", "import", "tag", "tag", "tag", "mark", "conv", "deliver", "deliver", "deliver", "deliver", "config", "hook"}).Draw(rt, "step") {
			case "import":
				if r.nextCapture < r.tr.captures() {
					r.stepImport()
				}
			case "tag":
				r.stepTag()
			case "mark":
				hasMark := false
				for _, n := range r.existingTags() {
					if strings.HasPrefix(n, "mark/") {
						hasMark = true
					}
				}
				if hasMark {
					r.stepMark()
				}
			case "conv":
				if len(r.existingTags()) != 0 {
					r.stepConv()
				}
			case "deliver":
				if len(e.parkedKinds()) != 0 {
					r.stepDeliver()
				}
			case "config":
				v := rapid.Bool().Draw(rt, "autolimit")
				if r.apiCall(fmt.Sprintf("SetConfig(%v)", v), func() error { return e.mgr.SetConfig(Config{AutoInsertLimitToQuery: v}) }) == nil {
					ack.config.AutoInsertLimitToQuery = v
				}
			case "hook":
				u := rapid.SampledFrom([]string{"http://127.0.0.1:1/a", "http://127.0.0.1:1/b"}).Draw(rt, "hook")
				if rapid.Bool().Draw(rt, "addhook") {
					r.apiCall("AddWebhook("+u+")", func() error { return e.mgr.AddPcapProcessorWebhook(u) })
				} else {
					r.apiCall("DelWebhook("+u+")", func() error { return e.mgr.DelPcapProcessorWebhook(u) })
				}
			}
			c.Trace(t)
			if err := e.sync(); err != nil {
				e.close()
				r.fatalf("%v", err)
			}
			if os.Getenv("VERIF_DEBUG_TAGS") != "" {
				tags, next, _ := c11State(e)
				fmt.Fprintf(os.Stderr, "AFTER %s (next=%d)\n%s", r.hist[len(r.hist)-1], next, c11Render(tags))
				for n, ts := range tags {
					fmt.Fprintf(os.Stderr, "   %s matches=%v uncertain=%v\n", n, sortedKeys(ts.matches), sortedKeys(ts.uncertain))
				}
			}
		}
		// everything acknowledged so far, and the ids of the streams of delivered imports
		c12ReadAck(r, ack)
		if ep == epochs-1 {
			break
		}
		next, err := veMakeDirs(epochDir(ep + 1))
		if err != nil {
			e.close()
			rt.Fatalf("dirs: %v", err)
		}
		if rapid.IntRange(0, 3).Draw(rt, "clean") == 0 {
			// clean shutdown: let everything finish first
			r.settleAll(400)
			c12ReadAck(r, ack)
			e.close()
			r.log("close")
			if err := copyTree(d.base, next.base); err != nil {
				rt.Fatalf("copy: %v", err)
			}
		} else {
			parked := e.parkedKinds()
			if e.parkedCount("import") > 0 {
				// the parked job took the whole queue that existed when it started; its index files are on disk
				_ = e.inLoop(func() {
					r.maybeQueue = append(r.maybeQueue, e.mgr.importJobs...)
				})
			}
			if err := copyTree(d.base, next.base); err != nil {
				e.close()
				rt.Fatalf("copy: %v", err)
			}
			e.close()
			crashes++
			if len(parked) != 0 {
				crashWithParked++
			}
			r.log("crash (parked: %v)", parked)
			n := len(r.hist)
			c12Damage(rt, next, &r.hist)
			if len(r.hist) > n {
				damaged++
			}
			r.pendingImports = nil
		}
		d = next
	}
	// converge: settle, then the C06 oracle must hold for all tags
	r.settleAll(400)
	var msg string
	// (converter output is not asserted here: a crash between an import's index file and its registration leaves
	// output of the older payload in the cache, which neither C12's nor C16's text covers)
	_ = r.e.inLoop(func() { msg = r.e.checkTagsInLoop(nil) })
	if msg != "" {
		r.e.close()
		r.fatalf("after the last restart and settling: %s", msg)
	}
	// the restarted service holds and deletes index files like a fresh one (C13 across a restart); partial files
	// planted by the crash damage are not served and stay
	if damaged == 0 {
		r.checkFilesAndLocks()
	}
	r.e.close()
	c.Count("crashes", crashes)
	c.Count("crashes_with_parked_jobs", crashWithParked)
	c.Count("damaged_copies", damaged)
	c.LabelIf(crashWithParked > 0, "crash-between-job-file-ops-and-registration")
	c.LabelIf(damaged > 0, "partial-files-present")
	c.LabelIf(crashes == 0, "clean-restarts-only")
	if crashWithParked > 0 || damaged > 0 {
		c.NonTrivial(strings.Join(r.hist, ";") + fmt.Sprint(r.tr.brief()))
	}
}

func TestVerifC12(t *testing.T) {
	open := vlib.OpenFindings()
	vlib.Check(t, "C12", func(rt *rapid.T, c *vlib.Case) { c12Prop(rt, c, t, open) })
}

var _ = sort.Strings
var _ = time.Second

// c12FixedCase: regression cases of repaired findings.
func c12FixedCase(name string) (string, any) {
	switch name {
	case "F-C12-duplicate-stream-after-crash-queue":
		base, err := os.MkdirTemp("", "c12f-")
		if err != nil {
			return "setup: " + err.Error(), nil
		}
		defer os.RemoveAll(base)
		d, err := veMakeDirs(filepath.Join(base, "e0"))
		if err != nil {
			return "setup: " + err.Error(), nil
		}
		tr := &veTraffic{Base: time.Date(2024, 1, 2, 13, 0, 0, 0, time.UTC)}
		tr.Flows = []veFlow{{"10.0.0.1", "10.0.0.2", 1000, 80}, {"10.0.0.3", "10.0.0.2", 1001, 80}, {"10.0.0.3", "10.0.0.2", 1002, 443}}
		s := time.Second
		tr.Packets = []vePacket{{0, 0, 9 * s, "aabb"}, {1, 0, 10 * s, "cc"}, {2, 0, 11 * s, "cc"}, {0, 1, 20 * s, "aa"}, {2, 0, 29 * s, ""}, {1, 0, 38 * s, ""}, {2, 1, 38*s + 60*time.Millisecond, "bb"}, {2, 0, 42*s + 60*time.Millisecond, "aabb"}}
		tr.Cuts = []int{0, 2, 4, 6, 7, 8}
		hist := []string{}
		e, err := veStart(d, false)
		if err != nil {
			return "setup: " + err.Error(), nil
		}
		imp := func(e *veEngine, d veDirs, caps ...int) error {
			var names []string
			for _, c := range caps {
				delete(tr.Written, c)
				n, err := tr.writeCapture(d, c)
				if err != nil {
					return err
				}
				names = append(names, n)
			}
			hist = append(hist, fmt.Sprintf("import %v", names))
			e.mgr.ImportPcaps(names)
			return e.sync()
		}
		if err := imp(e, d, 0, 4); err != nil {
			e.close()
			return err.Error(), hist
		}
		if err := imp(e, d, 3, 1); err != nil {
			e.close()
			return err.Error(), hist
		}
		d2, _ := veMakeDirs(filepath.Join(base, "e1"))
		if err := copyTree(d.base, d2.base); err != nil {
			e.close()
			return "setup: " + err.Error(), hist
		}
		hist = append(hist, "crash (import of c0,c4 parked, c3,c1 queued)")
		e.close()
		if e, err = veStart(d2, false); err != nil {
			return "restart failed: " + err.Error(), hist
		}
		defer e.close()
		if err := e.sync(); err != nil {
			return err.Error(), hist
		}
		if err := imp(e, d2, 2); err != nil {
			return err.Error(), hist
		}
		if _, err := e.settle(100, nil); err != nil {
			return err.Error(), hist
		}
		hist = append(hist, "settle")
		v := e.mgr.GetView()
		seen := map[string]uint64{}
		msg := ""
		_ = v.AllStreams(context.Background(), func(sc StreamContext) error {
			st := sc.Stream()
			key, _ := c12Canon(fmt.Sprintf("%s:%d>%s:%d", st.ClientHostIP(), st.ClientPort, st.ServerHostIP(), st.ServerPort), "")
			if other, dup := seen[key]; dup {
				msg = fmt.Sprintf("connection %s is visible twice (streams %d and %d)", key, other, st.ID())
			}
			seen[key] = st.ID()
			return nil
		})
		v.Release()
		_ = e.inLoop(func() {})
		return msg, hist
	case "F-C12-unindexed-capture-in-front-of-stream":
		// a flow in three captures; the middle one is imported (its completion is parked), the first one is queued,
		// the process is killed. After the restart the stream known from the middle capture starts with the server's
		// datagram. The import of the third capture replays the first capture, which was never indexed: the stream
		// now starts with the client's datagram and client and server swap
		base, err := os.MkdirTemp("", "c12f-")
		if err != nil {
			return "setup: " + err.Error(), nil
		}
		defer os.RemoveAll(base)
		d, err := veMakeDirs(filepath.Join(base, "e0"))
		if err != nil {
			return "setup: " + err.Error(), nil
		}
		tr := &veTraffic{Base: time.Date(2024, 1, 2, 13, 0, 0, 0, time.UTC)}
		tr.Flows = []veFlow{{"10.0.0.1", "10.0.0.2", 1001, 80}}
		s := time.Second
		tr.Packets = []vePacket{{0, 0, 1 * s, "aa"}, {0, 1, 19 * s, "zz"}, {0, 0, 42 * s, "cc"}}
		tr.Cuts = []int{0, 1, 2, 3}
		hist := []string{}
		e, err := veStart(d, false)
		if err != nil {
			return "setup: " + err.Error(), nil
		}
		imp := func(e *veEngine, d veDirs, c int) error {
			delete(tr.Written, c)
			n, err := tr.writeCapture(d, c)
			if err != nil {
				return err
			}
			hist = append(hist, "import "+n)
			e.mgr.ImportPcaps([]string{n})
			return e.sync()
		}
		for _, c := range []int{1, 0} {
			if err := imp(e, d, c); err != nil {
				e.close()
				return err.Error(), hist
			}
		}
		d2, _ := veMakeDirs(filepath.Join(base, "e1"))
		if err := copyTree(d.base, d2.base); err != nil {
			e.close()
			return "setup: " + err.Error(), hist
		}
		hist = append(hist, "crash (import of c1 parked, c0 queued)")
		e.close()
		if e, err = veStart(d2, false); err != nil {
			return "restart failed: " + err.Error(), hist
		}
		defer e.close()
		if err := e.sync(); err != nil {
			return err.Error(), hist
		}
		hist = append(hist, "AddTag tag/b cport:1001")
		if err := e.mgr.AddTag("tag/b", "#fff", "cport:1001"); err != nil {
			return err.Error(), hist
		}
		if _, err := e.settle(100, nil); err != nil {
			return err.Error(), hist
		}
		if err := imp(e, d2, 2); err != nil {
			return err.Error(), hist
		}
		if _, err := e.settle(100, nil); err != nil {
			return err.Error(), hist
		}
		hist = append(hist, "settle")
		msg := ""
		if err := e.inLoop(func() { msg = e.checkTagsInLoop(nil) }); err != nil {
			return err.Error(), hist
		}
		return msg, hist
	}
	return "unknown fixed case", name
}

func TestVerifC12Fixed(t *testing.T) {
	vlib.Fixed(t, "C12", []string{"F-C12-duplicate-stream-after-crash-queue", "F-C12-unindexed-capture-in-front-of-stream"}, c12FixedCase)
}
