package manager

// Scenario driver shared by C06, C09, C10, C13 and C16: a generated history of
// imports, tag calls, converter attach/detach, views, and *deliveries of
// parked background job completions* (the harness owns the schedule), with the
// property's invariants evaluated after every step. DESIGN.md §4.6, §5.

import (
	"bytes"
	"context"
	"fmt"
	"github.com/gopacket/gopacket"
	"github.com/gopacket/gopacket/layers"
	"github.com/gopacket/gopacket/pcapgo"
	"io"
	"log"
	"net"
	"os"
	"path/filepath"
	"slices"
	"sort"
	"strings"
	"sync"
	"testing"
	"time"

	"github.com/spq/pkappa2/internal/index"
	"github.com/spq/pkappa2/internal/query"
	"github.com/spq/pkappa2/internal/verif/vidx"
	"github.com/spq/pkappa2/internal/verif/vlib"
	"github.com/spq/pkappa2/internal/verif/vq"
	"pgregory.net/rapid"
)

var (
	vsPayloads = []string{"aa", "bb", "cc", "aab", "x5y", "dd", "zz", "aabb", "", "x7y"}
	// datagrams of a fat flow: its stream does not fit into the pipe to a converter process
	vsFatPayloads = []string{"x7y" + strings.Repeat("k", 1397), "aab" + strings.Repeat("k", 1397), strings.Repeat("k", 1398) + "bb"}
	vsTagNames    = []string{"tag/a", "tag/b", "tag/c", "tag/d", "service/s", "mark/m"}
	vsPlain       = []string{
		"cport:1000", "cport:1001:1003", "sport:80", "sport:443", "cbytes:4:", "sbytes:1:", "bytes:6:", "chost:10.0.0.1", "shost:10.0.0.2/31",
		"protocol:udp", "protocol:tcp", `ftime:"2024-01-02 130010:"`, `ltime:":2024-01-02 130030"`, `time:"2024-01-02 130005:2024-01-02 130020"`,
		"cbytes:@sbytes@:", "ltime:@ftime@+5s:",
	}
	vsData = []string{"cdata:aa", "sdata:bb", "data:cc", "cdata:aa then sdata:bb", "-cdata:aa", "cdata:a+b", "sdata:x[0-9]y", "cdata.none:aa", "-sdata:bb cport:1000:1002"}
	vsConv = []string{"data.cva:AA", "cdata.cva:CVA:AA", "-data.cva:BB", "sdata.cva:BB"}
	vsIDs  = []string{"id:0,2", "id:1:", "id:3:5", "id:0", "id:2,4,6"}
	vsRefs = []string{"tag:%s", "-tag:%s", "tag:%s sport:80", "tag:%s or cport:1001", "tag:%s cdata:aa"}
	// definitions with a sub-query (the name q is replaced by one that is unique per tag: definitions of pending tags
	// are inlined into searches without renaming their sub-queries)
	vsSub = []string{"@q:cport:1000 sport:@q:sport@", "@q:cbytes:4: id:@q:id@+1:", "@q:sport:443 chost:@q:chost@", "@q:cdata:aa cport:@q:cport@:",
		"-@q:sport:80 ftime:@q:ftime@:", "@q:cport:1001:1002 -id:@q:id@ sbytes:@q:sbytes@:"}
)

type vsConfig struct {
	focus      string // property id
	converters []string
	// step weights
	wImport, wTag, wMark, wConv, wView, wDeliver, wReset int
	wRecreate                                            int
}

type vsView struct {
	v        View
	opened   bool
	baseline *veViewAnswer
	queries  []string
	// bookkeeping for non-triviality
	mergesAtOpen, importsAtOpen int
	usedAfterMerge              bool
	usedAfterImport             bool
}

type vsRun struct {
	rt   *rapid.T
	c    *vlib.Case
	cfg  vsConfig
	open map[string]bool
	e    *veEngine
	tr   *veTraffic
	hist []string

	nextCapture int
	brokenFiles int
	svcLog      *veLogBuffer
	// a call that does not return or work that does not settle ends the case as inconclusive instead of failing it
	hangInconclusive bool
	lazyViews        int
	snapFaults       int
	mergeFaults      int
	views            [2]*vsView
	mergesDone       int
	importsDone      int
	tagDelivers      int
	// per delivered import: captures that were part of it (for C10a)
	deliveredCaptures map[int]bool
	pendingImports    [][]int // queue of capture index lists in ImportPcaps order
	invalWhileTagJob  int
	kindsDelivered    map[string]bool
	maxParked         int
	heldAcrossMerge   bool
	streamExtended    bool
	extendedAfterConv bool
	convDone          map[string]map[uint64]bool
	detached          map[string]int  // converter -> side log length at detach+quiescence (unused when <0)
	importedFiles     map[string]bool // captures whose import completion was delivered
	maybeFiles        map[string]bool // unused
	maybeQueue        []string        // import queue when a crash copy was taken with an import job parked
	startedHeld       int             // jobs that were held before their body and started later
	lastDefs          map[string]string
	outOfOrder        bool // a capture arrived before an earlier one
	convMayBeStale    bool // an import was delivered while a converter job was in flight: the job works on an older copy of the index files, its output for changed streams is dropped when its completion is delivered
}

func (r *vsRun) log(f string, a ...any) {
	r.hist = append(r.hist, fmt.Sprintf(f, a...))
}

func (r *vsRun) fatalf(f string, a ...any) {
	r.rt.Fatalf("%s\nhistory: %s", fmt.Sprintf(f, a...), strings.Join(r.hist, " | "))
}

// genTraffic draws 3-8 UDP flows whose datagrams are interleaved and cut into 2-5 captures.
func vsGenTraffic(rt *rapid.T) *veTraffic {
	tr := &veTraffic{Base: time.Date(2024, 1, 2, 13, 0, 0, 0, time.UTC)}
	nf := rapid.IntRange(3, 8).Draw(rt, "flows")
	// now and then the number of streams sits on or next to a multiple of 64 (the word size of the bitmaps
	// the service keeps per tag): many single-datagram flows
	many := rapid.IntRange(0, 15).Draw(rt, "manyflows") == 0
	if many {
		nf = rapid.SampledFrom([]int{63, 64, 64, 65, 127, 128, 128}).Draw(rt, "flows64")
	}
	for i := 0; i < nf; i++ {
		tr.Flows = append(tr.Flows, veFlow{
			Client: rapid.SampledFrom([]string{"10.0.0.1", "10.0.0.3"}).Draw(rt, "client"), Server: "10.0.0.2",
			CPort: uint16(1000 + i), SPort: uint16(rapid.SampledFrom([]int{80, 443}).Draw(rt, "sport")),
		})
	}
	np := rapid.IntRange(nf, max(26, nf+6)).Draw(rt, "packets")
	if many {
		np = nf + rapid.IntRange(0, 6).Draw(rt, "extrapackets")
	}
	off := time.Duration(0)
	seen := map[int]bool{}
	for i := 0; i < np; i++ {
		if many {
			// keep the whole scenario far below the 5 minute idle timeout of the importer
			off += time.Duration(rapid.SampledFrom([]int{1, 20, 60, 1000}).Draw(rt, "gapms")) * time.Millisecond
		} else {
			off += time.Duration(rapid.SampledFrom([]int{1, 20, 60, 1000, 4000, 9000}).Draw(rt, "gapms")) * time.Millisecond
		}
		fl := rapid.IntRange(0, nf-1).Draw(rt, "flow")
		if i < nf {
			fl = i // every flow appears
		}
		dir := 0
		if seen[fl] {
			dir = rapid.IntRange(0, 1).Draw(rt, "dir")
		}
		seen[fl] = true
		tr.Packets = append(tr.Packets, vePacket{Flow: fl, Dir: dir, Off: off, Payload: rapid.SampledFrom(vsPayloads).Draw(rt, "payload")})
	}
	// now and then one flow is fat: more data than the pipe to a converter process holds (64 KiB), so the service
	// is still sending when the converter answers, misbehaves or dies
	if !many && rapid.IntRange(0, 15).Draw(rt, "fatflow") == 0 {
		fl := rapid.IntRange(0, nf-1).Draw(rt, "fat")
		body := rapid.SampledFrom(vsFatPayloads).Draw(rt, "fatpayload")
		first := rapid.SampledFrom([]string{body, body, "aa"}).Draw(rt, "fatfirst")
		n := rapid.IntRange(50, 70).Draw(rt, "fatpackets")
		for i := 0; i < n; i++ {
			off += time.Millisecond
			pl := body
			if i == 0 {
				pl = first
			}
			tr.Packets = append(tr.Packets, vePacket{Flow: fl, Dir: 0, Off: off, Payload: pl})
		}
		tr.Fat = true
		np = len(tr.Packets)
	}
	nc := rapid.IntRange(2, 5).Draw(rt, "captures")
	if nc > np {
		nc = np
	}
	cuts := map[int]bool{}
	for len(cuts) < nc-1 {
		cuts[rapid.IntRange(1, np-1).Draw(rt, "cut")] = true
	}
	tr.Cuts = []int{0}
	for c := range cuts {
		tr.Cuts = append(tr.Cuts, c)
	}
	tr.Cuts = append(tr.Cuts, np)
	sort.Ints(tr.Cuts)
	tr.Imported = map[int]bool{}
	return tr
}

func (r *vsRun) existingTags() []string {
	var names []string
	_ = r.e.inLoop(func() {
		for n := range r.e.mgr.tags {
			names = append(names, n)
		}
	})
	sort.Strings(names)
	return names
}

func (r *vsRun) genDef(name string, existing []string) string {
	rt := r.rt
	if strings.HasPrefix(name, "mark/") {
		return rapid.SampledFrom(vsIDs).Draw(rt, "markdef")
	}
	// liveness only (C09): a definition whose evaluation fails every time (it names a converter that does not exist);
	// the tag must end up decided all the same instead of being evaluated again and again
	if r.e != nil && r.cfg.focus == "C09" && name != "tag/d" && rapid.IntRange(0, 19).Draw(rt, "failingdef") == 0 {
		return "cdata.nope:aa"
	}
	pools := [][]string{vsPlain, vsPlain, vsData, vsData}
	// definitions with a sub-query are kept apart: only tag/d gets them and no other tag refers to tag/d, so that
	// neither a negation above a pending sub-query tag nor a sub-query inside a sub-query can arise (open findings
	// F-C06-negated-pending-subquery-tag, F-C06-nested-subquery-tags)
	if name == "tag/d" {
		pools = [][]string{vsSub, vsSub, vsPlain}
		var marks []string
		for _, n := range existing {
			if strings.HasPrefix(n, "mark/") {
				marks = append(marks, n)
			}
		}
		if len(marks) != 0 && rapid.IntRange(0, 2).Draw(rt, "submark") == 0 {
			_, sub, _ := strings.Cut(rapid.SampledFrom(marks).Draw(rt, "submarktag"), "/")
			// the same mark may be used by the main query and by the sub-query of one definition
			return strings.ReplaceAll(rapid.SampledFrom([]string{"@qtd:mark:M sport:@qtd:sport@", "-mark:M @qtd:mark:M sport:@qtd:sport@", "mark:M @qtd:mark:M -id:@qtd:id@ chost:@qtd:chost@"}).Draw(rt, "submarktmpl"), "M", sub)
		}
		return strings.ReplaceAll(rapid.SampledFrom(rapid.SampledFrom(pools).Draw(rt, "pool")).Draw(rt, "def"), "@q:", "@qtd:")
	}
	if !r.open["F-C06-id-only-tags"] {
		pools = append(pools, vsIDs)
	}
	if len(r.cfg.converters) != 0 && !r.open["F-C06-converter-reset-stale"] {
		pools = append(pools, vsConv)
	}
	var others []string
	for _, n := range existing {
		if n != name && n != "tag/d" {
			others = append(others, n)
		}
	}
	if len(others) != 0 && rapid.IntRange(0, 2).Draw(rt, "ref") == 0 {
		o := rapid.SampledFrom(others).Draw(rt, "reftag")
		if r.open["F-C06-nested-subquery-tags"] && r.referencedInSubQuery(name) && r.subQueryTag(o) {
			if r.c != nil {
				r.c.Count("excluded_known", 1)
				r.c.Label("steered:F-C06-nested-subquery-tags")
			}
			return "cport:1001:1003"
		}
		typ, sub, _ := strings.Cut(o, "/")
		tmpl := rapid.SampledFrom(vsRefs).Draw(rt, "reftmpl")
		if r.open["F-C06-nested-subquery-tags"] && strings.HasPrefix(tmpl, "@q:") && r.subQueryTag(o) {
			// a tag filter inside a sub-query on a tag whose own definition uses a sub-query cannot be inlined (open finding)
			if r.c != nil {
				r.c.Count("excluded_known", 1)
				r.c.Label("steered:F-C06-nested-subquery-tags")
			}
			tmpl = "tag:%s sport:80"
		}
		if r.open["F-C06-negated-pending-subquery-tag"] && strings.HasPrefix(tmpl, "-") && r.subQueryTag(o) {
			// the negation of a pending tag whose definition uses a sub-query is answered wrongly (open finding)
			if r.c != nil {
				r.c.Count("excluded_known", 1)
				r.c.Label("steered:F-C06-negated-pending-subquery-tag")
			}
			tmpl = tmpl[1:]
		}
		return strings.ReplaceAll(fmt.Sprintf(strings.Replace(tmpl, "tag:", typ+":", 1), sub), "@q:", "@q"+strings.NewReplacer("/", "", "tag", "t", "service", "s", "mark", "m").Replace(name)+":")
	}
	def := rapid.SampledFrom(rapid.SampledFrom(pools).Draw(rt, "pool")).Draw(rt, "def")
	if r.open["F-C02-negated-sequence-across-converter-outputs"] && len(r.cfg.converters) != 0 && strings.Contains(def, " then ") {
		// a payload sequence in a definition: negated references to it (directly or through other tags) are
		// answered wrongly while it is pending and a converter has produced output (open finding)
		if r.c != nil {
			r.c.Count("excluded_known", 1)
			r.c.Label("steered:F-C02-negated-sequence-across-converter-outputs")
		}
		def = "cdata:aa sdata:bb"
	}
	return strings.ReplaceAll(def, "@q:", "@q"+strings.NewReplacer("/", "", "tag", "t", "service", "s", "mark", "m").Replace(name)+":")
}

// referencedInSubQuery reports whether some tag filters on the named tag (or on a tag whose definition leads
// to it) from inside a sub-query.
func (r *vsRun) referencedInSubQuery(name string) bool {
	if r.e == nil {
		return false // script generation without a running service (kill campaign): tag/d is never referenced there either
	}
	var defs map[string]string
	_ = r.e.inLoop(func() {
		defs = map[string]string{}
		for n, t := range r.e.mgr.tags {
			defs[n] = t.definition
		}
	})
	// tags reachable from a sub-query reference
	reach := map[string]bool{}
	var walk func(n string)
	walk = func(n string) {
		if reach[n] {
			return
		}
		reach[n] = true
		if q, err := query.Parse(defs[n]); err == nil {
			f := q.Conditions.Features()
			for _, ref := range append(append([]string{}, f.MainTags...), f.SubQueryTags...) {
				walk(ref)
			}
		}
	}
	for _, d := range defs {
		if q, err := query.Parse(d); err == nil {
			for _, ref := range q.Conditions.Features().SubQueryTags {
				walk(ref)
			}
		}
	}
	return reach[name]
}

// subQueryTag reports whether the definition of the tag, or of a tag it refers to, uses a sub-query.
func (r *vsRun) subQueryTag(name string) bool {
	if r.e == nil {
		return name == "tag/d"
	}
	var defs map[string]string
	_ = r.e.inLoop(func() {
		defs = map[string]string{}
		for n, t := range r.e.mgr.tags {
			defs[n] = t.definition
		}
	})
	seen := map[string]bool{}
	var walk func(n string) bool
	walk = func(n string) bool {
		if seen[n] {
			return false
		}
		seen[n] = true
		q, err := query.Parse(defs[n])
		if err != nil {
			return false
		}
		f := q.Conditions.Features()
		if f.SubQueryFeatures != 0 || len(f.SubQueryTags) != 0 {
			return true
		}
		for _, ref := range f.MainTags {
			if walk(ref) {
				return true
			}
		}
		return false
	}
	return walk(name)
}

// tagJobInFlight reports whether a tagging job is between begin and delivery.
func (r *vsRun) tagJobInFlight() bool { return r.e.parkedCount("tag") > 0 }

func (r *vsRun) noteInvalidation() {
	if r.tagJobInFlight() {
		r.invalWhileTagJob++
	}
}

func (r *vsRun) stepImport() {
	rt := r.rt
	var remaining []int
	for i := 0; i < r.tr.captures(); i++ {
		if _, ok := r.tr.Written[i]; !ok {
			remaining = append(remaining, i)
		}
	}
	if len(remaining) == 0 {
		rt.Skip("all captures imported")
	}
	k := rapid.IntRange(1, 2).Draw(rt, "ncaps")
	var names []string
	var idxs []int
	for i := 0; i < k && len(remaining) != 0; i++ {
		// mostly chronological arrival; sometimes a later capture arrives first, so that an earlier one
		// arriving afterwards resets streams
		pick := 0
		if len(remaining) > 1 && rapid.IntRange(0, 3).Draw(rt, "outoforder") == 0 {
			pick = rapid.IntRange(1, len(remaining)-1).Draw(rt, "whichcap")
			r.outOfOrder = true
		}
		ci := remaining[pick]
		remaining = append(remaining[:pick], remaining[pick+1:]...)
		n, err := r.tr.writeCapture(r.e.dirs, ci)
		if err != nil {
			r.fatalf("write capture: %v", err)
		}
		names = append(names, n)
		idxs = append(idxs, ci)
	}
	r.nextCapture = r.tr.captures() - len(remaining)
	// now and then an upload that is no capture at all (or one cut before its first packet) is queued with the others
	if rapid.IntRange(0, 7).Draw(rt, "broken") == 0 {
		r.brokenFiles++
		bn := fmt.Sprintf("broken%02d.pcap", r.brokenFiles)
		content := rapid.SampledFrom([][]byte{{}, []byte("this is not a capture file\n"), {0xd4, 0xc3, 0xb2, 0xa1, 2, 0, 4, 0, 0, 0},
			{0xd4, 0xc3, 0xb2, 0xa1, 2, 0, 4, 0, 0, 0, 0, 0, 0, 0, 0, 0, 0, 0, 1, 0, 228, 0, 0, 0, 1, 2, 3},
			// a well-formed capture without any packet (rotation during a quiet period)
			{0xd4, 0xc3, 0xb2, 0xa1, 2, 0, 4, 0, 0, 0, 0, 0, 0, 0, 0, 0, 0, 0, 1, 0, 228, 0, 0, 0},
			{0xd4, 0xc3, 0xb2, 0xa1, 2, 0, 4, 0, 0, 0, 0, 0, 0, 0, 0, 0, 0, 0, 1, 0, 228, 0, 0, 0}}).Draw(rt, "brokencontent")
		if err := os.WriteFile(filepath.Join(r.e.dirs.pcap, bn), content, 0o644); err != nil {
			r.fatalf("write broken capture: %v", err)
		}
		at := rapid.IntRange(0, len(names)).Draw(rt, "brokenpos")
		names = append(names[:at], append([]string{bn}, names[at:]...)...)
	}
	// now and then the snapshot directory is unusable while the import job runs (the job's body runs up to its
	// gate as soon as it is started): the reassembly snapshot cannot be written, everything else must go on
	snapFault := rapid.IntRange(0, 9).Draw(rt, "snapfault") == 0
	if snapFault {
		if err := os.RemoveAll(r.e.dirs.snapshot); err != nil {
			r.fatalf("remove snapshot dir: %v", err)
		}
		r.snapFaults++
		r.log("snapshot directory removed")
	}
	r.log("import %v", names)
	r.e.mgr.ImportPcaps(names)
	r.pendingImports = append(r.pendingImports, idxs)
	if snapFault {
		if err := r.e.sync(); err != nil {
			r.fatalf("%v", err)
		}
		if err := os.MkdirAll(r.e.dirs.snapshot, 0o755); err != nil {
			r.fatalf("restore snapshot dir: %v", err)
		}
		r.log("snapshot directory restored")
	}
}

// inconclusive ends a case that cannot be judged (C20: a hang is no data race; whether background work settles is
// C09's question, asked there under a schedule the harness owns). The case is counted as discarded.
func (r *vsRun) inconclusive(reason, detail string) {
	r.c.Discard(reason)
	r.c.Count("inconclusive_hangs", 1)
	fmt.Fprintf(os.Stderr, "inconclusive case (%s): %s\nhistory: %s\n", reason, detail, strings.Join(r.hist, " | "))
	r.rt.Skip("inconclusive: " + reason)
}

func (r *vsRun) apiCall(desc string, f func() error) error {
	err, hung := c11Call(f)
	if hung && r.hangInconclusive {
		r.inconclusive("call-did-not-return", desc+" did not return within 15s\n"+veBlockedGoroutines())
	}
	if hung {
		r.fatalf("%s did not return within 15s (service hangs)\nblocked goroutines of the service:\n%s", desc, veBlockedGoroutines())
	}
	if err != nil {
		r.log("%s -> error: %v", desc, err)
	} else {
		r.log("%s -> ok", desc)
	}
	return err
}

func (r *vsRun) stepTag() {
	rt := r.rt
	existing := r.existingTags()
	op := rapid.SampledFrom([]string{"add", "add", "query", "query", "del", "color"}).Draw(rt, "tagop")
	if len(existing) == 0 {
		op = "add"
	}
	switch op {
	case "add":
		name := rapid.SampledFrom(vsTagNames).Draw(rt, "tagname")
		def := r.genDef(name, existing)
		// deleting a tag and adding it again with the very same definition while its tagging job is in flight
		// makes the job's result look current
		if old, ok := r.lastDefs[name]; ok && rapid.Bool().Draw(rt, "samedef") {
			def = old
		}
		if r.apiCall(fmt.Sprintf("AddTag(%s,%q)", name, def), func() error { return r.e.mgr.AddTag(name, "#fff", def) }) == nil {
			r.noteInvalidation()
			r.lastDefs[name] = def
		}
	case "query":
		name := rapid.SampledFrom(existing).Draw(rt, "tagname")
		def := r.genDef(name, existing)
		if r.apiCall(fmt.Sprintf("UpdateTag(%s,query=%q)", name, def), func() error { return r.e.mgr.UpdateTag(name, UpdateTagOperationUpdateQuery(def)) }) == nil {
			r.noteInvalidation()
			r.lastDefs[name] = def
		}
	case "del":
		name := rapid.SampledFrom(existing).Draw(rt, "tagname")
		r.apiCall(fmt.Sprintf("DelTag(%s)", name), func() error { return r.e.mgr.DelTag(name) })
	case "color":
		name := rapid.SampledFrom(existing).Draw(rt, "tagname")
		r.apiCall(fmt.Sprintf("UpdateTag(%s,color)", name), func() error { return r.e.mgr.UpdateTag(name, UpdateTagOperationUpdateColor("#123")) })
	}
}

// stepRecreate deletes a tag and adds it again with the very same definition, then adds a tag referencing it.
// When the tagging job of the deleted tag is still in flight its result looks current for the new tag.
func (r *vsRun) stepRecreate() {
	rt := r.rt
	var cands []string
	var defs map[string]string
	inflight, inflightRefs := "", []string(nil)
	_ = r.e.inLoop(func() {
		defs = map[string]string{}
		for n, t := range r.e.mgr.tags {
			defs[n] = t.definition
			if len(t.referencedBy) == 0 && n != "tag/d" { // tag/d may get a sub-query definition and is never referenced
				cands = append(cands, n)
			}
		}
		if t, ok := r.e.mgr.tags[r.e.mgr.taggingJobTag]; ok && r.e.mgr.taggingJobRunning {
			inflight = r.e.mgr.taggingJobTag
			inflightRefs = append(inflightRefs, t.referencedTags()...)
			sort.Strings(inflightRefs)
		}
	})
	sort.Strings(cands)
	if len(cands) == 0 {
		rt.Skip("no unreferenced tag")
	}
	name := rapid.SampledFrom(cands).Draw(rt, "recreate")
	// the tag whose tagging job is in flight is the interesting one: the job must not take the new tag for its own
	if inflight != "" && slices.Contains(cands, inflight) && rapid.IntRange(0, 2).Draw(rt, "recreateinflight") > 0 {
		name = inflight
	}
	def := defs[name]
	how := "delete"
	if name == inflight {
		how = rapid.SampledFrom([]string{"delete", "delete", "redefine", "rename"}).Draw(rt, "recreatehow")
	}
	away := ""
	switch how {
	case "delete":
		if r.apiCall(fmt.Sprintf("DelTag(%s)", name), func() error { return r.e.mgr.DelTag(name) }) != nil {
			return
		}
	case "redefine":
		if r.apiCall(fmt.Sprintf("UpdateTag(%s,query=%q)", name, "id:0"), func() error { return r.e.mgr.UpdateTag(name, UpdateTagOperationUpdateQuery("id:0")) }) != nil {
			return
		}
	case "rename":
		typ, _, _ := strings.Cut(name, "/")
		away = typ + "/away"
		if r.apiCall(fmt.Sprintf("UpdateTag(%s,name=%s)", name, away), func() error { return r.e.mgr.UpdateTag(name, UpdateTagOperationUpdateName(away)) }) != nil {
			return
		}
		if r.apiCall(fmt.Sprintf("DelTag(%s)", away), func() error { return r.e.mgr.DelTag(away) }) != nil {
			r.fatalf("the renamed tag %s cannot be deleted again", away)
		}
	}
	// what the tag refers to changes while the tag is away
	if name == inflight {
		for _, ref := range inflightRefs {
			if !strings.HasPrefix(ref, "mark/") {
				continue
			}
			ids := []uint64{uint64(rapid.IntRange(0, 6).Draw(rt, "id"))}
			if rapid.Bool().Draw(rt, "markadd") {
				_ = r.apiCall(fmt.Sprintf("UpdateTag(%s,markadd=%v)", ref, ids), func() error { return r.e.mgr.UpdateTag(ref, UpdateTagOperationMarkAddStream(ids)) })
			} else {
				_ = r.apiCall(fmt.Sprintf("UpdateTag(%s,markdel=%v)", ref, ids), func() error { return r.e.mgr.UpdateTag(ref, UpdateTagOperationMarkDelStream(ids)) })
			}
		}
	}
	if how == "redefine" {
		if r.apiCall(fmt.Sprintf("UpdateTag(%s,query=%q)", name, def), func() error { return r.e.mgr.UpdateTag(name, UpdateTagOperationUpdateQuery(def)) }) != nil {
			return
		}
	} else if r.apiCall(fmt.Sprintf("AddTag(%s,%q)", name, def), func() error { return r.e.mgr.AddTag(name, "#fff", def) }) != nil {
		return
	}
	r.noteInvalidation()
	typ, sub, _ := strings.Cut(name, "/")
	for _, other := range vsTagNames {
		if _, exists := defs[other]; !exists && other != name && !strings.HasPrefix(other, "mark/") {
			refDef := fmt.Sprintf("%s:%s", typ, sub)
			r.apiCall(fmt.Sprintf("AddTag(%s,%q)", other, refDef), func() error { return r.e.mgr.AddTag(other, "#fff", refDef) })
			break
		}
	}
}

func (r *vsRun) stepMark() {
	rt := r.rt
	var marks []string
	for _, n := range r.existingTags() {
		if strings.HasPrefix(n, "mark/") {
			marks = append(marks, n)
		}
	}
	if len(marks) == 0 {
		rt.Skip("no mark tag")
	}
	name := rapid.SampledFrom(marks).Draw(rt, "mark")
	n := rapid.IntRange(1, 3).Draw(rt, "nids")
	var ids []uint64
	for i := 0; i < n; i++ {
		ids = append(ids, uint64(rapid.IntRange(0, 8).Draw(rt, "id")))
	}
	if rapid.Bool().Draw(rt, "markadd") {
		if r.apiCall(fmt.Sprintf("UpdateTag(%s,markadd=%v)", name, ids), func() error { return r.e.mgr.UpdateTag(name, UpdateTagOperationMarkAddStream(ids)) }) == nil {
			r.noteInvalidation()
		}
	} else {
		if r.apiCall(fmt.Sprintf("UpdateTag(%s,markdel=%v)", name, ids), func() error { return r.e.mgr.UpdateTag(name, UpdateTagOperationMarkDelStream(ids)) }) == nil {
			r.noteInvalidation()
		}
	}
}

func (r *vsRun) stepConv() {
	rt := r.rt
	if len(r.cfg.converters) == 0 {
		rt.Skip("no converters")
	}
	existing := r.existingTags()
	if len(existing) == 0 {
		rt.Skip("no tags")
	}
	name := rapid.SampledFrom(existing).Draw(rt, "tagname")
	sets := [][]string{{}, {r.cfg.converters[0]}}
	if len(r.cfg.converters) > 1 {
		sets = append(sets, []string{r.cfg.converters[1]}, r.cfg.converters)
	}
	set := rapid.SampledFrom(sets).Draw(rt, "convset")
	if r.apiCall(fmt.Sprintf("UpdateTag(%s,converters=%v)", name, set), func() error { return r.e.mgr.UpdateTag(name, UpdateTagOperationSetConverter(set)) }) == nil {
		r.noteInvalidation()
	}
}

func (r *vsRun) stepReset() {
	rt := r.rt
	if len(r.cfg.converters) == 0 {
		rt.Skip("no converters")
	}
	cn := rapid.SampledFrom(r.cfg.converters).Draw(rt, "conv")
	r.apiCall(fmt.Sprintf("ResetConverter(%s)", cn), func() error {
		return r.e.mgr.ResetConverter(filepath.Join(r.e.dirs.converter, cn))
	})
}

func (r *vsRun) stepDeliver() {
	rt := r.rt
	ks := r.e.parkedKinds()
	if len(ks) == 0 {
		rt.Skip("nothing parked")
	}
	if len(ks) > r.maxParked {
		r.maxParked = len(ks)
	}
	k := ks[rapid.IntRange(0, len(ks)-1).Draw(rt, "which")]
	r.deliverKind(k)
}

// stepMergeFault makes merges fail (or work again): the directory the merge job writes its output to is
// switched to one that does not exist - the disk-full / read-only situation. Imports are not affected (the
// importer has its own copy of the path). A failed merge must leave everything as it was and must not be
// retried for ever.
func (r *vsRun) stepMergeFault() {
	broken := false
	_ = r.e.inLoop(func() {
		if r.e.mgr.IndexDir == r.e.dirs.index {
			r.e.mgr.IndexDir = filepath.Join(r.e.dirs.base, "no-such-directory") + "/"
			broken = true
		} else {
			r.e.mgr.IndexDir = r.e.dirs.index
		}
	})
	if broken {
		r.mergeFaults++
		r.log("merges fail from now on")
	} else {
		r.log("merges work again")
	}
}

// stepHold arranges that the next job of a kind is held before its body runs.
func (r *vsRun) stepHold() {
	k := rapid.SampledFrom(veKinds).Draw(r.rt, "holdkind")
	r.e.mu.Lock()
	r.e.holdNext[k] = true
	r.e.mu.Unlock()
	r.log("hold next %s", k)
}

// stepStart lets a held job run its body (it then parks at its gate).
func (r *vsRun) stepStart() {
	hk := r.e.heldKinds()
	if len(hk) == 0 {
		r.rt.Skip("nothing held")
	}
	k := hk[rapid.IntRange(0, len(hk)-1).Draw(r.rt, "whichheld")]
	r.log("start %s", k)
	if _, err := r.e.start(k); err != nil {
		r.fatalf("start %s: %v", k, err)
	}
	r.startedHeld++
}

func (r *vsRun) deliverKind(k string) {
	if k == "import" || k == "convert" {
		r.noteInvalidation()
	}
	heldBefore := r.views[0].opened || r.views[1].opened || len(r.e.parkedKinds()) > 1
	var idxBefore []string
	if k == "merge" {
		_ = r.e.inLoop(func() {
			for _, i := range r.e.mgr.indexes {
				idxBefore = append(idxBefore, i.Filename())
			}
		})
	}
	var queueBefore []string
	if k == "import" {
		_ = r.e.inLoop(func() { queueBefore = append([]string{}, r.e.mgr.importJobs...) })
	}
	r.log("deliver %s", k)
	if _, err := r.e.deliver(k); err != nil {
		r.fatalf("deliver %s: %v", k, err)
	}
	r.kindsDelivered[k] = true
	switch k {
	case "convert":
		r.convMayBeStale = false
	}
	switch k {
	case "import":
		if r.e.parkedCount("convert") > 0 {
			r.convMayBeStale = true
		}
		r.importsDone++
		var queueAfter int
		_ = r.e.inLoop(func() { queueAfter = len(r.e.mgr.importJobs) })
		if r.importedFiles == nil {
			r.importedFiles = map[string]bool{}
		}
		// the job that was delivered may already have been followed by the start of the next one, which takes
		// the rest of the queue but removes nothing before its own completion
		for _, n := range queueBefore[:len(queueBefore)-queueAfter] {
			r.importedFiles[n] = true
		}
		// an import job takes the whole queue present when it starts
		if len(r.pendingImports) != 0 {
			// which captures were processed is read from the builder below (known pcaps)
			r.pendingImports = nil
		}
		for _, v := range r.views {
			if v.opened {
				v.usedAfterImport = false
			}
		}
	case "merge":
		var idxAfter []string
		_ = r.e.inLoop(func() {
			for _, i := range r.e.mgr.indexes {
				idxAfter = append(idxAfter, i.Filename())
			}
		})
		if fmt.Sprint(idxBefore) != fmt.Sprint(idxAfter) {
			r.mergesDone++
			if heldBefore {
				r.heldAcrossMerge = true
			}
		}
	case "tag":
		r.tagDelivers++
	}
}

// settleAll delivers parked jobs oldest first through deliverKind (which keeps the bookkeeping) until quiescence.
func (r *vsRun) settleAll(bound int) {
	for n := 0; ; n++ {
		if hk := r.e.heldKinds(); len(hk) != 0 {
			r.log("start %s", hk[0])
			if _, err := r.e.start(hk[0]); err != nil {
				r.fatalf("%v", err)
			}
			continue
		}
		ks := r.e.parkedKinds()
		if len(ks) == 0 {
			f, err := r.e.flags()
			if err != nil {
				r.fatalf("%v", err)
			}
			if !f.imp && !f.tag && !f.merge && !f.conv {
				return
			}
			if err := r.e.sync(); err != nil {
				r.fatalf("%v", err)
			}
			continue
		}
		if n >= bound {
			r.fatalf("no quiescence after %d deliveries (still parked: %v)", n, ks)
		}
		r.deliverKind(ks[0])
	}
}

func (r *vsRun) stepView() {
	rt := r.rt
	slot := rapid.IntRange(0, 1).Draw(rt, "slot")
	v := r.views[slot]
	switch {
	case !v.opened:
		v.v = r.e.mgr.GetView()
		if _, err := v.v.ReferenceTime(); err != nil {
			r.fatalf("opening a view failed: %v", err)
		}
		v.opened = true
		v.queries = []string{"sport:80", "cdata:aa", "cbytes:1: sort:id"}
		if r.cfg.focus == "C10" {
			// the view's answers about tags belong to the snapshot as well (tag filters, both polarities of marks)
			var defs map[string]string
			_ = r.e.inLoop(func() {
				defs = map[string]string{}
				for n, t := range r.e.mgr.tags {
					defs[n] = t.definition
				}
			})
			names := make([]string, 0, len(defs))
			for n := range defs {
				names = append(names, n)
			}
			sort.Strings(names)
			for _, n := range names {
				q, err := query.Parse(defs[n])
				if err != nil {
					continue
				}
				f := q.Conditions.Features()
				if r.open["F-C06-inlined-tag-reference-time"] && (f.MainFeatures|f.SubQueryFeatures)&(query.FeatureFilterTimeAbsolute|query.FeatureFilterTimeRelative) != 0 {
					continue // a pending tag with a time filter is evaluated against the searching query's clock (open finding)
				}
				if len(f.MainTags)+len(f.SubQueryTags) != 0 || f.SubQueryFeatures != 0 {
					continue // keep to tags that are answered from their own bits or definition
				}
				typ, sub, _ := strings.Cut(n, "/")
				v.queries = append(v.queries, typ+":"+sub+" sort:id")
				if typ == "mark" {
					v.queries = append(v.queries, "-"+typ+":"+sub+" sort:id")
				}
			}
		}
		v.mergesAtOpen, v.importsAtOpen = r.mergesDone, r.importsDone
		v.usedAfterMerge, v.usedAfterImport = false, false
		if r.cfg.focus == "C10" && rapid.IntRange(0, 2).Draw(rt, "lazyview") == 0 {
			// a view that is opened but asked nothing yet: what it answers later must be what a second view, opened
			// right behind it (nothing runs in the service in between) and read at once, answered
			twin := r.e.mgr.GetView()
			if _, err := twin.ReferenceTime(); err != nil {
				r.fatalf("opening a view failed: %v", err)
			}
			ans, err := veUseView(&twin, v.queries)
			twin.Release()
			_ = r.e.inLoop(func() {})
			if err != nil {
				r.fatalf("view %d: read of its twin failed: %v", slot, err)
			}
			v.baseline = ans
			r.lazyViews++
			r.log("open view %d (asked nothing yet)", slot)
			return
		}
		ans, err := veUseView(&v.v, v.queries)
		if err != nil {
			r.fatalf("view %d: first read failed: %v", slot, err)
		}
		v.baseline = ans
		r.log("open view %d", slot)
		r.checkViewComplete(v)
	case rapid.IntRange(0, 2).Draw(rt, "release") == 0:
		r.log("release view %d", slot)
		v.v.Release()
		v.opened = false
		// Release posts a closure; make sure it ran
		_ = r.e.inLoop(func() {})
	default:
		r.useView(slot)
	}
}

func (r *vsRun) useView(slot int) {
	v := r.views[slot]
	r.log("use view %d", slot)
	ans, err := veUseView(&v.v, v.queries)
	if err != nil {
		if r.cfg.focus == "C13" || r.cfg.focus == "C10" {
			r.fatalf("a read through held view %d failed: %v", slot, err)
		}
		return
	}
	if r.mergesDone > v.mergesAtOpen {
		v.usedAfterMerge = true
	}
	if r.importsDone > v.importsAtOpen {
		v.usedAfterImport = true
	}
	if r.cfg.focus == "C10" {
		if ans.streams != v.baseline.streams {
			r.fatalf("view %d no longer gives the same streams as when it was opened:\nfirst:\n%snow:\n%s", slot, v.baseline.streams, ans.streams)
		}
		for i := range ans.search {
			if ans.search[i] != v.baseline.search[i] {
				r.fatalf("view %d: search %q returned [%s] when opened and [%s] now", slot, v.queries[i], v.baseline.search[i], ans.search[i])
			}
		}
	}
}

// expectedStreams computes, from the traffic model, what a complete view over
// the imported captures must contain: connection key -> per direction payload and runs.
func (r *vsRun) expectedStreams(imported map[string]bool) map[string]string {
	exp := map[string][]vePacket{}
	for ci := 0; ci < r.tr.captures(); ci++ {
		name := fmt.Sprintf("cap%02d.pcap", ci)
		if !imported[name] {
			continue
		}
		for _, p := range r.tr.Packets[r.tr.Cuts[ci]:r.tr.Cuts[ci+1]] {
			f := r.tr.Flows[p.Flow]
			key := fmt.Sprintf("%s:%d>%s:%d", f.Client, f.CPort, f.Server, f.SPort)
			exp[key] = append(exp[key], p)
		}
	}
	out := map[string]string{}
	for key, ps := range exp {
		sort.Slice(ps, func(i, j int) bool { return ps[i].Off < ps[j].Off })
		// orientation: the first datagram seen (among imported captures) defines the client
		flip := ps[0].Dir == 1
		var runs []string
		for _, p := range ps {
			if p.Payload == "" {
				continue
			}
			d := p.Dir
			if flip {
				d = 1 - d
			}
			if n := len(runs); n > 0 && strings.HasPrefix(runs[n-1], fmt.Sprint(d)+":") {
				runs[n-1] += p.Payload
			} else {
				runs = append(runs, fmt.Sprint(d)+":"+p.Payload)
			}
		}
		k := key
		if flip {
			a, b, _ := strings.Cut(key, ">")
			k = b + ">" + a
		}
		out[k] = strings.Join(runs, ",")
	}
	return out
}

// checkViewComplete is C10(a): a freshly opened view covers exactly the
// conversations of all captures whose import completion was delivered.
func (r *vsRun) checkViewComplete(v *vsView) { r.checkViewCompleteMode(v, false) }

// checkViewCompleteMode with handedOver=true (only at quiescence) takes "processed" from the harness' own
// record of what it handed to ImportPcaps instead of the service's list of known captures: every readable
// capture that was handed over has been processed once the import queue is empty.
func (r *vsRun) checkViewCompleteMode(v *vsView, handedOver bool) {
	if r.cfg.focus != "C10" {
		return
	}
	imported := map[string]bool{}
	if handedOver {
		for _, n := range r.tr.Written {
			imported[n] = true
		}
	}
	_ = r.e.inLoop(func() {
		if handedOver {
			return
		}
		// captures of delivered imports: known to the builder and no longer queued
		queued := map[string]bool{}
		for _, n := range r.e.mgr.importJobs {
			queued[n] = true
		}
		for _, p := range r.e.mgr.builder.KnownPcaps() {
			if !queued[p.Filename] {
				imported[p.Filename] = true
			}
		}
	})
	// a parked import job has already registered its captures as known although its completion was not delivered
	if r.e.parkedCount("import") > 0 {
		return
	}
	want := r.expectedStreams(imported)
	got := map[string]string{}
	err := v.v.AllStreams(context.Background(), func(sc StreamContext) error {
		s := sc.Stream()
		data, err := s.Data()
		if err != nil {
			return err
		}
		var runs []string
		for _, run := range vidx.DataToRuns(data) {
			runs = append(runs, fmt.Sprintf("%d:%s", run.Dir, run.Data))
		}
		key := fmt.Sprintf("%s:%d>%s:%d", s.ClientHostIP(), s.ClientPort, s.ServerHostIP(), s.ServerPort)
		if _, dup := got[key]; dup {
			return fmt.Errorf("connection %s is visible twice", key)
		}
		got[key] = strings.Join(runs, ",")
		return nil
	})
	if err != nil {
		r.fatalf("fresh view: %v", err)
	}
	if fmt.Sprint(got) != fmt.Sprint(want) {
		if handedOver {
			diag := ""
			if r.svcLog != nil {
				ents, _ := os.ReadDir(r.e.dirs.pcap)
				for _, en := range ents {
					fi, _ := en.Info()
					if fi != nil {
						diag += fmt.Sprintf(" %s(%d bytes)", en.Name(), fi.Size())
					}
				}
				r.svcLog.mu.Lock()
				lg := r.svcLog.buf.String()
				r.svcLog.mu.Unlock()
				if len(lg) > 6000 {
					lg = lg[len(lg)-6000:]
				}
				diag = "\ncapture directory:" + diag + "\nservice log (tail):\n" + lg
			}
			r.fatalf("at quiescence a fresh view shows\n%v\nbut the captures handed over for import (%v) contain\n%v%s", got, imported, want, diag)
		}
		r.fatalf("a view opened after imports %v were processed shows\n%v\nbut those captures contain\n%v", imported, got, want)
	}
}

// checkConverters is I16: every cached output equals conv(current payload).
func (r *vsRun) checkConvertersInLoop() string {
	m := r.e.mgr
	streams, err := veVisible(m.indexes)
	if err != nil {
		return err.Error()
	}
	names := make([]string, 0, len(m.converters))
	for n := range m.converters {
		names = append(names, n)
	}
	sort.Strings(names)
	for _, cn := range names {
		for id, s := range streams {
			got, ok := r.e.convData(cn, id)
			if !ok {
				continue
			}
			data, err := s.Data()
			if err != nil {
				return err.Error()
			}
			if veConvFails(data) {
				return fmt.Sprintf("converter %s: stream %d has cached output %q although the converter answers its current payload with an unusable line", cn, id, fmt.Sprint(got))
			}
			want := veConvExpected(cn, data)
			if fmt.Sprint(got) != fmt.Sprint(want) {
				return fmt.Sprintf("converter %s: cached output of stream %d is %q but its current payload converts to %q", cn, id, fmt.Sprint(got), fmt.Sprint(want))
			}
		}
	}
	return ""
}

func (r *vsRun) invariants() {
	var msg6, msg16 string
	err := r.e.inLoop(func() {
		if r.cfg.focus == "C06" {
			// while a converter job is between its work and the delivery of its completion the cache already
			// holds output that the service has not been told about yet: tags that look at converter output
			// (payload filters not restricted to .none, and tags referencing other tags) are not asserted then
			convInFlight := r.e.parkedCount("convert") > 0
			msg6 = r.e.checkTagsInLoop(func(name, def string) bool {
				if !convInFlight {
					return false
				}
				q, err := query.Parse(def)
				if err != nil {
					return true
				}
				f := q.Conditions.Features()
				return f.MainFeatures&query.FeatureFilterData != 0 || len(f.MainTags) != 0
			})
		}
		if r.cfg.focus == "C16" && !r.convMayBeStale {
			msg16 = r.checkConvertersInLoop()
		}
	})
	if err != nil {
		r.fatalf("%v", err)
	}
	if msg6 != "" {
		r.fatalf("%s", msg6)
	}
	if msg16 != "" {
		r.fatalf("%s", msg16)
	}
	if r.cfg.focus == "C11" || r.cfg.focus == "C12" {
		// graph well-formedness and the referenced indication under generated schedules of tagging jobs
		// (C12: also after every restart, where the graph is rebuilt from the state file)
		tags, _, err := c11State(r.e)
		if err != nil {
			r.fatalf("%v", err)
		}
		if msg := c11Graph(tags); msg != "" {
			r.fatalf("%s\ntags:\n%s", msg, c11Render(tags))
		}
	}
	// searches with tag filters and the tags shown for a stream must be right while work is in flight, too
	r.checkViewTags(true)
}

// checkViewTags is the view part of C06: searches with tag filters and the
// tags shown for a stream agree with the ground truth for all streams.
func (r *vsRun) checkViewTags(midflight bool) {
	if r.cfg.focus != "C06" || r.e.parkedCount("convert") > 0 {
		return
	}
	v := r.e.mgr.GetView()
	defer func() { v.Release(); _ = r.e.inLoop(func() {}) }()
	if _, err := v.ReferenceTime(); err != nil {
		r.fatalf("view: %v", err)
	}
	// ground truth from the view's own index list and the tag definitions at this instant
	var defs map[string]string
	var convNames []string
	_ = r.e.inLoop(func() {
		defs = map[string]string{}
		for n, t := range r.e.mgr.tags {
			defs[n] = t.definition
		}
		for n := range r.e.mgr.converters {
			convNames = append(convNames, n)
		}
	})
	for n := range defs {
		if _, ok := v.tagDetails[n]; !ok {
			return // the tag table changed between the two reads (cannot happen: single threaded harness)
		}
	}
	streams, err := veVisible(v.indexes)
	if err != nil {
		r.fatalf("view: %v", err)
	}
	var truth map[string]map[uint64]bool
	var vqs map[uint64]*vq.Stream
	err = r.e.inLoop(func() {
		truth, vqs, err = veTruth(streams, defs, convNames, r.e.convData)
	})
	if err != nil {
		r.fatalf("ground truth: %v", err)
	}
	names := make([]string, 0, len(defs))
	for n := range defs {
		names = append(names, n)
	}
	sort.Strings(names)
	// open finding: conditions of a tag that is still pending are inlined into the search (or evaluated by the
	// view's prefetch) with a reference time that is not the one they were normalised with, so absolute time
	// filters are off by the difference; such tags, and tags referencing them, are not asserted while pending
	skip := map[string]bool{}
	if midflight && r.open["F-C06-inlined-tag-reference-time"] {
		for changed := true; changed; {
			changed = false
			for _, n := range names {
				if skip[n] {
					continue
				}
				q, err := query.Parse(defs[n])
				if err != nil {
					continue
				}
				f := q.Conditions.Features()
				bad := f.MainFeatures&(query.FeatureFilterTimeAbsolute|query.FeatureFilterTimeRelative) != 0
				for _, ref := range f.MainTags {
					if skip[ref] {
						bad = true
					}
				}
				if bad {
					skip[n] = true
					changed = true
					r.c.Count("excluded_known", 1)
				}
			}
		}
	}
	// tags that look at payload directly or through the tags they reference
	dataDep := map[string]bool{}
	for changed := true; changed; {
		changed = false
		for _, n := range names {
			if dataDep[n] {
				continue
			}
			q, err := query.Parse(defs[n])
			if err != nil {
				continue
			}
			f := q.Conditions.Features()
			dep := f.MainFeatures&query.FeatureFilterData != 0
			for _, ref := range f.MainTags {
				dep = dep || dataDep[ref]
			}
			if dep {
				dataDep[n] = true
				changed = true
			}
		}
	}
	// tags whose definition uses a sub-query, directly or through the tags they reference
	subDep := map[string]bool{}
	for changed := true; changed; {
		changed = false
		for _, n := range names {
			if subDep[n] {
				continue
			}
			q, err := query.Parse(defs[n])
			if err != nil {
				continue
			}
			f := q.Conditions.Features()
			dep := f.SubQueryFeatures != 0 || len(f.SubQueryTags) != 0
			for _, ref := range f.MainTags {
				dep = dep || subDep[ref]
			}
			if dep {
				subDep[n] = true
				changed = true
			}
		}
	}
	pendingSub := func(n string) bool {
		return r.open["F-C06-negated-pending-subquery-tag"] && subDep[n] && !v.tagDetails[n].Uncertain.IsZero()
	}
	depth := map[string]int{}
	for round := 0; round < 8; round++ {
		for _, n := range names {
			q, err := query.Parse(defs[n])
			if err != nil {
				continue
			}
			d := 1
			for _, ref := range q.Conditions.Features().MainTags {
				if depth[ref]+1 > d {
					d = depth[ref] + 1
				}
			}
			depth[n] = d
		}
	}
	anyConv := false
	for _, vs := range vqs {
		if len(vs.Conv) != 0 {
			anyConv = true
		}
	}
	ctx := context.Background()
	for _, n := range names {
		if skip[n] {
			continue
		}
		typ, sub, _ := strings.Cut(n, "/")
		for _, neg := range []bool{false, true} {
			qs := typ + ":" + sub
			if neg {
				// the negation of a pending payload tag is searched as the negated normal form, one disjunct at a
				// time over all representations; with converter output present that is not the negation of
				// "matches in some representation" (DESIGN.md 5, C04: negated sequences over several
				// representations are not defined) - not asserted
				if anyConv && dataDep[n] {
					continue
				}
				// pending tags are inlined recursively and negated as whole normal forms: the cost is a tower
				// of products over the reference chain (exponential by construction, C14's text exempts it)
				if midflight && depth[n] >= 3 {
					r.c.Count("negated_search_skipped_deep_reference_chain", 1)
					continue
				}
				if pendingSub(n) {
					r.c.Count("excluded_known", 1)
					continue
				}
				qs = "-" + qs
			}
			q, err := query.Parse(qs + " sort:id")
			if err != nil {
				r.fatalf("query %q: %v", qs, err)
			}
			if os.Getenv("VERIF_DEBUG_SEARCH") != "" {
				fmt.Fprintf(os.Stderr, "SEARCH %s defs=%v\n", qs, defs)
			}
			var got []uint64
			_, _, _, err = v.SearchStreams(ctx, q, func(sc StreamContext) error {
				got = append(got, sc.Stream().ID())
				return nil
			})
			if err != nil {
				if strings.Contains(err.Error(), "same converter name") {
					// documented limitation: a pending tag with a converter selector inlined next to other payload filters
					r.c.Count("search_unsupported_mixed_converters", 1)
					continue
				}
				r.fatalf("search %q through a fresh view failed: %v", qs, err)
			}
			var want []uint64
			for id := range streams {
				if truth[n][id] != neg {
					want = append(want, id)
				}
			}
			sort.Slice(want, func(i, j int) bool { return want[i] < want[j] })
			if fmt.Sprint(got) != fmt.Sprint(want) {
				r.fatalf("search %q through a fresh view returned %v, the definition %q evaluated on current data gives %v", qs, got, defs[n], want)
			}
		}
	}
	// two tags in one search: the same pending tag can be reached along several paths and with both polarities
	var usable []string
	for _, n := range names {
		if !skip[n] {
			usable = append(usable, n)
		}
	}
	for k := 0; k < 2 && len(usable) >= 2; k++ {
		ia := rapid.IntRange(0, len(usable)-1).Draw(r.rt, "pairA")
		ib := rapid.IntRange(0, len(usable)-2).Draw(r.rt, "pairB")
		if ib >= ia {
			ib++
		}
		a, b := usable[ia], usable[ib]
		form := rapid.SampledFrom([]string{"or", "and", "andnot", "ornot"}).Draw(r.rt, "pairform")
		negB := form == "andnot" || form == "ornot"
		if negB && ((anyConv && dataDep[b]) || (midflight && depth[b] >= 3) || pendingSub(b)) {
			form, negB = "or", false
		}
		if midflight && depth[a]+depth[b] >= 5 {
			continue
		}
		ta, sa, _ := strings.Cut(a, "/")
		tb, sb, _ := strings.Cut(b, "/")
		fa, fb := ta+":"+sa, tb+":"+sb
		var qs string
		var f func(x, y bool) bool
		switch form {
		case "or":
			qs, f = fa+" or "+fb, func(x, y bool) bool { return x || y }
		case "and":
			qs, f = fa+" "+fb, func(x, y bool) bool { return x && y }
		case "andnot":
			qs, f = fa+" -"+fb, func(x, y bool) bool { return x && !y }
		default:
			qs, f = fa+" or -"+fb, func(x, y bool) bool { return x || !y }
		}
		q, err := query.Parse(qs + " sort:id")
		if err != nil {
			r.fatalf("query %q: %v", qs, err)
		}
		var got []uint64
		_, _, _, err = v.SearchStreams(ctx, q, func(sc StreamContext) error {
			got = append(got, sc.Stream().ID())
			return nil
		})
		if err != nil {
			if strings.Contains(err.Error(), "same converter name") {
				r.c.Count("search_unsupported_mixed_converters", 1)
				continue
			}
			r.fatalf("search %q through a fresh view failed: %v", qs, err)
		}
		var want []uint64
		for id := range streams {
			if f(truth[a][id], truth[b][id]) {
				want = append(want, id)
			}
		}
		sort.Slice(want, func(i, j int) bool { return want[i] < want[j] })
		r.c.Count("two_tag_searches", 1)
		if fmt.Sprint(got) != fmt.Sprint(want) {
			r.fatalf("search %q through a fresh view returned %v, the definitions %q and %q evaluated on current data give %v", qs, got, defs[a], defs[b], want)
		}
	}
	// tags shown per stream with all tags prefetched
	shown := map[uint64][]string{}
	err = v.AllStreams(ctx, func(sc StreamContext) error {
		tags, err := sc.AllTags()
		if err != nil {
			return err
		}
		shown[sc.Stream().ID()] = tags
		return nil
	}, PrefetchAllTags())
	if err != nil {
		if strings.Contains(err.Error(), "same converter name") {
			r.c.Count("search_unsupported_mixed_converters", 1)
			return
		}
		r.fatalf("AllStreams with prefetched tags failed: %v", err)
	}
	for id := range streams {
		var want []string
		for _, n := range names {
			if truth[n][id] && !skip[n] {
				want = append(want, n)
			}
		}
		var got []string
		for _, n := range shown[id] {
			if !skip[n] {
				got = append(got, n)
			}
		}
		shown[id] = got
		if fmt.Sprint(shown[id]) != fmt.Sprint(want) {
			var sb strings.Builder
			for _, n := range names {
				td := v.tagDetails[n]
				fmt.Fprintf(&sb, "\n  %s def=%q view: matches=%v uncertain=%v", n, defs[n], sortedKeys(veBits(td.Matches)), sortedKeys(veBits(td.Uncertain)))
			}
			r.fatalf("stream %d is shown with tags %v, the definitions evaluated on current data give %v; tag details of the view after prefetching all tags:%s", id, shown[id], want, sb.String())
		}
	}
}

// finalChecks: settle under a generated delivery order and check quiescence (C09), files and locks (C13), converter completeness (C16).
func (r *vsRun) finalChecks() {
	rt := r.rt
	for _, v := range r.views {
		if v.opened && rapid.Bool().Draw(rt, "finaluse") {
			r.useView(slotOf(r, v))
		}
	}
	order := rapid.SampledFrom([]string{"oldest", "newest", "random"}).Draw(rt, "settleorder")
	var nTags, nStreams int
	_ = r.e.inLoop(func() { nTags = len(r.e.mgr.tags); nStreams = int(r.e.mgr.nextStreamID) })
	bound := 40 + 8*(nTags+r.tr.captures()) + 2*nStreams*(len(r.cfg.converters)+1)
	r.log("settle %s", order)
	n, err := r.e.settle(bound, func(ks []string) int {
		if len(ks) > r.maxParked {
			r.maxParked = len(ks)
		}
		switch order {
		case "newest":
			return len(ks) - 1
		case "random":
			return rapid.IntRange(0, len(ks)-1).Draw(rt, "settlepick")
		}
		return 0
	})
	if err != nil {
		if r.cfg.focus == "C09" {
			r.fatalf("background work does not settle: %v", err)
		}
		r.fatalf("settle: %v", err)
	}
	r.c.Count("settle_deliveries", n)
	var msg string
	err = r.e.inLoop(func() {
		m := r.e.mgr
		if r.cfg.focus == "C09" {
			if len(m.importJobs) != 0 || m.mergeJobRunning || m.taggingJobRunning || m.converterJobRunning {
				msg = "a job is still marked running at quiescence"
				return
			}
			for n, t := range m.tags {
				if !t.Uncertain.IsZero() {
					msg = fmt.Sprintf("tag %s still has %d streams pending re-evaluation although no job is running or parked", n, t.Uncertain.OnesCount())
					return
				}
			}
			for n, bm := range m.streamsToConvert {
				if !bm.IsZero() {
					msg = fmt.Sprintf("converter %s still has %d streams queued although no job is running or parked", n, bm.OnesCount())
					return
				}
			}
		}
		if r.cfg.focus == "C06" {
			msg = r.e.checkTagsInLoop(nil)
		}
		if r.cfg.focus == "C16" {
			msg = r.checkConvertersInLoop()
			if msg != "" {
				return
			}
			// every stream matching a tag with an attached converter has output
			streams, err := veVisible(m.indexes)
			if err != nil {
				msg = err.Error()
				return
			}
			for tn, t := range m.tags {
				for _, cv := range t.converters {
					for id, st := range streams {
						if data, err := st.Data(); err == nil && veConvFails(data) {
							continue // the converter fails on this payload: the service gives up after two attempts
						}
						if t.Matches.IsSet(uint(id)) && !cv.Contains(id) {
							msg = fmt.Sprintf("at quiescence stream %d matches tag %s with converter %s attached but has no converter output", id, tn, cv.Name())
							return
						}
					}
				}
			}
		}
	})
	if err != nil {
		r.fatalf("%v", err)
	}
	if msg != "" {
		r.fatalf("%s", msg)
	}
	r.checkViewTags(false)
	if r.cfg.focus == "C16" {
		r.detachPhase()
	}
	if r.cfg.focus == "C10" {
		fed := r.pcapOverIPPhase()
		v := &vsView{v: r.e.mgr.GetView()}
		if _, err := v.v.ReferenceTime(); err != nil {
			r.fatalf("view: %v", err)
		}
		if !fed {
			// (the captures the service writes for packets received over PCAP-over-IP have names of their own)
			r.checkViewComplete(v)
		}
		r.checkViewCompleteMode(v, true)
		v.v.Release()
		_ = r.e.inLoop(func() {})
	}
	// release views, then directory and lock accounting
	for _, v := range r.views {
		if v.opened {
			v.v.Release()
			v.opened = false
		}
	}
	_ = r.e.inLoop(func() {})
	if r.cfg.focus == "C13" {
		r.checkFilesAndLocks()
	}
}

// pcapOverIPPhase hands the captures that were not uploaded during the history to the service as one
// PCAP-over-IP stream: a local peer serves their packets, the endpoint is added, and once the endpoint has
// received everything it is removed again. The service writes capture files of its own for what it received
// and imports them; when that has settled a fresh view must show those conversations like uploaded ones.
func (r *vsRun) pcapOverIPPhase() bool {
	var rest []int
	for i := 0; i < r.tr.captures(); i++ {
		if _, ok := r.tr.Written[i]; !ok {
			rest = append(rest, i)
		}
	}
	if len(rest) == 0 {
		return false
	}
	var stream bytes.Buffer
	w := pcapgo.NewWriter(&stream)
	if err := w.WriteFileHeader(65536, layers.LinkTypeIPv4); err != nil {
		r.fatalf("harness: %v", err)
	}
	n := 0
	for _, i := range rest {
		for _, p := range r.tr.Packets[r.tr.Cuts[i]:r.tr.Cuts[i+1]] {
			data, _ := veSerializeUDP(r.tr.Flows[p.Flow], p.Dir, p.Payload)
			ci := gopacket.CaptureInfo{Timestamp: r.tr.Base.Add(p.Off), CaptureLength: len(data), Length: len(data)}
			if err := w.WritePacket(ci, data); err != nil {
				r.fatalf("harness: %v", err)
			}
			n++
		}
	}
	ln, err := net.Listen("tcp", "127.0.0.1:0")
	if err != nil {
		r.fatalf("harness: listen: %v", err)
	}
	defer ln.Close()
	hold := make(chan struct{})
	defer close(hold)
	go func() {
		conn, err := ln.Accept()
		if err != nil {
			return
		}
		defer conn.Close()
		_, _ = conn.Write(stream.Bytes())
		<-hold
	}()
	addr := ln.Addr().String()
	if r.apiCall("AddPcapOverIPEndpoint", func() error { return r.e.mgr.AddPcapOverIPEndpoint(addr) }) != nil {
		r.fatalf("the PCAP-over-IP endpoint %s cannot be added", addr)
	}
	deadline := time.Now().Add(20 * time.Second)
	for received := uint(0); received < uint(n); {
		if time.Now().After(deadline) {
			r.fatalf("the PCAP-over-IP endpoint received %d of the %d packets its peer sent within 20s", received, n)
		}
		time.Sleep(5 * time.Millisecond)
		for _, ep := range r.e.mgr.ListPcapOverIPEndpoints() {
			if ep.Address == addr {
				received = ep.ReceivedPackets
			}
		}
	}
	for _, i := range rest {
		if r.tr.Written == nil {
			r.tr.Written = map[int]string{}
		}
		r.tr.Written[i] = fmt.Sprintf("cap%02d.pcap", i) // what the model calls it; the service picks names of its own
	}
	r.log("captures %v received over PCAP-over-IP (%d packets)", rest, n)
	if r.apiCall("DelPcapOverIPEndpoint", func() error { return r.e.mgr.DelPcapOverIPEndpoint(addr) }) != nil {
		r.fatalf("the PCAP-over-IP endpoint %s cannot be removed", addr)
	}
	// the packet handler writes a capture for the first packet at once and one for the rest when the import queue has
	// drained: deliver what parks until the service knows all packets
	all := map[string]bool{}
	for _, name := range r.tr.Written {
		all[name] = true
	}
	want := r.expectedStreams(all)
	for {
		if _, err := r.e.settle(200, nil); err != nil {
			r.fatalf("settle after PCAP-over-IP: %v", err)
		}
		streams := 0
		_ = r.e.inLoop(func() { streams = int(r.e.mgr.nextStreamID) })
		if streams >= len(want) {
			// one more round: the last capture may still be on its way from the handler to the import queue
			time.Sleep(30 * time.Millisecond)
			if _, err := r.e.settle(200, nil); err != nil {
				r.fatalf("settle after PCAP-over-IP: %v", err)
			}
			var known int
			_ = r.e.inLoop(func() { known = int(r.e.mgr.builder.PacketCount()) })
			if known >= r.packetsHandedOver() {
				break
			}
		}
		if time.Now().After(deadline.Add(20 * time.Second)) {
			break // the completeness check below says what is missing
		}
		time.Sleep(10 * time.Millisecond)
	}
	r.c.Label("captures-received-over-pcap-over-ip")
	return true
}

// packetsHandedOver counts the capture records of everything given to the service (uploads: fragments count one by one).
func (r *vsRun) packetsHandedOver() int {
	n := 0
	for i := range r.tr.Written {
		n += r.tr.Cuts[i+1] - r.tr.Cuts[i]
	}
	return n + r.tr.Fragmented
}

// checkFilesAndLocks is the quiescence clause of C13 (call with all views released and nothing parked): the index
// directory holds exactly the files the service serves from and every served file is held exactly once.
func (r *vsRun) checkFilesAndLocks() {
	var served []string
	var locks, count uint
	_ = r.e.inLoop(func() {
		for _, i := range r.e.mgr.indexes {
			served = append(served, filepath.Base(i.Filename()))
		}
		for _, n := range r.e.mgr.usedIndexes {
			locks += n
		}
		count = uint(len(r.e.mgr.indexes))
	})
	sort.Strings(served)
	var onDisk []string
	ents, _ := os.ReadDir(r.e.dirs.index)
	for _, en := range ents {
		if strings.HasSuffix(en.Name(), ".idx") {
			onDisk = append(onDisk, en.Name())
		}
	}
	sort.Strings(onDisk)
	if fmt.Sprint(served) != fmt.Sprint(onDisk) {
		r.fatalf("at quiescence with all views released the index directory holds %v but the service serves %v", onDisk, served)
	}
	if locks != count {
		r.fatalf("at quiescence with all views released %d index files are served but the use counts add up to %d", count, locks)
	}
}

// detachPhase is the last clause of C16: once a converter is detached from every tag it does not run again,
// whatever arrives afterwards. The converter executable appends a line per conversion to a side log.
func (r *vsRun) detachPhase() {
	logLen := func() int {
		b, _ := os.ReadFile(os.Getenv("VERIF_CONV_LOG"))
		return bytes.Count(b, []byte("\n"))
	}
	var attached []string
	_ = r.e.inLoop(func() {
		for n, t := range r.e.mgr.tags {
			if len(t.converters) != 0 {
				attached = append(attached, n)
			}
		}
	})
	sort.Strings(attached)
	if len(attached) == 0 && logLen() == 0 {
		return
	}
	for _, n := range attached {
		n := n
		if r.apiCall(fmt.Sprintf("UpdateTag(%s,converters=[])", n), func() error { return r.e.mgr.UpdateTag(n, UpdateTagOperationSetConverter(nil)) }) != nil {
			return
		}
	}
	r.settleAll(400)
	before := logLen()
	if os.Getenv("VERIF_DEBUG_C16") != "" {
		_ = r.e.inLoop(func() {
			for n, bm := range r.e.mgr.streamsToConvert {
				fmt.Fprintf(os.Stderr, "DEBUG after detach: queue %s = %v\n", n, sortedKeys(veBits(bm)))
			}
			for n, t := range r.e.mgr.tags {
				fmt.Fprintf(os.Stderr, "DEBUG tag %s matches=%v uncertain=%v convs=%v\n", n, sortedKeys(veBits(t.Matches)), sortedKeys(veBits(t.Uncertain)), t.converterNames())
			}
		})
		b, _ := os.ReadFile(os.Getenv("VERIF_CONV_LOG"))
		fmt.Fprintf(os.Stderr, "DEBUG log:\n%s\n", b)
	}
	// more work arrives: the remaining captures and a tag that matches every stream
	for r.nextCapture < r.tr.captures() {
		r.stepImport()
		if err := r.e.sync(); err != nil {
			r.fatalf("%v", err)
		}
	}
	r.apiCall("AddTag(tag/z,\"cport:0:\")", func() error { return r.e.mgr.AddTag("tag/z", "#fff", "cport:0:") })
	r.settleAll(400)
	r.c.Label("detach-phase")
	if after := logLen(); after != before {
		b, _ := os.ReadFile(os.Getenv("VERIF_CONV_LOG"))
		lines := strings.Split(strings.TrimSpace(string(b)), "\n")
		r.fatalf("a converter ran %d more times after it had been detached from every tag (last run: %s)", after-before, lines[len(lines)-1])
	}
	var msg string
	_ = r.e.inLoop(func() {
		for n, bm := range r.e.mgr.streamsToConvert {
			if !bm.IsZero() {
				msg = fmt.Sprintf("converter %s has %d streams queued although it is attached to no tag", n, bm.OnesCount())
			}
		}
	})
	if msg != "" {
		r.fatalf("%s", msg)
	}
}

// veLogBuffer collects the service's log lines of one scenario.
type veLogBuffer struct {
	mu  sync.Mutex
	buf bytes.Buffer
}

func (b *veLogBuffer) Write(p []byte) (int, error) {
	b.mu.Lock()
	defer b.mu.Unlock()
	if b.buf.Len() < 1<<20 {
		b.buf.Write(p)
	}
	return len(p), nil
}

func (b *veLogBuffer) find(needles ...string) string {
	b.mu.Lock()
	defer b.mu.Unlock()
	for _, line := range strings.Split(b.buf.String(), "\n") {
		for _, n := range needles {
			if strings.Contains(line, n) {
				return line
			}
		}
	}
	return ""
}

func slotOf(r *vsRun, v *vsView) int {
	if r.views[0] == v {
		return 0
	}
	return 1
}

func vsScenario(rt *rapid.T, c *vlib.Case, t *testing.T, cfg vsConfig, open map[string]bool) {
	base, err := os.MkdirTemp("", "vs-")
	if err != nil {
		rt.Fatalf("tempdir: %v", err)
	}
	defer os.RemoveAll(base)
	d, err := veMakeDirs(base)
	if err != nil {
		rt.Fatalf("dirs: %v", err)
	}
	if err := veInstallConverters(d, cfg.converters); err != nil {
		rt.Fatalf("converters: %v", err)
	}
	r := &vsRun{rt: rt, c: c, cfg: cfg, open: open, tr: vsGenTraffic(rt), kindsDelivered: map[string]bool{}, deliveredCaptures: map[int]bool{}, lastDefs: map[string]string{}}
	r.views[0], r.views[1] = &vsView{}, &vsView{}
	c.Render(func() any { return map[string]any{"traffic": r.tr.brief(), "history": r.hist} })
	os.Setenv("VERIF_CONV_LOG", filepath.Join(base, "conversions.log"))
	// C13: a background job that reads an index file after it was closed only shows in the service's log
	var svcLog *veLogBuffer
	if (cfg.focus == "C13" || cfg.focus == "C10") && os.Getenv("VERIF_MANAGER_LOG") == "" {
		svcLog = &veLogBuffer{}
		log.SetOutput(svcLog)
		defer log.SetOutput(io.Discard)
	}
	r.svcLog = svcLog
	e, err := veStart(d, false)
	if err != nil {
		rt.Fatalf("manager.New: %v", err)
	}
	r.e = e
	defer e.close()
	if err := e.sync(); err != nil {
		r.fatalf("%v", err)
	}
	actions := map[string]func(*rapid.T){}
	add := func(name string, w int, f func()) {
		for i := 0; i < w; i++ {
			actions[fmt.Sprintf("%s%d", name, i)] = func(*rapid.T) {
				f()
				c.Trace(t)
				if err := e.sync(); err != nil {
					r.fatalf("%v", err)
				}
				r.invariants()
			}
		}
	}
	add("import", cfg.wImport, r.stepImport)
	add("tag", cfg.wTag, r.stepTag)
	add("mark", cfg.wMark, r.stepMark)
	add("conv", cfg.wConv, r.stepConv)
	add("view", cfg.wView, r.stepView)
	add("deliver", cfg.wDeliver, r.stepDeliver)
	add("recreate", cfg.wRecreate, r.stepRecreate)
	add("hold", 1, r.stepHold)
	add("start", 2, r.stepStart)
	add("reset", cfg.wReset, r.stepReset)
	if cfg.focus == "C09" || cfg.focus == "C13" {
		add("mergefault", 1, r.stepMergeFault)
	}
	rt.Repeat(actions)
	r.finalChecks()
	if svcLog != nil && cfg.focus == "C13" {
		if line := svcLog.find("file already closed", "bad file descriptor", "use of closed file"); line != "" {
			r.fatalf("a background job used an index file after it had been closed; the service logged: %s", line)
		}
	}

	c.Count("steps", len(r.hist))
	for k := range r.kindsDelivered {
		c.Label("delivered:" + k)
	}
	c.LabelIf(r.mergesDone > 0, "merge-replaced-files")
	c.LabelIf(r.invalWhileTagJob > 0, "invalidation-during-tagging-job")
	c.LabelIf(r.heldAcrossMerge, "files-held-across-merge")
	c.LabelIf(r.maxParked >= 2, "two-jobs-parked")
	c.LabelIf(r.startedHeld > 0, "job-body-delayed")
	c.LabelIf(r.outOfOrder, "capture-arrived-out-of-order")
	c.LabelIf(r.mergeFaults > 0, "merges-made-to-fail")
	c.LabelIf(r.brokenFiles > 0, "broken-upload-queued")
	c.LabelIf(r.tr.Fat, "fat-flow")
	c.LabelIf(r.tr.Fragmented > 0, "ipv4-fragments")
	c.LabelIf(r.lazyViews > 0, "view-first-asked-after-later-events")
	c.LabelIf(r.snapFaults > 0, "import-with-unusable-snapshot-directory")
	nontrivial := false
	switch cfg.focus {
	case "C06":
		nontrivial = r.invalWhileTagJob > 0 && r.tagDelivers > 0
	case "C09":
		nontrivial = len(r.kindsDelivered) >= 3 && r.maxParked >= 2
	case "C10":
		for _, v := range r.views {
			if v.usedAfterMerge && v.usedAfterImport {
				nontrivial = true
			}
		}
		nontrivial = nontrivial || (r.mergesDone > 0 && r.importsDone >= 2)
	case "C13":
		nontrivial = r.heldAcrossMerge
	case "C11":
		nontrivial = r.invalWhileTagJob > 0 && r.tagDelivers > 0
	case "C16":
		nontrivial = r.kindsDelivered["convert"] && r.importsDone >= 2
	}
	if nontrivial {
		c.NonTrivial(strings.Join(r.hist, ";") + fmt.Sprint(r.tr.brief()))
	}
}

var _ = index.DirectionClientToServer
var _ = vq.KAtom

func vsDefaultConfig(focus string) vsConfig {
	cfg := vsConfig{focus: focus, wImport: 3, wTag: 4, wMark: 1, wConv: 0, wView: 1, wDeliver: 6, wReset: 0}
	switch focus {
	case "C06":
		cfg.converters = []string{"cva"}
		cfg.wConv = 1
		cfg.wRecreate = 1
	case "C09":
		cfg.converters = []string{"cva"}
		cfg.wConv = 2
		cfg.wReset = 1
	case "C10", "C13":
		cfg.wView = 4
		cfg.wTag = 2
	case "C11":
		cfg.wTag, cfg.wView, cfg.wImport, cfg.wRecreate = 8, 0, 2, 2
	case "C16":
		cfg.converters = []string{"cva", "cvb"}
		cfg.wConv = 4
		cfg.wReset = 1
		cfg.wTag = 3
	}
	return cfg
}

func vsTest(t *testing.T, focus string) {
	open := vlib.OpenFindings()
	cfg := vsDefaultConfig(focus)
	vlib.Check(t, focus, func(rt *rapid.T, c *vlib.Case) { vsScenario(rt, c, t, cfg, open) })
}

func TestVerifC06(t *testing.T) { vsTest(t, "C06") }
func TestVerifC09(t *testing.T) { vsTest(t, "C09") }
func TestVerifC10(t *testing.T) { vsTest(t, "C10") }
func TestVerifC13(t *testing.T) { vsTest(t, "C13") }
func TestVerifC16(t *testing.T) { vsTest(t, "C16") }

// TestVerifC11Sched: the tag calls of C11 under generated schedules of tagging job completions.
func TestVerifC11Sched(t *testing.T) { vsTest(t, "C11") }
