package regexanalysis

// C18 — regex length and suffix analysis is exact and safe (DESIGN.md §5 C18).
//
// Expressions are generated as syntax trees (internal/verif/vregex) whose exact
// minimal / maximal member length and member strings are known by
// construction. Calling convention of the production callers
// (internal/index/search_data.go): the expression string that
// binaryregexp.Compile accepted is handed unchanged to AcceptedLength and
// ConstantSuffix; MaxLength == math.MaxUint means "unbounded".
//
// Oracle
//   - every expression: both analyses return without error; every sampled
//     member that `\A(?:re)\z` accepts has MinLength <= len <= MaxLength and ends
//     with ConstantSuffix (30 samples + shortest + longest member).
//   - assertion-free expressions: MinLength equals the tree's exact minimum and
//     is attained by an accepted witness; MaxLength equals the tree's exact
//     maximum and is attained by an accepted witness when finite; when the tree
//     has unbounded members MaxLength must be MaxUint (a member longer than a
//     finite MaxLength is exhibited).
//     The property text claims attainment only for a finite computed maximum.
//     A computed MaxUint for a language whose members are bounded is therefore
//     not a violation; it is labelled `max-unbounded-for-bounded-language` and
//     counted (on the unchanged tree it only occurs for loops whose body matches
//     nothing but the empty string).

import (
	"bytes"
	"fmt"
	"math"
	"strings"
	"testing"
	"unicode"

	"github.com/spq/pkappa2/internal/verif/vlib"
	"github.com/spq/pkappa2/internal/verif/vregex"
	"pgregory.net/rapid"
	"rsc.io/binaryregexp"
	"rsc.io/binaryregexp/syntax"
)

// F-C18-stale-loop-cache: AcceptedLength memoises {MaxUint,MaxUint} for an
// instruction at the moment a loop is detected below it; the entry is also
// valid only while the detecting alternation is on the evaluation stack. When
// the same instruction is later entered from outside the loop (`x?y+`: the
// skip edge of `x?` targets the first instruction of the `y+` body, which was
// first walked through by fall-through from x) the stale entry makes the
// branch look impossible and MinLength becomes too large.
const c18FindingStaleCache = "F-C18-stale-loop-cache"

// c18StaleCacheRead replays the memoisation discipline of AcceptedLength on the
// compiled program and reports whether an entry written at loop detection is
// read while the detecting alternation is not on the stack (the signature of
// the finding above; used to steer the campaign away from it while it is open).
func c18StaleCacheRead(expr string) bool {
	r, err := syntax.Parse(expr, syntax.Perl)
	if err != nil {
		return false
	}
	p, err := syntax.Compile(r.Simplify())
	if err != nil {
		return false
	}
	cache := map[uint32]int64{} // -1: completed, otherwise the alternation whose re-visit wrote the entry
	stale := false
	contains := func(seen []uint32, x uint32) bool {
		for _, s := range seen {
			if s == x {
				return true
			}
		}
		return false
	}
	var eval func(entry uint32, seen []uint32)
	eval = func(entry uint32, seen []uint32) {
		if v, ok := cache[entry]; ok {
			if v >= 0 && !contains(seen, uint32(v)) {
				stale = true
			}
			return
		}
		pos := entry
		for {
			i := p.Inst[pos]
			switch i.Op {
			case syntax.InstRune1, syntax.InstRune, syntax.InstRuneAny, syntax.InstRuneAnyNotNL, syntax.InstNop, syntax.InstEmptyWidth, syntax.InstCapture:
				pos = i.Out
				continue
			case syntax.InstAlt, syntax.InstAltMatch:
				if contains(seen, pos) {
					cache[entry] = int64(pos)
					return
				}
				seen = append(seen, pos)
				eval(i.Out, seen)
				eval(i.Arg, seen)
			}
			cache[entry] = -1
			return
		}
	}
	eval(uint32(p.Start), nil)
	return stale
}

const c18Samples = 30

func c18Quote(b []byte) string {
	if len(b) > 200 {
		return fmt.Sprintf("%q...(%d bytes)", b[:200], len(b))
	}
	return fmt.Sprintf("%q", b)
}

// c18FoldVariant searches a case variant of s (bytes replaced by bytes of the
// same unicode.SimpleFold orbit) that rx accepts: all positions swapped, then
// one, then two positions swapped.
func c18FoldVariant(rx *binaryregexp.Regexp, s []byte) ([]byte, bool) {
	partner := func(b byte) (byte, bool) {
		for r := unicode.SimpleFold(rune(b)); r != rune(b); r = unicode.SimpleFold(r) {
			if r <= 0xff {
				return byte(r), true
			}
		}
		return b, false
	}
	var pos []int
	for i, b := range s {
		if _, ok := partner(b); ok {
			pos = append(pos, i)
		}
	}
	if len(pos) == 0 {
		return nil, false
	}
	try := func(flip ...int) ([]byte, bool) {
		v := append([]byte(nil), s...)
		for _, i := range flip {
			v[i], _ = partner(v[i])
		}
		return v, rx.Match(v)
	}
	if v, ok := try(pos...); ok {
		return v, true
	}
	if len(pos) > 40 {
		pos = pos[:40]
	}
	for _, i := range pos {
		if v, ok := try(i); ok {
			return v, true
		}
	}
	for x, i := range pos {
		for _, j := range pos[x+1:] {
			if v, ok := try(i, j); ok {
				return v, true
			}
		}
	}
	return nil, false
}

// c18Check evaluates the oracle for one expression; samples are the member
// strings to test. It returns "" when the oracle holds.
func c18Check(re *vregex.Regex, samples [][]byte, c *vlib.Case) string {
	expr := re.Render()
	rx, err := binaryregexp.Compile(expr)
	if err != nil {
		if c != nil {
			c.Discard("generated-expression-rejected-by-binaryregexp")
		}
		return ""
	}
	anch, err := binaryregexp.Compile(re.Anchored())
	if err != nil {
		if c != nil {
			c.Discard("anchored-expression-rejected-by-binaryregexp")
		}
		return ""
	}
	al, err := AcceptedLength(expr)
	if err != nil {
		return fmt.Sprintf("AcceptedLength(%q) fails for an expression binaryregexp.Compile accepts: %v", expr, err)
	}
	suffix, err := ConstantSuffix(expr)
	if err != nil {
		return fmt.Sprintf("ConstantSuffix(%q) fails for an expression binaryregexp.Compile accepts: %v", expr, err)
	}
	exact := !re.HasAssertion()
	if c != nil {
		if _, complete := rx.LiteralPrefix(); complete {
			c.Label("caller:literal-complete(analysis-bypassed-in-production)")
		} else {
			c.Label("caller:analysed-in-production")
		}
		c.LabelIf(len(suffix) == 0, "suffix:empty")
		c.LabelIf(len(suffix) == 1, "suffix:1")
		c.LabelIf(len(suffix) >= 2, "suffix:>=2")
		c.LabelIf(al.MaxLength == math.MaxUint, "max:unbounded")
		c.LabelIf(al.MaxLength != math.MaxUint && al.MinLength == al.MaxLength, "max:=min")
		c.LabelIf(al.MaxLength != math.MaxUint && al.MinLength != al.MaxLength, "max:finite>min")
	}

	// The parser of rsc.io/binaryregexp (like regexp/syntax) factors a common
	// leading single-rune literal out of neighbouring alternation branches with
	// Regexp.Equal, which ignores the FoldCase flag: `B|(?i)b.` is parsed as
	// `B(?:|.)` and `[Bb]x|By` as `(?i:B)(?:x|y)`. The engine and the analyses
	// share that parse, so this is not a pkappa2 defect; it only changes which
	// case variants of a member are accepted, never their lengths. When a tree
	// mixes alternation with case folding a rejected member is therefore replaced
	// by an accepted case variant (or skipped) instead of failing the self-check.
	tolerant := false
	{
		feats := "," + strings.Join(re.Features(), ",") + ","
		tolerant = strings.Contains(feats, ",alt,") && (re.HasFold() || strings.Contains(feats, ",class-fold-pair,"))
	}
	shortest := re.Shortest()
	longest, finite := re.Longest()
	all := append([][]byte{shortest}, samples...)
	if finite {
		all = append(all, longest)
	}
	accepted := 0
	for _, s := range all {
		ok := anch.Match(s)
		if !ok && exact {
			if !tolerant {
				return fmt.Sprintf("harness self-check: member %s of assertion-free %q is not accepted by %q", c18Quote(s), expr, re.Anchored())
			}
			if v, found := c18FoldVariant(anch, s); found {
				s, ok = v, true
				if c != nil {
					c.Label("upstream-fold-factoring:variant-accepted")
				}
			} else if c != nil {
				c.Label("upstream-fold-factoring:member-skipped")
			}
		}
		if !ok {
			continue
		}
		accepted++
		if uint(len(s)) < al.MinLength || uint(len(s)) > al.MaxLength {
			return fmt.Sprintf("AcceptedLength(%q) = [%d,%d] but the expression matches %s (length %d) entirely", expr, al.MinLength, al.MaxLength, c18Quote(s), len(s))
		}
		if !bytes.HasSuffix(s, suffix) {
			return fmt.Sprintf("ConstantSuffix(%q) = %q but the expression matches %s entirely, which does not end with it", expr, suffix, c18Quote(s))
		}
	}
	if c != nil {
		c.Count("members_checked", accepted)
		c.LabelIf(!exact && accepted == 0, "assert:no-accepted-member")
		c.LabelIf(!exact && accepted > 0, "assert:some-accepted-member")
	}
	if !exact {
		return ""
	}
	if len(shortest) != re.MinLen() {
		return fmt.Sprintf("harness self-check: shortest member of %q has length %d, tree minimum %d", expr, len(shortest), re.MinLen())
	}
	if al.MinLength != uint(re.MinLen()) {
		return fmt.Sprintf("AcceptedLength(%q).MinLength = %d, exact minimum is %d (attained by %s)", expr, al.MinLength, re.MinLen(), c18Quote(shortest))
	}
	wantMax, finiteMax := re.MaxLen()
	switch {
	case !finiteMax:
		if al.MaxLength != math.MaxUint {
			w, _ := re.Longer(int(al.MaxLength))
			if !anch.Match(w) {
				return fmt.Sprintf("harness self-check: pumped member %s of %q is not accepted", c18Quote(w), expr)
			}
			return fmt.Sprintf("AcceptedLength(%q).MaxLength = %d but the expression matches %s (length %d) entirely", expr, al.MaxLength, c18Quote(w), len(w))
		}
	case al.MaxLength == math.MaxUint:
		// bounded language, computed maximum unbounded: over-approximation, not claimed exact by the property
		if c != nil {
			c.Label("max-unbounded-for-bounded-language")
			feats := strings.Join(re.Features(), ",")
			c.LabelIf(!strings.Contains(feats, "loop-of-empty-only"), "max-unbounded-for-bounded-language:without-empty-loop")
		}
	default:
		if len(longest) != wantMax {
			return fmt.Sprintf("harness self-check: longest member of %q has length %d, tree maximum %d", expr, len(longest), wantMax)
		}
		if al.MaxLength != uint(wantMax) {
			return fmt.Sprintf("AcceptedLength(%q).MaxLength = %d is not attained: exact maximum is %d (attained by %s)", expr, al.MaxLength, wantMax, c18Quote(longest))
		}
	}
	return ""
}

func TestVerifC18(t *testing.T) {
	open := vlib.OpenFindings()
	plain := vregex.Gen(vregex.Config{})
	withAssert := vregex.Gen(vregex.Config{Assertions: true})
	vlib.Check(t, "C18", func(rt *rapid.T, c *vlib.Case) {
		g := plain
		if vregex.Uniform(rt, 10, "assertions") >= 6 {
			g = withAssert
		}
		re := g.Draw(rt, "re")
		expr := re.Render()
		var samples [][]byte
		c.Render(func() any {
			mx, fin := re.MaxLen()
			ss := []string{}
			seen := map[string]bool{}
			for _, s := range samples {
				if !seen[string(s)] && len(ss) < 12 {
					seen[string(s)] = true
					ss = append(ss, c18Quote(s))
				}
			}
			return map[string]any{"regex": expr, "tree_min": re.MinLen(), "tree_max": mx, "tree_max_finite": fin, "samples": ss}
		})
		for i := 0; i < c18Samples; i++ {
			samples = append(samples, re.Sample(rt, "s"))
		}
		feats := re.Features()
		for _, f := range feats {
			c.Label("re:" + f)
		}
		c.LabelIf(re.HasAssertion(), "class:with-assertions")
		c.LabelIf(!re.HasAssertion(), "class:assertion-free")
		c.LabelIf(re.HasFold(), "class:fold")
		if open[c18FindingStaleCache] && c18StaleCacheRead(expr) {
			c.Count("excluded_known", 1)
			c.Discard("open:" + c18FindingStaleCache)
			return
		}
		if msg := c18Check(re, samples, c); msg != "" {
			rt.Fatalf("%s", msg)
		}
		// callers analyse every payload filter of a query first and use the results afterwards: what was
		// returned for one expression must not change when another expression is analysed
		if first, err := ConstantSuffix(expr); err == nil {
			kept := append([]byte(nil), first...)
			other := g.Draw(rt, "other").Render()
			_, _ = ConstantSuffix(other)
			_, _ = AcceptedLength(other)
			second, _ := ConstantSuffix(expr)
			if !bytes.Equal(first, kept) {
				rt.Fatalf("ConstantSuffix(%q) returned %s; after analysing %q the returned slice holds %s", expr, c18Quote(kept), other, c18Quote(first))
			}
			if !bytes.Equal(second, kept) {
				rt.Fatalf("ConstantSuffix(%q) = %s, after analysing %q it is %s", expr, c18Quote(kept), other, c18Quote(second))
			}
			c.LabelIf(len(kept) > 0, "suffix-kept-across-another-analysis")
		}
		// non-trivial: more than a plain literal/class sequence
		for _, f := range feats {
			switch f {
			case "alt", "star", "plus", "quest", "{n}", "{n,}", "{n,m}", "assert":
				c.NonTrivial(expr)
				return
			}
		}
		if re.HasFold() {
			c.NonTrivial(expr)
		}
	})
}

// Probes of known findings (regression cases once they are repaired).
func TestVerifC18Fixed(t *testing.T) {
	vlib.Fixed(t, "C18", []string{c18FindingStaleCache}, func(name string) (string, any) {
		switch name {
		case c18FindingStaleCache:
			for _, tc := range []struct {
				expr     string
				min, max uint
			}{
				{`a?b+`, 1, math.MaxUint},
				{`-?\d+`, 1, math.MaxUint},
				{`a?(?:b|c)+`, 1, math.MaxUint},
				{`x(?:ab)?(c)+y`, 3, math.MaxUint},
				{`a{0,2}b{1,}?`, 1, math.MaxUint},
			} {
				got, err := AcceptedLength(tc.expr)
				if err != nil {
					return fmt.Sprintf("AcceptedLength(%q): %v", tc.expr, err), tc.expr
				}
				if got.MinLength != tc.min || got.MaxLength != tc.max {
					return fmt.Sprintf("AcceptedLength(%q) = [%d,%d], exact is [%d,%d]", tc.expr, got.MinLength, got.MaxLength, tc.min, tc.max), tc.expr
				}
			}
		}
		return "", nil
	})
}
