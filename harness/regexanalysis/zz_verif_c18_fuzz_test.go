package regexanalysis

// C18 (coverage-guided campaign, thorough tier) — arbitrary expression texts and arbitrary haystacks: every
// match the engine (rsc.io/binaryregexp, the one the payload search uses) finds in the haystack must have a
// length inside [MinLength, MaxLength] and end with the constant suffix. Reaches syntax the tree generator of
// the main campaign does not produce (unicode classes, odd flag groups, escapes, literals above 0xFF).

import (
	"bytes"
	"math"
	"testing"

	"github.com/spq/pkappa2/internal/verif/vregex"
	"rsc.io/binaryregexp"
	"rsc.io/binaryregexp/syntax"
)

// c18Paths bounds the number of paths through the expression (ConstantSuffix enumerates them).
func c18Paths(re *syntax.Regexp) float64 {
	switch re.Op {
	case syntax.OpConcat:
		p := 1.0
		for _, s := range re.Sub {
			p *= c18Paths(s)
		}
		return p
	case syntax.OpAlternate:
		p := 0.0
		for _, s := range re.Sub {
			p += c18Paths(s)
		}
		return p
	case syntax.OpCapture:
		return c18Paths(re.Sub[0])
	case syntax.OpStar, syntax.OpPlus, syntax.OpQuest:
		return c18Paths(re.Sub[0]) + 1
	case syntax.OpRepeat:
		n := re.Max
		if n < 0 {
			n = re.Min + 1
		}
		return math.Pow(c18Paths(re.Sub[0])+1, float64(n))
	}
	return 1
}

func FuzzVerifC18(f *testing.F) {
	gen := vregex.Gen(vregex.Config{Assertions: true})
	for seed := 1; seed <= 200; seed++ {
		re := gen.Example(seed)
		f.Add(re.Render(), []byte("xxabcab0129 \r\nzz"))
	}
	for _, e := range []string{`\p{Greek}+`, `[^\x00-\x7f]{2}`, `(?i:straße|STRASSE)`, `\x{100}a?`, `(?s).\z`, `a?b+`, `(?:END|FIN)D?`, `\bfoo\B.`, `[[:alpha:]]{2,3}$`, `\Qa.b\E+`, `(?U)a+?b*`, `\C\C`} {
		f.Add(e, []byte("straße STRASSE \xce\xb1\xce\xb2 ENDD FIN foo. ab\n"))
	}
	f.Fuzz(func(t *testing.T, expr string, hay []byte) {
		if len(expr) > 48 || len(hay) > 256 {
			t.Skip()
		}
		parsed, err := syntax.Parse(expr, syntax.Perl)
		if err != nil {
			t.Skip()
		}
		if c18Paths(parsed.Simplify()) > 2000 {
			t.Skip() // cost bound, as in the main campaign
		}
		rx, err := binaryregexp.Compile(expr)
		if err != nil {
			t.Skip()
		}
		al, err := AcceptedLength(expr)
		if err != nil {
			t.Fatalf("AcceptedLength(%q) fails for an expression binaryregexp.Compile accepts: %v", expr, err)
		}
		suffix, err := ConstantSuffix(expr)
		if err != nil {
			t.Fatalf("ConstantSuffix(%q) fails for an expression binaryregexp.Compile accepts: %v", expr, err)
		}
		if al.MinLength > al.MaxLength {
			t.Fatalf("AcceptedLength(%q) = [%d,%d]: minimum above maximum", expr, al.MinLength, al.MaxLength)
		}
		// every match found anywhere in the haystack (all start positions: Find on each suffix)
		for start := 0; start <= len(hay); start++ {
			loc := rx.FindIndex(hay[start:])
			if loc == nil {
				break
			}
			m := hay[start+loc[0] : start+loc[1]]
			if uint(len(m)) < al.MinLength || uint(len(m)) > al.MaxLength {
				t.Fatalf("AcceptedLength(%q) = [%d,%d] but the expression matches %q (length %d) in %q", expr, al.MinLength, al.MaxLength, m, len(m), hay)
			}
			if !bytes.HasSuffix(m, suffix) {
				t.Fatalf("ConstantSuffix(%q) = %q but the expression matches %q in %q, which does not end with it", expr, suffix, m, hay)
			}
			start += loc[0]
		}
	})
}
