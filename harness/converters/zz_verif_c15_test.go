package converters

// C15 — the converter cache behaves like a map from stream to latest output.
//
// Model-based state machine over one cache file (opened through NewCache, so
// cache.go's pass-throughs are exercised as well) and eight stream ids.
// See DESIGN.md §5 C15.
//
// Model: id -> latest stored version (chunk list + the stream's first-packet
// time the list was stored with).  After every operation every id of the pool
// is read back through data(), DataForSearch(), Contains() and StreamCount()
// and compared with the model.
//
// Input domain (derived from the callers, see converters.go / cache.go):
//   * chunk lists as the converter front end can hand them to SetData: any
//     direction sequence (server first, same-direction runs), non-empty
//     contents (a zero length is the on-disk direction-flip marker; empty
//     chunks are not generated), any content-type string on any subset,
//     chunk times anywhere around the stream's first-packet time.
//   * chunk times are whole microseconds *relative to the first-packet time*
//     (what index.Stream.Data() yields: FirstPacket()+k µs; the first-packet
//     time itself carries arbitrary nanoseconds).  Times with a sub-µs
//     fraction relative to the base are a separate labelled class.  The
//     oracle for every time is |read-stored| < 1µs ("to the microsecond").
//
// Truncate+Reopen: the file is cut at a generated offset; an independent
// scanner/decoder of the on-disk format (c15Scan/c15Decode below) tells which
// records lie completely before the cut; the expected content of an id is the
// last such record of that id unless that record had been invalidated.

import (
	"bytes"
	"encoding/binary"
	"fmt"
	"hash/fnv"
	"os"
	"path/filepath"
	"sort"
	"strings"
	"testing"
	"time"

	"github.com/spq/pkappa2/internal/index"
	"github.com/spq/pkappa2/internal/tools/bitmask"
	"github.com/spq/pkappa2/internal/verif/vlib"
	"pgregory.net/rapid"
)

const (
	c15FInvalidate = "F-C15-invalidate-not-persisted"
	c15FTruncated  = "F-C15-truncated-tail-unopenable"
	c15FDrift      = "F-C15-subus-time-drift"
)

// c15EmptyChunks adds zero-length chunk contents to the domain. Off by
// default: DESIGN.md excludes them (a zero length is the format's direction
// flip marker). Note that converters.go does not drop empty chunks a converter
// prints, and storing one makes the record unreadable; set VERIF_C15_EMPTY=1
// to see it.
var c15EmptyChunks = os.Getenv("VERIF_C15_EMPTY") == "1"

var c15Pool = []uint64{0, 1, 2, 3, 7, 64, 65, 70000}

var c15Epoch = time.Date(2020, 1, 1, 0, 0, 0, 0, time.UTC)

var c15ContentTypes = []string{
	"text/plain", "application/json", "a", "\x00\xff\x80", "image/png; q=0.8",
	strings.Repeat("x", 127), strings.Repeat("y", 128), strings.Repeat("z", 300),
}

// c15Version is one stored chunk list of one id.
type c15Version struct {
	id     uint64
	t0     time.Time
	chunks []index.Data
	whole  bool // every chunk time is t0 + whole microseconds
	killed bool // an Invalidate covered it
	desc   string
}

type c15State struct {
	dir      string
	cache    *CachedConverter
	model    map[uint64]*c15Version
	versions map[uint64][]*c15Version
}

// c15TempDir creates the per-case directory. Close() fsyncs the cache file,
// which dominates the run time on a disk backed TMPDIR; the campaign config
// points VERIF_C15_TMP at a tmpfs (the per-shard TMPDIR of the driver is the
// fallback). Every case removes its directory.
func c15TempDir() (string, error) {
	if base := os.Getenv("VERIF_C15_TMP"); base != "" {
		if d, err := os.MkdirTemp(base, "verif-c15-"); err == nil {
			return d, nil
		}
	}
	return os.MkdirTemp("", "c15-")
}

func (s *c15State) path() string { return s.cache.cacheFile.cachePath }

func (s *c15State) open() error {
	c, err := NewCache("verif", "/nonexistent/verif-converter", s.dir)
	if err != nil {
		return err
	}
	s.cache = c
	return nil
}

// closeQuietly releases the descriptor without the fsync of Close().
func (s *c15State) closeQuietly() {
	if s.cache != nil {
		_ = s.cache.cacheFile.file.Close()
		s.cache = nil
	}
}

func (s *c15State) fileSize() int64 {
	fi, err := os.Stat(s.path())
	if err != nil {
		return -1
	}
	return fi.Size()
}

// ---------------------------------------------------------------------------
// generators

// c15Pct draws a percentage. rapid's integer ranges favour small values; the
// multiplication spreads that favour over the whole range (0 stays 0, so
// shrinking still moves towards the first alternative).
func c15Pct(t *rapid.T, label string) int {
	return rapid.IntRange(0, 99).Draw(t, label) * 37 % 100
}

func c15Pattern(n int, seed uint64) []byte {
	b := make([]byte, n)
	x := (seed+1)*0x9E3779B97F4A7C15 | 1
	i := 0
	for ; i+8 <= n; i += 8 {
		x ^= x << 13
		x ^= x >> 7
		x ^= x << 17
		binary.LittleEndian.PutUint64(b[i:], x)
	}
	for ; i < n; i++ {
		x ^= x << 13
		x ^= x >> 7
		x ^= x << 17
		b[i] = byte(x)
	}
	return b
}

func c15ContentGen(t *rapid.T, big bool) []byte {
	if big {
		n := rapid.IntRange(3<<20, 6<<20).Draw(t, "biglen")
		return c15Pattern(n, rapid.Uint64Range(0, 1<<20).Draw(t, "bigseed"))
	}
	k := c15Pct(t, "ckind")
	switch {
	case c15EmptyChunks && k >= 60 && k < 70:
		return []byte{}
	case k < 70:
		return rapid.SliceOfN(rapid.Byte(), 1, 8).Draw(t, "bytes")
	case k < 80:
		n := rapid.SampledFrom([]int{126, 127, 128, 129, 255, 256, 300}).Draw(t, "len")
		return c15Pattern(n, rapid.Uint64Range(0, 255).Draw(t, "seed"))
	case k < 90:
		n := rapid.SampledFrom([]int{4087, 4088, 4095, 4096, 4097, 8191, 8192, 8193}).Draw(t, "len")
		return c15Pattern(n, rapid.Uint64Range(0, 255).Draw(t, "seed"))
	case k < 97:
		n := rapid.SampledFrom([]int{16383, 16384, 16385, 20000}).Draw(t, "len")
		return c15Pattern(n, rapid.Uint64Range(0, 255).Draw(t, "seed"))
	default:
		n := rapid.SampledFrom([]int{65535, 65536, 65537, 100000}).Draw(t, "len")
		return c15Pattern(n, rapid.Uint64Range(0, 255).Draw(t, "seed"))
	}
}

type c15GenOpts struct {
	big       bool // one chunk of 3..6 MiB
	allowFrac bool
}

// c15VersionGen draws a chunk list. fracSuppressed reports that the
// sub-microsecond class was drawn but suppressed by an open finding.
func c15VersionGen(t *rapid.T, id uint64, o c15GenOpts) (v *c15Version, fracSuppressed bool) {
	v = &c15Version{id: id, whole: true}
	sec := rapid.Int64Range(0, 600000000).Draw(t, "t0sec")
	var ns int64
	switch rapid.IntRange(0, 2).Draw(t, "t0frac") {
	case 0:
	case 1:
		ns = int64(rapid.IntRange(0, 999999).Draw(t, "t0us")) * 1000
	default:
		ns = int64(rapid.IntRange(0, 999999999).Draw(t, "t0ns"))
	}
	v.t0 = c15Epoch.Add(time.Duration(sec)*time.Second + time.Duration(ns))

	var n int
	switch k := c15Pct(t, "nkind"); {
	case o.big:
		n = rapid.IntRange(1, 3).Draw(t, "n")
	case k < 5:
		n = 0
	case k < 65:
		n = rapid.IntRange(1, 6).Draw(t, "n")
	case k < 90:
		n = rapid.IntRange(7, 20).Draw(t, "n")
	default:
		n = rapid.IntRange(21, 80).Draw(t, "n")
	}
	nonmono := rapid.IntRange(0, 3).Draw(t, "nonmono") == 0
	frac := rapid.IntRange(0, 9).Draw(t, "frac") == 0
	if frac && !o.allowFrac {
		frac, fracSuppressed = false, true
	}
	ctMode := rapid.IntRange(0, 9).Draw(t, "ctmode") // 0..3 none, 4 all the same, 5..9 subset
	var ctAll string
	if ctMode == 4 {
		ctAll = rapid.SampledFrom(c15ContentTypes).Draw(t, "ctall")
	}
	bigAt := -1
	if o.big {
		bigAt = rapid.IntRange(0, n-1).Draw(t, "bigat")
	}
	dir := index.DirectionClientToServer
	if rapid.IntRange(0, 9).Draw(t, "serverfirst") < 4 {
		dir = index.DirectionServerToClient
	}
	cur := v.t0
	for i := 0; i < n; i++ {
		if i > 0 && rapid.IntRange(0, 9).Draw(t, "flip") < 6 {
			dir = dir.Reverse()
		}
		var us int64
		switch k := c15Pct(t, "dkind"); {
		case k < 20:
			us = 0
		case k < 55:
			us = int64(rapid.IntRange(1, 1000).Draw(t, "dus"))
		case k < 70:
			us = rapid.SampledFrom([]int64{127, 128, 129, 16383, 16384, 16385, 2097151, 2097152, 1 << 28, 1<<35 + 1}).Draw(t, "dedge")
		case k < 85:
			us = rapid.Int64Range(1000, 3600*1000000).Draw(t, "dbig")
		default:
			if nonmono {
				us = -rapid.Int64Range(1, 5000000).Draw(t, "dneg")
			} else {
				us = int64(rapid.IntRange(1, 50).Draw(t, "dus2"))
			}
		}
		d := time.Duration(us) * time.Microsecond
		if frac {
			d += time.Duration(rapid.IntRange(-999, 999).Draw(t, "dns"))
		}
		cur = cur.Add(d)
		ct := ""
		switch {
		case ctMode == 4:
			ct = ctAll
		case ctMode >= 5:
			if rapid.IntRange(0, 2).Draw(t, "hasct") == 0 {
				ct = rapid.SampledFrom(c15ContentTypes).Draw(t, "ct")
			}
		}
		v.chunks = append(v.chunks, index.Data{
			Direction:   dir,
			Content:     c15ContentGen(t, i == bigAt),
			Time:        cur,
			ContentType: ct,
		})
	}
	for _, c := range v.chunks {
		if c.Time.Sub(v.t0)%time.Microsecond != 0 {
			v.whole = false
		}
	}
	v.desc = c15Describe(v)
	return v, fracSuppressed
}

func c15Describe(v *c15Version) string {
	var sb strings.Builder
	fmt.Fprintf(&sb, "t0=%s [", v.t0.Format("2006-01-02T15:04:05.999999999"))
	last := v.t0
	for i, c := range v.chunks {
		if i > 0 {
			sb.WriteByte(' ')
		}
		if c.Direction == index.DirectionClientToServer {
			sb.WriteByte('C')
		} else {
			sb.WriteByte('S')
		}
		if len(c.Content) <= 10 {
			fmt.Fprintf(&sb, ":%x", c.Content)
		} else {
			h := fnv.New32a()
			h.Write(c.Content)
			fmt.Fprintf(&sb, ":len%d#%08x", len(c.Content), h.Sum32())
		}
		d := c.Time.Sub(last)
		if d%time.Microsecond == 0 {
			fmt.Fprintf(&sb, ":%+dus", int64(d/time.Microsecond))
		} else {
			fmt.Fprintf(&sb, ":%+dns", int64(d))
		}
		last = c.Time
		if c.ContentType != "" {
			if len(c.ContentType) > 20 {
				fmt.Fprintf(&sb, ":ct=%q..(%d)", c.ContentType[:4], len(c.ContentType))
			} else {
				fmt.Fprintf(&sb, ":ct=%q", c.ContentType)
			}
		}
	}
	sb.WriteByte(']')
	return sb.String()
}

// ---------------------------------------------------------------------------
// oracle: reading back one id

// c15TimeOK: "timestamps to the microsecond" is read in its weakest sense:
// the time read back differs from the stored one by less than a microsecond.
// (The unchanged code returns lists whose times are whole microseconds after
// the first-packet time exactly; that is more than the property states.)
func c15TimeOK(got, want time.Time) bool {
	d := got.Sub(want)
	return d > -time.Microsecond && d < time.Microsecond
}

func c15CheckID(s *c15State, id uint64) string {
	v := s.model[id]
	if got := s.cache.Contains(id); got != (v != nil) {
		return fmt.Sprintf("Contains(%d)=%v, model has entry: %v", id, got, v != nil)
	}
	t0 := c15Epoch
	if v != nil {
		t0 = v.t0
	}
	data, cb, sb, err := s.cache.cacheFile.data(id, t0)
	if err != nil {
		return fmt.Sprintf("data(%d) failed: %v", id, err)
	}
	fs, sizes, fcb, fsb, present, err := s.cache.DataForSearch(id)
	if err != nil {
		return fmt.Sprintf("DataForSearch(%d) failed: %v", id, err)
	}
	if v == nil {
		if data != nil || cb != 0 || sb != 0 {
			return fmt.Sprintf("data(%d) serves %d chunks (%d/%d bytes) for an id that was never stored or was invalidated/reset/cut away", id, len(data), cb, sb)
		}
		if present || len(fs[0]) != 0 || len(fs[1]) != 0 || fcb != 0 || fsb != 0 {
			return fmt.Sprintf("DataForSearch(%d) serves data (present=%v, %d/%d bytes) for an id that is not in the model", id, present, len(fs[0]), len(fs[1]))
		}
		return ""
	}
	if len(data) != len(v.chunks) {
		return fmt.Sprintf("data(%d) returned %d chunks, stored %d (%s)", id, len(data), len(v.chunks), v.desc)
	}
	var want [2]uint64
	for i, w := range v.chunks {
		g := data[i]
		if g.Direction != w.Direction {
			return fmt.Sprintf("data(%d) chunk %d: direction %v, stored %v (%s)", id, i, g.Direction, w.Direction, v.desc)
		}
		if !bytes.Equal(g.Content, w.Content) {
			return fmt.Sprintf("data(%d) chunk %d: content differs (got %d bytes %.16x.., stored %d bytes %.16x..) (%s)", id, i, len(g.Content), g.Content, len(w.Content), w.Content, v.desc)
		}
		if !c15TimeOK(g.Time, w.Time) {
			return fmt.Sprintf("data(%d) chunk %d: time %s, stored %s (diff %v) (%s)", id, i,
				g.Time.Format(time.RFC3339Nano), w.Time.Format(time.RFC3339Nano), g.Time.Sub(w.Time), v.desc)
		}
		if g.ContentType != w.ContentType {
			return fmt.Sprintf("data(%d) chunk %d: content type %q, stored %q (%s)", id, i, g.ContentType, w.ContentType, v.desc)
		}
		want[w.Direction] += uint64(len(w.Content))
	}
	if cb != want[index.DirectionClientToServer] || sb != want[index.DirectionServerToClient] {
		return fmt.Sprintf("data(%d) byte counts %d/%d, stored %d/%d (%s)", id, cb, sb, want[0], want[1], v.desc)
	}
	// DataForSearch: per-direction concatenation + cumulative sizes, one entry
	// per chunk after the leading {0,0} (contract of search_data.go's sources)
	if !present {
		return fmt.Sprintf("DataForSearch(%d) says not cached although the id is stored (%s)", id, v.desc)
	}
	if fcb != want[0] || fsb != want[1] {
		return fmt.Sprintf("DataForSearch(%d) byte counts %d/%d, stored %d/%d (%s)", id, fcb, fsb, want[0], want[1], v.desc)
	}
	if uint64(len(fs[0])) != want[0] || uint64(len(fs[1])) != want[1] {
		return fmt.Sprintf("DataForSearch(%d) buffers %d/%d bytes, stored %d/%d (%s)", id, len(fs[0]), len(fs[1]), want[0], want[1], v.desc)
	}
	if len(sizes) != len(v.chunks)+1 {
		return fmt.Sprintf("DataForSearch(%d) returned %d size entries, want %d (%s)", id, len(sizes), len(v.chunks)+1, v.desc)
	}
	if sizes[0] != [2]int{0, 0} {
		return fmt.Sprintf("DataForSearch(%d) sizes[0]=%v, want [0 0]", id, sizes[0])
	}
	cum := [2]int{}
	for i, w := range v.chunks {
		if !bytes.Equal(fs[w.Direction][cum[w.Direction]:cum[w.Direction]+len(w.Content)], w.Content) {
			return fmt.Sprintf("DataForSearch(%d) direction %d buffer differs from the concatenation at chunk %d (%s)", id, w.Direction, i, v.desc)
		}
		cum[w.Direction] += len(w.Content)
		if sizes[i+1] != cum {
			return fmt.Sprintf("DataForSearch(%d) sizes[%d]=%v, want %v (%s)", id, i+1, sizes[i+1], cum, v.desc)
		}
	}
	return ""
}

func c15CheckAll(s *c15State) string {
	for _, id := range c15Pool {
		if msg := c15CheckID(s, id); msg != "" {
			return msg
		}
	}
	if got := s.cache.Statistics().CachedStreamCount; got != uint64(len(s.model)) {
		return fmt.Sprintf("StreamCount=%d, model has %d entries", got, len(s.model))
	}
	return ""
}

// ---------------------------------------------------------------------------
// independent scanner / decoder of the on-disk format
//
//	file   := "P2CC" u32(1) record*
//	record := u64le(id) size* 0 0 clientbytes serverbytes time{n} (maskbytes string)* 0
//	sizes alternate client,server,...; a single 0 skips a slot; varints are
//	big-endian base-128 with the continuation bit on all but the last byte;
//	time = microseconds since the previous chunk (first: since the stream's
//	first packet) as two's complement u64; maskbytes = little-endian bit
//	stream in 7-bit groups, bit i = chunk i carries the content type.

type c15Rec struct {
	id         uint64
	start, end int64
}

type c15Reader struct {
	b   []byte
	pos int64
	bad bool
}

func (r *c15Reader) byte() byte {
	if r.bad || r.pos >= int64(len(r.b)) {
		r.bad = true
		return 0
	}
	c := r.b[r.pos]
	r.pos++
	return c
}

func (r *c15Reader) varint() uint64 {
	v := uint64(0)
	for {
		c := r.byte()
		if r.bad {
			return 0
		}
		v = v<<7 | uint64(c&0x7f)
		if c < 0x80 {
			return v
		}
	}
}

func (r *c15Reader) take(n uint64) []byte {
	if r.bad || n > uint64(int64(len(r.b))-r.pos) {
		r.bad = true
		return nil
	}
	s := r.b[r.pos : r.pos+int64(n)]
	r.pos += int64(n)
	return s
}

func (r *c15Reader) maskbytes() []byte {
	var out []byte
	acc, bits := uint32(0), 0
	for {
		c := r.byte()
		if r.bad {
			return nil
		}
		acc |= uint32(c&0x7f) << bits
		bits += 7
		if bits >= 8 {
			out = append(out, byte(acc))
			acc >>= 8
			bits -= 8
		}
		if c < 0x80 {
			return out
		}
	}
}

type c15Decoded struct {
	dirs     []index.Direction
	contents [][]byte
	deltas   []int64
	ctypes   []string
}

// c15DecodeAt decodes the record body starting at r.pos; r.bad is set when the
// buffer ends before the record does.
func c15DecodeAt(r *c15Reader, full bool) *c15Decoded {
	d := &c15Decoded{}
	var lens []uint64
	dir := index.DirectionClientToServer
	zeros := 0
	var tot [2]uint64
	for zeros < 2 {
		sz := r.varint()
		if r.bad {
			return nil
		}
		if sz == 0 {
			zeros++
		} else {
			zeros = 0
			d.dirs = append(d.dirs, dir)
			lens = append(lens, sz)
			tot[dir] += sz
		}
		dir = dir.Reverse()
	}
	cl := r.take(tot[0])
	sv := r.take(tot[1])
	if r.bad {
		return nil
	}
	for i, l := range lens {
		if d.dirs[i] == index.DirectionClientToServer {
			d.contents = append(d.contents, cl[:l])
			cl = cl[l:]
		} else {
			d.contents = append(d.contents, sv[:l])
			sv = sv[l:]
		}
	}
	for range lens {
		d.deltas = append(d.deltas, int64(r.varint()))
	}
	if r.bad {
		return nil
	}
	d.ctypes = make([]string, len(lens))
	for {
		m := r.maskbytes()
		if r.bad {
			return nil
		}
		if len(m) == 0 {
			break
		}
		n := r.varint()
		str := r.take(n)
		if r.bad {
			return nil
		}
		if full {
			for i := range lens {
				if i/8 < len(m) && m[i/8]&(1<<(i&7)) != 0 {
					d.ctypes[i] = string(str)
				}
			}
		}
	}
	return d
}

// c15Scan lists the complete records of a cache file image.
func c15Scan(b []byte) []c15Rec {
	var recs []c15Rec
	if len(b) < 8 {
		return nil
	}
	r := &c15Reader{b: b, pos: 8}
	for {
		start := r.pos
		h := r.take(8)
		if r.bad {
			return recs
		}
		if c15DecodeAt(r, false) == nil {
			return recs
		}
		recs = append(recs, c15Rec{id: binary.LittleEndian.Uint64(h), start: start, end: r.pos})
	}
}

func c15Matches(d *c15Decoded, v *c15Version) bool {
	if len(d.dirs) != len(v.chunks) {
		return false
	}
	cur := v.t0
	for i, c := range v.chunks {
		if d.dirs[i] != c.Direction || d.ctypes[i] != c.ContentType || !bytes.Equal(d.contents[i], c.Content) {
			return false
		}
		cur = cur.Add(time.Duration(d.deltas[i]) * time.Microsecond)
		if !c15TimeOK(cur, c.Time) {
			return false
		}
	}
	return true
}

// ---------------------------------------------------------------------------
// the state machine

type c15Mode struct {
	big  bool
	open map[string]bool
}

type c15Stats struct {
	ops        []string
	kinds      map[string]bool
	labels     map[string]bool
	excluded   int
	stores     int
	reopens    int
	compactSt  int
	compactLd  int
	truncs     int
	truncsPart int
	exclFrac   int
	exclZombie int
	exclCut    int
}

func c15Prop(rt *rapid.T, c *vlib.Case, mode c15Mode) {
	dir, err := c15TempDir()
	if err != nil {
		rt.Fatalf("harness: %v", err)
	}
	defer os.RemoveAll(dir)
	s := &c15State{dir: dir, model: map[uint64]*c15Version{}, versions: map[uint64][]*c15Version{}}
	defer s.closeQuietly()
	if err := s.open(); err != nil {
		rt.Fatalf("creating an empty cache failed: %v", err)
	}
	st := &c15Stats{kinds: map[string]bool{}, labels: map[string]bool{}}
	c.Render(func() any { return st.ops })
	log := func(kind, f string, a ...any) {
		st.ops = append(st.ops, kind+" "+fmt.Sprintf(f, a...))
		st.kinds[kind] = true
	}
	idGen := rapid.SampledFrom(c15Pool)

	// ids that were invalidated and not stored again
	zombies := func() []uint64 {
		var z []uint64
		for _, id := range c15Pool {
			vs := s.versions[id]
			if s.model[id] == nil && len(vs) > 0 && vs[len(vs)-1].killed {
				z = append(z, id)
			}
		}
		return z
	}

	var forcedID *uint64
	store := func(t *rapid.T, big bool) {
		var id uint64
		if forcedID != nil {
			id = *forcedID
		} else if z := zombies(); len(z) > 0 && rapid.IntRange(0, 2).Draw(t, "restore") == 0 {
			id = rapid.SampledFrom(z).Draw(t, "zid")
		} else {
			id = idGen.Draw(t, "id")
		}
		v, sup := c15VersionGen(t, id, c15GenOpts{big: big, allowFrac: !mode.open[c15FDrift]})
		if sup {
			st.excluded++
			st.exclFrac++
		}
		kind := "store"
		if big {
			kind = "bigstore"
		}
		log(kind, "%d %s", id, v.desc)
		vs := s.versions[id]
		st.labels["store:fresh-id"] = st.labels["store:fresh-id"] || len(vs) == 0
		st.labels["store:over-live"] = st.labels["store:over-live"] || s.model[id] != nil
		st.labels["store:after-invalidate"] = st.labels["store:after-invalidate"] || (s.model[id] == nil && len(vs) > 0 && vs[len(vs)-1].killed)
		c15LabelVersion(st.labels, v)
		before := s.fileSize()
		if err := s.cache.cacheFile.setData(id, v.t0, v.chunks); err != nil {
			t.Fatalf("setData(%d) failed: %v", id, err)
		}
		if after := s.fileSize(); after < before {
			st.compactSt++
			st.ops[len(st.ops)-1] += fmt.Sprintf(" {compacted %d->%d}", before, after)
		}
		st.stores++
		s.model[id] = v
		s.versions[id] = append(s.versions[id], v)
	}

	var forcedSet []uint64
	invalidate := func(t *rapid.T, most bool) {
		var set []uint64
		k := rapid.IntRange(0, 9).Draw(t, "ikind")
		switch {
		case forcedSet != nil:
			set = forcedSet
		case most:
			for _, id := range c15Pool {
				if rapid.IntRange(0, 9).Draw(t, "in") < 8 {
					set = append(set, id)
				}
			}
		case k < 4:
			set = []uint64{idGen.Draw(t, "id")}
		case k < 9:
			for _, id := range c15Pool {
				if rapid.Bool().Draw(t, "in") {
					set = append(set, id)
				}
			}
		default:
			set = append(set, c15Pool...)
		}
		log("invalidate", "%v", set)
		bm := bitmask.LongBitmask{}
		var want []uint64
		for _, id := range set {
			bm.Set(uint(id))
			if s.model[id] != nil {
				want = append(want, id)
			}
		}
		res := s.cache.InvalidateChangedStreams(&bm)
		var got []uint64
		for b := uint(0); res.Next(&b); b++ {
			got = append(got, uint64(b))
		}
		if fmt.Sprint(got) != fmt.Sprint(want) {
			t.Fatalf("InvalidateChangedStreams(%v) reported %v as invalidated, cached were %v", set, got, want)
		}
		st.labels["invalidate:hit"] = st.labels["invalidate:hit"] || len(want) > 0
		st.labels["invalidate:miss-only"] = st.labels["invalidate:miss-only"] || len(want) == 0
		for _, id := range set {
			delete(s.model, id)
			for _, v := range s.versions[id] {
				v.killed = true
			}
		}
	}

	// reopenAt closes the cache, cuts the file at cut (cut<0: no cut) and opens
	// it again; the model is replaced by what the records lying completely
	// before the cut promise.
	reopenAt := func(t *rapid.T, kind string, pickCut func(img []byte, recs []c15Rec) int64) {
		img, err := os.ReadFile(s.path())
		if err != nil {
			t.Fatalf("harness: %v", err)
		}
		recs := c15Scan(img)
		if n := len(recs); int64(len(img)) != 8 && (n == 0 || recs[n-1].end != int64(len(img))) {
			end := int64(8)
			if n > 0 {
				end = recs[n-1].end
			}
			t.Fatalf("cache file of %d bytes has %d bytes after its last complete record (%d records) although no write was interrupted", len(img), int64(len(img))-end, n)
		}
		cut := int64(len(img))
		if pickCut != nil {
			cut = pickCut(img, recs)
		}
		// classify the cut
		clean := cut == 0 || cut == 8 || cut == int64(len(img))
		for _, r := range recs {
			if r.end == cut {
				clean = true
			}
		}
		// last complete record of every id before the cut
		last := map[uint64]c15Rec{}
		for _, r := range recs {
			if r.end <= cut && cut >= 8 {
				last[r.id] = r
			}
		}
		type exp struct {
			v          *c15Version
			ambiguous  bool // identical chunk lists, one invalidated and one not: either outcome
			zombie     bool // the record had been invalidated
			superseded bool // an older chunk list of an id that was stored again later: served or gone
		}
		expect := map[uint64]exp{}
		anyZombie := false
		for id, r := range last {
			known := false
			for _, p := range c15Pool {
				known = known || p == id
			}
			if !known {
				// not a record of any id the model knows (e.g. a record whose
				// id was overwritten to retire it): nothing is expected of it
				st.labels["file:record-with-foreign-id"] = true
				continue
			}
			rd := &c15Reader{b: img[:r.end], pos: r.start + 8}
			d := c15DecodeAt(rd, true)
			if d == nil || rd.pos != r.end {
				t.Fatalf("reference decoder: record of id %d at [%d,%d) does not decode", id, r.start, r.end)
			}
			var live, dead *c15Version
			vs := s.versions[id]
			for i := len(vs) - 1; i >= 0; i-- {
				if !c15Matches(d, vs[i]) {
					continue
				}
				if vs[i].killed && dead == nil {
					dead = vs[i]
				}
				if !vs[i].killed && live == nil {
					live = vs[i]
				}
			}
			switch {
			case live == nil && dead == nil:
				t.Fatalf("record of id %d at [%d,%d) of the cache file matches no chunk list ever stored for that id", id, r.start, r.end)
			case live != nil && dead == nil:
				// A record that a later, completely written store of the same
				// id had superseded: the cut is made after the fact, so an
				// implementation that retires superseded records in place
				// (instead of only at load time) legitimately serves nothing.
				expect[id] = exp{v: live, superseded: s.model[id] != live && !(s.model[id] != nil && c15SameVersion(s.model[id], live))}
			case live == nil:
				expect[id] = exp{zombie: true}
				anyZombie = true
			default:
				expect[id] = exp{v: live, ambiguous: true, zombie: true}
				anyZombie = true
			}
		}
		if pickCut == nil {
			// plain reopen: the map must simply be unchanged. The last record
			// of a stored id must be its latest version; ids without an entry
			// whose records are still in the file are the invalidated ones.
			anyZombie = false
			for _, id := range c15Pool {
				e, has := expect[id]
				m := s.model[id]
				switch {
				case m != nil && (!has || e.v == nil || (e.v != m && !c15SameVersion(e.v, m))):
					t.Fatalf("the last record of id %d in the cache file is not the latest stored chunk list (%s)", id, m.desc)
				case m != nil:
					expect[id] = exp{v: m}
				case has:
					expect[id] = exp{zombie: true}
					anyZombie = true
				}
			}
		}
		if mode.open[c15FInvalidate] && anyZombie {
			st.excluded++
			st.exclZombie++
			t.Skip("open finding: an invalidated record would be visible to the loader")
		}
		if mode.open[c15FTruncated] && !clean {
			st.excluded++
			st.exclCut++
			t.Skip("open finding: cut inside a record")
		}
		log(kind, "cut=%d of %d clean=%v", cut, len(img), clean)
		if pickCut != nil {
			st.truncs++
			switch {
			case cut > 0 && cut < 8:
				st.labels["trunc:in-file-header"] = true
			case !clean:
				st.truncsPart++
				st.labels["trunc:mid-record"] = true
				if n := len(recs); n > 0 && cut > recs[n-1].start {
					st.labels["trunc:mid-last-record"] = true
				} else {
					st.labels["trunc:mid-earlier-record"] = true
				}
			case cut == int64(len(img)):
				st.labels["trunc:nothing"] = true
			default:
				st.labels["trunc:record-boundary"] = true
			}
		} else {
			st.reopens++
		}
		st.labels["reopen:invalidated-record-visible"] = st.labels["reopen:invalidated-record-visible"] || anyZombie
		for _, id := range c15Pool {
			if vs := s.versions[id]; s.model[id] != nil && len(vs) >= 2 && vs[len(vs)-2].killed {
				st.labels["reopen:after-invalidate+store"] = true
			}
		}
		// the process may also die instead of closing the cache: everything it wrote stays, nothing else happens
		if c15Pct(t, "killed") < 40 {
			st.labels["reopen:after-kill(no Close)"] = true
			log(kind, "process killed, no Close")
			s.closeQuietly()
		} else if err := s.cache.Close(); err != nil {
			t.Fatalf("Close failed: %v", err)
		}
		s.cache = nil
		if cut != int64(len(img)) {
			if err := os.Truncate(filepath.Join(s.dir, "converterindex-verif.cidx"), cut); err != nil {
				t.Fatalf("harness: %v", err)
			}
		}
		if err := s.open(); err != nil {
			t.Fatalf("reopening the cache file (%d bytes, cut at %d, clean=%v) failed: %v", len(img), cut, clean, err)
		}
		if after := s.fileSize(); after < cut {
			if clean {
				st.compactLd++
			}
			st.ops[len(st.ops)-1] += fmt.Sprintf(" {file %d after open}", after)
		}
		newModel := map[uint64]*c15Version{}
		for _, id := range c15Pool {
			e, ok := expect[id]
			if !ok {
				if s.model[id] != nil {
					st.labels["trunc:lost-entry"] = true
				}
				continue
			}
			switch {
			case e.ambiguous:
				st.labels["reopen:ambiguous"] = true
				if s.cache.Contains(id) {
					newModel[id] = e.v
				}
			case e.zombie:
			case e.superseded:
				if s.cache.Contains(id) {
					newModel[id] = e.v
					st.labels["trunc:older-version-served"] = true
				} else {
					st.labels["trunc:older-version-gone"] = true
				}
			default:
				newModel[id] = e.v
			}
		}
		s.model = newModel
	}

	reset := func(t *rapid.T) {
		log("reset", "")
		if err := s.cache.Reset(); err != nil {
			t.Fatalf("Reset failed: %v", err)
		}
		s.model = map[uint64]*c15Version{}
		s.versions = map[uint64][]*c15Version{}
	}
	truncate := func(t *rapid.T) {
		reopenAt(t, "truncate", func(img []byte, recs []c15Rec) int64 {
			n := int64(len(img))
			k := c15Pct(t, "cutkind")
			switch {
			case len(recs) > 0 && k < 45: // inside the last record
				r := recs[len(recs)-1]
				return rapid.Int64Range(r.start+1, r.end-1).Draw(t, "cut")
			case len(recs) > 0 && k < 55: // inside some record's id header
				r := recs[rapid.IntRange(0, len(recs)-1).Draw(t, "rec")]
				return r.start + int64(rapid.IntRange(1, 7).Draw(t, "off"))
			case len(recs) > 0 && k < 70: // a record boundary
				r := recs[rapid.IntRange(0, len(recs)-1).Draw(t, "rec")]
				return r.start
			case k < 78:
				return int64(rapid.IntRange(0, 7).Draw(t, "cut"))
			default:
				return rapid.Int64Range(0, n).Draw(t, "cut")
			}
		})
	}
	// weights in percent: store, bigstore, invalidate, invalidate-most, reopen, truncate, reset
	weights := []int{56, 0, 16, 0, 14, 13, 1}
	if mode.big {
		weights = []int{12, 40, 6, 20, 6, 8, 8}
	}
	actions := map[string]func(*rapid.T){
		"op": func(t *rapid.T) {
			k := c15Pct(t, "op")
			i := 0
			for ; i < len(weights)-1 && k >= weights[i]; i++ {
				k -= weights[i]
			}
			switch i {
			case 0:
				store(t, false)
			case 1:
				store(t, true)
			case 2:
				invalidate(t, false)
			case 3:
				invalidate(t, true)
			case 4:
				reopenAt(t, "reopen", nil)
			case 5:
				truncate(t)
			default:
				reset(t)
				if mode.big && rapid.Bool().Draw(t, "resetmacro") {
					// after a reset: a few records that stay, several big ones behind them that are
					// invalidated (>= 16 MiB and half of the file free), then one more store, which
					// compacts inside the same process (a reopen would recompute the accounting)
					perm := rapid.Permutation(c15Pool).Draw(t, "macroids")
					nKeep := rapid.IntRange(1, 2).Draw(t, "macrokeep")
					for i, id := range perm {
						id := id
						forcedID = &id
						store(t, i >= nKeep || rapid.Bool().Draw(t, "keepbig"))
					}
					forcedID = nil
					forcedSet = append([]uint64{}, perm[nKeep:]...)
					sort.Slice(forcedSet, func(i, j int) bool { return forcedSet[i] < forcedSet[j] })
					invalidate(t, false)
					forcedSet = nil
					store(t, false)
					st.labels["macro:reset-then-compact"] = true
				}
			}
		},
		"": func(t *rapid.T) {
			if msg := c15CheckAll(s); msg != "" {
				t.Fatalf("%s", msg)
			}
		},
	}
	rt.Repeat(actions)

	c.Count("operations", len(st.ops))
	c.Count("stores", st.stores)
	c.Count("reopens", st.reopens)
	c.Count("truncations", st.truncs)
	c.Count("truncations_mid_record", st.truncsPart)
	c.Count("compactions_on_store", st.compactSt)
	c.Count("compactions_on_load", st.compactLd)
	c.Count("excluded_known", st.excluded)
	c.Count("excluded_subus_time_lists", st.exclFrac)
	c.Count("excluded_reopen_with_invalidated_record", st.exclZombie)
	c.Count("excluded_cut_inside_record", st.exclCut)
	for k := range st.kinds {
		c.Label("op:" + k)
	}
	for k, v := range st.labels {
		if v {
			c.Label(k)
		}
	}
	c.LabelIf(st.compactSt > 0, "compaction:on-store")
	c.LabelIf(st.compactLd > 0, "compaction:on-load")
	c.LabelIf(st.reopens+st.truncs > 1, "reopen>1")
	nontriv := st.stores >= 2 && len(st.ops) >= 4 &&
		(st.kinds["reopen"] || st.kinds["truncate"] || st.kinds["invalidate"] || st.compactSt > 0 || st.labels["store:over-live"])
	if nontriv {
		c.NonTrivial(strings.Join(st.ops, ";"))
	}
}

func c15SameVersion(a, b *c15Version) bool {
	if len(a.chunks) != len(b.chunks) || !a.t0.Equal(b.t0) {
		return false
	}
	for i := range a.chunks {
		x, y := a.chunks[i], b.chunks[i]
		if x.Direction != y.Direction || x.ContentType != y.ContentType || !x.Time.Equal(y.Time) || !bytes.Equal(x.Content, y.Content) {
			return false
		}
	}
	return true
}

func c15LabelVersion(l map[string]bool, v *c15Version) {
	n := len(v.chunks)
	l["list:empty"] = l["list:empty"] || n == 0
	l["list:>8chunks"] = l["list:>8chunks"] || n > 8
	l["list:>64chunks"] = l["list:>64chunks"] || n > 64
	if n == 0 {
		return
	}
	l["list:server-first"] = l["list:server-first"] || v.chunks[0].Direction == index.DirectionServerToClient
	cts := map[string]bool{}
	last := v.t0
	for i, c := range v.chunks {
		if i > 0 && v.chunks[i-1].Direction == c.Direction {
			l["list:same-direction-run"] = true
		}
		if c.ContentType != "" {
			cts[c.ContentType] = true
		}
		if c.Time.Before(last) {
			l["time:non-monotonic"] = true
		}
		if c.Time.Before(v.t0) {
			l["time:before-first-packet"] = true
		}
		last = c.Time
		switch sz := len(c.Content); {
		case sz >= 1<<20:
			l["chunk:>=1MiB"] = true
		case sz >= 4096:
			l["chunk:>=4096"] = true
		case sz >= 128:
			l["chunk:>=128"] = true
		}
	}
	l["time:sub-microsecond"] = l["time:sub-microsecond"] || !v.whole
	l["ctype:some"] = l["ctype:some"] || len(cts) > 0
	l["ctype:several"] = l["ctype:several"] || len(cts) > 1
}

func TestVerifC15(t *testing.T) {
	open := vlib.OpenFindings()
	vlib.Check(t, "C15", func(rt *rapid.T, c *vlib.Case) { c15Prop(rt, c, c15Mode{open: open}) })
}

// TestVerifC15Big is the same machine with 3..6 MiB chunks so that the
// compaction inside setData (>=16 MiB and >=50% of the file free) is reached.
func TestVerifC15Big(t *testing.T) {
	open := vlib.OpenFindings()
	vlib.Check(t, "C15", func(rt *rapid.T, c *vlib.Case) { c15Prop(rt, c, c15Mode{big: true, open: open}) })
}

// ---------------------------------------------------------------------------
// fixed cases: probes of the findings

func c15Fixed(name string) (msg string, rendering any) {
	dir, err := c15TempDir()
	if err != nil {
		return "harness: " + err.Error(), nil
	}
	defer os.RemoveAll(dir)
	s := &c15State{dir: dir, model: map[uint64]*c15Version{}, versions: map[uint64][]*c15Version{}}
	defer s.closeQuietly()
	if err := s.open(); err != nil {
		return "creating an empty cache failed: " + err.Error(), nil
	}
	t0 := c15Epoch.Add(1500 * time.Nanosecond)
	mk := func(id uint64, payload string, step time.Duration) *c15Version {
		v := &c15Version{id: id, t0: t0, whole: step%time.Microsecond == 0}
		for i, w := range strings.Fields(payload) {
			d := index.DirectionClientToServer
			if i%2 == 1 {
				d = index.DirectionServerToClient
			}
			v.chunks = append(v.chunks, index.Data{Direction: d, Content: []byte(w), Time: t0.Add(time.Duration(i+1) * step)})
		}
		v.desc = c15Describe(v)
		return v
	}
	put := func(v *c15Version) string {
		if err := s.cache.cacheFile.setData(v.id, v.t0, v.chunks); err != nil {
			return fmt.Sprintf("setData(%d) failed: %v", v.id, err)
		}
		s.model[v.id] = v
		return ""
	}
	switch name {
	case c15FInvalidate:
		rendering = []string{"store 1 [C:req S:resp]", "store 2 [C:x]", "invalidate [1]", "reopen", "read 1"}
		for _, v := range []*c15Version{mk(1, "req resp", time.Millisecond), mk(2, "x", time.Millisecond)} {
			if m := put(v); m != "" {
				return m, rendering
			}
		}
		bm := bitmask.LongBitmask{}
		bm.Set(1)
		s.cache.InvalidateChangedStreams(&bm)
		delete(s.model, 1)
		if m := c15CheckAll(s); m != "" {
			return "before reopen: " + m, rendering
		}
		if err := s.cache.Close(); err != nil {
			return "Close: " + err.Error(), rendering
		}
		if err := s.open(); err != nil {
			return "reopen failed: " + err.Error(), rendering
		}
		if m := c15CheckAll(s); m != "" {
			return "after invalidate(1) and reopen: " + m, rendering
		}
	case c15FTruncated:
		rendering = []string{"store 1 [C:req S:resp]", "store 2 [C:partly-written]", "cut the last byte", "reopen", "read 1,2", "store 3", "reopen", "read 1,2,3"}
		for _, v := range []*c15Version{mk(1, "req resp", time.Millisecond), mk(2, "partly-written", time.Millisecond)} {
			if m := put(v); m != "" {
				return m, rendering
			}
		}
		if err := s.cache.Close(); err != nil {
			return "Close: " + err.Error(), rendering
		}
		p := filepath.Join(dir, "converterindex-verif.cidx")
		fi, err := os.Stat(p)
		if err != nil {
			return "harness: " + err.Error(), rendering
		}
		if err := os.Truncate(p, fi.Size()-1); err != nil {
			return "harness: " + err.Error(), rendering
		}
		s.cache = nil
		if err := s.open(); err != nil {
			return "cache file whose last record lacks its final byte does not open: " + err.Error(), rendering
		}
		delete(s.model, 2)
		if m := c15CheckAll(s); m != "" {
			return "after cutting the last byte and reopening: " + m, rendering
		}
		if m := put(mk(3, "after the crash", time.Millisecond)); m != "" {
			return m, rendering
		}
		if m := c15CheckAll(s); m != "" {
			return "store after reopening a cut file: " + m, rendering
		}
		if err := s.cache.Close(); err != nil {
			return "Close: " + err.Error(), rendering
		}
		if err := s.open(); err != nil {
			return "second reopen failed: " + err.Error(), rendering
		}
		if m := c15CheckAll(s); m != "" {
			return "second reopen: " + m, rendering
		}
	case c15FDrift:
		rendering = []string{"store 1: five chunks 600ns apart", "read 1"}
		if m := put(mk(1, "a b c d e", 600*time.Nanosecond)); m != "" {
			return m, rendering
		}
		if m := c15CheckAll(s); m != "" {
			return m, rendering
		}
	default:
		return "unknown fixed case " + name, nil
	}
	return "", rendering
}

func TestVerifC15Fixed(t *testing.T) {
	names := []string{c15FInvalidate, c15FTruncated, c15FDrift}
	sort.Strings(names)
	vlib.Fixed(t, "C15", names, c15Fixed)
}
