package vidx

// tovq.go: conversion of stored streams to the abstract stream of the query
// reference evaluators (package vq).

import (
	"net"

	"github.com/spq/pkappa2/internal/index"
	"github.com/spq/pkappa2/internal/verif/vq"
)

// DataToRuns coalesces chunks into direction runs.
func DataToRuns(data []index.Data) []vq.Run {
	var runs []vq.Run
	for _, d := range data {
		if len(d.Content) == 0 {
			continue
		}
		dir := int(d.Direction)
		if n := len(runs); n > 0 && runs[n-1].Dir == dir {
			runs[n-1].Data = append(runs[n-1].Data, d.Content...)
		} else {
			runs = append(runs, vq.Run{Dir: dir, Data: append([]byte{}, d.Content...)})
		}
	}
	return runs
}

// ToVQ reads everything the query evaluators need from a stored stream.
func ToVQ(s *index.Stream) (*vq.Stream, error) {
	data, err := s.Data()
	if err != nil {
		return nil, err
	}
	out := &vq.Stream{
		ID: s.ID(), CPort: s.ClientPort, SPort: s.ServerPort, CBytes: s.ClientBytes, SBytes: s.ServerBytes,
		FTime: s.FirstPacket(), LTime: s.LastPacket(), Runs: DataToRuns(data),
		Tags: map[string]vq.TagState{}, Conv: map[string][]vq.Run{},
	}
	c, sv := net.ParseIP(s.ClientHostIP()), net.ParseIP(s.ServerHostIP())
	if c4, s4 := c.To4(), sv.To4(); c4 != nil && s4 != nil {
		out.CHost, out.SHost = c4, s4
	} else {
		out.CHost, out.SHost = c.To16(), sv.To16()
	}
	switch s.Protocol() {
	case "TCP":
		out.Proto = 1
	case "UDP":
		out.Proto = 2
	case "SCTP":
		out.Proto = 3
	}
	return out, nil
}
