package vidx

// gen.go: rapid generators for abstract stream records (DESIGN.md §4.1, §5 C01/C07).
//
// Everything that is generated honours what the two real producers of
// streams.Stream (TCP reassembly and the UDP assembler, fed by builder.go)
// guarantee to Writer.AddStream:
//   * at least one packet, the first packet travels client -> server,
//   * non-decreasing packet timestamps; packets with equal timestamps stay in the
//     same capture with increasing packet index (builder.go sorts by time, file, index),
//   * a (capture, packet index) pair belongs to exactly one packet of one stream ID,
//   * one PcapMetadata per packet, Data entries only for non-empty payload and in
//     packet order (vidx.ToStream),
//   * both addresses of one family (4 or 16 bytes).

import (
	"encoding/binary"
	"fmt"
	"net"
	"sort"

	"pgregory.net/rapid"
)

// Capture is a source pcap of the generated universe; Next is the next unused packet index.
type Capture struct {
	Name string
	Next uint64
}

// Universe is the population shared by the files of one generated case: captures
// (with their packet index counters), host pools of both families, a base time.
type Universe struct {
	Caps    []*Capture
	V4, V6  []net.IP
	FamMode int   // 0 = IPv4 only, 1 = IPv6 only, 2 = mixed
	BaseSec int64 // streams start around this second
	// BigBudget bounds the total size of >=64 KiB payloads still to be generated (cost control)
	BigBudget int
	// window into the host pools used by GenStream (C07: per-file host sets)
	WinLo, WinHi [2]int
	// ShiftUS is added to every stream start (C07: per-file reference second)
	ShiftUS int64
	// Long-idle / huge classes can be switched off by callers that only need small streams
	NoIdle bool
	NoBig  bool
}

var capNames = []string{
	"a.pcap", "a.pcap.1", "a", "ab.pcap", "b.pcap", "cap ture.pcap", "trafic-été.pcap",
	"日本語.pcapng", "A.pcap", "a.pcap ", "b", "2024-01-01_000000.000.0.pcap",
}

// IndexBases are the packet index bases of DESIGN §5 C01.
var indexBases = []uint64{0, 0, 0, 1<<32 - 2, 1<<32 - 2, 1 << 33, 1 << 40}

func v4(a, b, c, d byte) net.IP { return net.IP{a, b, c, d} }

var specialV4 = []net.IP{v4(10, 0, 0, 1), v4(10, 0, 0, 2), v4(0, 0, 0, 0), v4(255, 255, 255, 255), v4(127, 0, 0, 1), v4(10, 0, 1, 0), v4(1, 0, 0, 10)}

var specialV6 = []net.IP{
	net.ParseIP("2001:db8::1"), net.ParseIP("2001:db8::2"), net.ParseIP("::"), net.ParseIP("::1"), net.ParseIP("fe80::1"),
	net.ParseIP("::ffff:10.0.0.1").To16(), net.ParseIP("ffff:ffff:ffff:ffff:ffff:ffff:ffff:ffff"), net.ParseIP("2001:db8:0:1::"),
}

// SeqHost returns host number i of a family (4 or 16) of a dense numbered host
// space starting at base; used for the large host tables.
func SeqHost(fam int, base uint32, i int) net.IP {
	if fam == 4 {
		b := make(net.IP, 4)
		binary.BigEndian.PutUint32(b, base+uint32(i))
		return b
	}
	b := make(net.IP, 16)
	b[0], b[1] = 0x20, 0x01
	binary.BigEndian.PutUint32(b[4:], base)
	binary.BigEndian.PutUint64(b[8:], uint64(i))
	return b
}

// HostCapacity is the number of hosts of a family that fit into one host group:
// a group accepts a new host while it holds fewer than 65535 bytes.
func HostCapacity(fam int) int {
	if fam == 4 {
		return 16384
	}
	return 4096
}

func genPool(t *rapid.T, fam int, label string) []net.IP {
	n := rapid.SampledFrom([]int{2, 3, 4, 5, 5, 50}).Draw(t, label+"pool")
	if n == 50 {
		n = rapid.IntRange(40, 60).Draw(t, label+"pool50")
	}
	special := specialV4
	if fam == 6 {
		special = specialV6
	}
	nspecial := rapid.IntRange(0, len(special)).Draw(t, label+"special")
	if nspecial > n {
		nspecial = n
	}
	perm := rapid.Permutation(special).Draw(t, label+"perm")
	pool := append([]net.IP{}, perm[:nspecial]...)
	base := rapid.Uint32Range(0x0b000000, 0xdfffff00).Draw(t, label+"base")
	f := 4
	if fam == 6 {
		f = 16
	}
	for i := 0; len(pool) < n; i++ {
		pool = append(pool, SeqHost(f, base, i))
	}
	return pool
}

// GenUniverse draws captures, host pools and the base time.
func GenUniverse(t *rapid.T) *Universe {
	u := &Universe{BigBudget: 5 << 16}
	ncap := rapid.SampledFrom([]int{1, 1, 2, 2, 3, 4}).Draw(t, "ncaps")
	names := rapid.Permutation(capNames).Draw(t, "capnames")
	for i := 0; i < ncap; i++ {
		base := rapid.SampledFrom(indexBases).Draw(t, "idxbase")
		if base == 1<<33 {
			base += uint64(rapid.IntRange(0, 100000).Draw(t, "idxbase_r"))
		}
		u.Caps = append(u.Caps, &Capture{Name: names[i], Next: base})
	}
	u.FamMode = rapid.SampledFrom([]int{0, 0, 1, 2, 2, 2}).Draw(t, "fammode")
	u.V4 = genPool(t, 4, "v4")
	u.V6 = genPool(t, 6, "v6")
	u.WinLo = [2]int{0, 0}
	u.WinHi = [2]int{len(u.V4), len(u.V6)}
	u.BaseSec = 1500000000 + int64(rapid.IntRange(0, 1<<28).Draw(t, "basesec"))
	return u
}

// GenWindow selects new host windows (sub-ranges of the pools) and a new time
// shift: the host sets and reference seconds of different files of one case
// overlap, nest or are disjoint.
func (u *Universe) GenWindow(t *rapid.T) {
	for f, pool := range [][]net.IP{u.V4, u.V6} {
		lo := rapid.IntRange(0, len(pool)-1).Draw(t, "winlo")
		hi := rapid.IntRange(lo+1, len(pool)).Draw(t, "winhi")
		if rapid.IntRange(0, 3).Draw(t, "winfull") == 0 {
			lo, hi = 0, len(pool)
		}
		u.WinLo[f], u.WinHi[f] = lo, hi
	}
	u.ShiftUS = rapid.SampledFrom([]int64{0, 0, -1000000, 1000000, -3000000, 3000000, -3600000000, 3600000000, 86400000000, -500000, 1}).Draw(t, "fileshift")
}

var gapsUS = []int64{0, 1, 49999, 50000, 50001, 1000000, 600000000, 2400000000, 4320000000}

func genGap(t *rapid.T, slow bool) int64 {
	if slow && rapid.IntRange(0, 2).Draw(t, "slowgap") != 0 {
		return rapid.SampledFrom([]int64{600000000, 2400000000, 4320000000, 2400000000, 1000000}).Draw(t, "biggap")
	}
	switch rapid.IntRange(0, 9).Draw(t, "gapkind") {
	case 0:
		return rapid.SampledFrom(gapsUS).Draw(t, "gap")
	case 1, 2:
		return rapid.SampledFrom(gapsUS[:6]).Draw(t, "gap6")
	case 3, 4, 5:
		return int64(rapid.IntRange(0, 120000).Draw(t, "smallgap"))
	default:
		return rapid.SampledFrom([]int64{0, 1, 7, 1000, 49999, 50000}).Draw(t, "tinygap")
	}
}

// Fill produces n payload bytes that depend on (seed, position): any byte that
// ends up at the wrong place or in the wrong stream is visible.
func Fill(seed uint32, n int) []byte {
	b := make([]byte, n)
	x := seed*2654435761 + 12345
	for i := range b {
		x ^= x << 13
		x ^= x >> 17
		x ^= x << 5
		b[i] = byte(x >> 8)
	}
	if n >= 4 {
		binary.BigEndian.PutUint32(b, seed)
	}
	return b
}

func (u *Universe) genPayloadLen(t *rapid.T) int {
	k := rapid.IntRange(0, 99).Draw(t, "paykind")
	switch {
	case k < 33:
		return 0
	case k < 43:
		return 1
	case k < 86 || u.NoBig || u.BigBudget <= 0:
		return rapid.IntRange(2, 200).Draw(t, "paysmall")
	case k < 89:
		return 65535
	case k < 92:
		return 65536
	case k < 95:
		return 65537
	case k < 98:
		return 2*65536 + rapid.IntRange(0, 100).Draw(t, "payr")
	default:
		return rapid.IntRange(1000, 70000).Draw(t, "paymid")
	}
}

func (u *Universe) nextPacket(t *rapid.T, prev *SPacket, gap int64, startUS int64) SPacket {
	p := SPacket{}
	var cp *Capture
	if prev == nil {
		cp = u.Caps[rapid.IntRange(0, len(u.Caps)-1).Draw(t, "cap")]
		p.TimeUS = startUS
	} else {
		p.TimeUS = prev.TimeUS + gap
		for _, c := range u.Caps {
			if c.Name == prev.File {
				cp = c
			}
		}
		if gap != 0 && len(u.Caps) > 1 && rapid.IntRange(0, 4).Draw(t, "switchcap") == 0 {
			cp = u.Caps[rapid.IntRange(0, len(u.Caps)-1).Draw(t, "cap")]
		}
	}
	stride := uint64(0)
	switch rapid.IntRange(0, 19).Draw(t, "stride") {
	case 0, 1, 2:
		stride = uint64(rapid.IntRange(1, 5).Draw(t, "stride_s"))
	case 3:
		stride = 1 << 31
	case 4:
		stride = 1<<32 + 3
	}
	p.File = cp.Name
	// now and then the packet was put together from IP fragments: the earlier fragments have positions of their own
	if rapid.IntRange(0, 15).Draw(t, "fragments") == 0 {
		for i, n := 0, rapid.IntRange(1, 2).Draw(t, "earlier"); i < n; i++ {
			p.Earlier = append(p.Earlier, SPos{File: cp.Name, Index: cp.Next})
			cp.Next++
		}
	}
	p.Index = cp.Next + stride
	cp.Next = p.Index + 1
	return p
}

// GenPackets draws the packets of one stream starting at startUS.
func (u *Universe) GenPackets(t *rapid.T, startUS int64, seed uint32) []SPacket {
	var out []SPacket
	add := func(gap int64, dir int, plen int) {
		var prev *SPacket
		if len(out) > 0 {
			prev = &out[len(out)-1]
		} else {
			dir = 0 // the first packet of a stream defines the client
		}
		p := u.nextPacket(t, prev, gap, startUS)
		p.Dir = dir
		if plen > 0 {
			p.Payload = Fill(seed+uint32(len(out))*7919, plen)
			if plen >= 1<<16-1 {
				u.BigBudget -= plen
			}
		}
		out = append(out, p)
	}
	// one stream in eight is slow: most gaps are minutes, the relative time wraps at 2^32 us
	slow := rapid.IntRange(0, 7).Draw(t, "slow") == 0
	genGap := func(t *rapid.T) int64 { return genGap(t, slow) }
	dir := 0
	nextDir := func() int {
		if rapid.IntRange(0, 2).Draw(t, "flip") == 0 {
			dir ^= 1
		}
		return dir
	}
	normal := func(n int) {
		for i := 0; i < n; i++ {
			add(genGap(t), nextDir(), u.genPayloadLen(t))
		}
	}
	idle := func() {
		n := rapid.IntRange(256, 600).Draw(t, "idlen")
		if rapid.IntRange(0, 3).Draw(t, "idleedge") == 0 {
			n = rapid.SampledFrom([]int{253, 254, 255, 256, 257, 509, 510, 511, 512}).Draw(t, "idlen_edge")
		}
		gap := rapid.SampledFrom([]int64{0, 1, 1, 1000, 1000000, 8000000}).Draw(t, "idlegap")
		mode := rapid.IntRange(0, 2).Draw(t, "idledir")
		for i := 0; i < n; i++ {
			d := mode & 1
			if mode == 2 {
				d = i & 1
			}
			add(gap, d, 0)
		}
	}
	kind := rapid.IntRange(0, 20).Draw(t, "pktkind")
	if u.NoIdle && kind >= 17 {
		kind = 0
	}
	if kind == 20 && (u.NoBig || u.BigBudget <= 0) {
		kind = 1
	}
	switch {
	case kind == 20:
		// a chatty stream: thousands of direction changes, so that the per-stream table of direction runs
		// is larger than any copy buffer (4 KiB and more)
		u.BigBudget -= 150000
		n := rapid.IntRange(1200, 5000).Draw(t, "chatty")
		for i := 0; i < n; i++ {
			add(rapid.SampledFrom([]int64{0, 1, 1, 50}).Draw(t, "chattygap"), i&1, rapid.IntRange(1, 3).Draw(t, "chattylen"))
		}
		normal(rapid.IntRange(0, 2).Draw(t, "post"))
	case kind < 9:
		normal(rapid.IntRange(1, 6).Draw(t, "npk"))
	case kind < 17:
		normal(rapid.IntRange(1, 30).Draw(t, "npk"))
	case kind == 17: // idle run between two payload packets
		normal(rapid.IntRange(0, 2).Draw(t, "pre"))
		add(genGap(t), nextDir(), rapid.IntRange(1, 50).Draw(t, "paybefore"))
		idle()
		add(genGap(t), nextDir(), rapid.IntRange(1, 50).Draw(t, "payafter"))
		normal(rapid.IntRange(0, 3).Draw(t, "post"))
	case kind == 18: // leading idle run
		idle()
		normal(rapid.IntRange(1, 4).Draw(t, "post"))
	default: // trailing idle run
		normal(rapid.IntRange(1, 4).Draw(t, "pre"))
		add(genGap(t), nextDir(), rapid.IntRange(1, 50).Draw(t, "paybefore"))
		idle()
	}
	return out
}

var startOffsetsUS = []int64{0, 0, 1, 999999, 1000000, -1, -999999, -1000000, -2500000, 2500000, 3600000000, -3600000000, 86400000000, 4294967296, 4294967295}

// GenEndpoints draws addresses (from the host windows) and ports.
func (u *Universe) GenEndpoints(t *rapid.T, r *SRec) {
	fam := u.FamMode
	if fam == 2 {
		fam = rapid.IntRange(0, 1).Draw(t, "fam")
	}
	pool := u.V4
	if fam == 1 {
		pool = u.V6
	}
	lo, hi := u.WinLo[fam], u.WinHi[fam]
	r.CAddr = pool[rapid.IntRange(lo, hi-1).Draw(t, "chost")]
	r.SAddr = pool[rapid.IntRange(lo, hi-1).Draw(t, "shost")]
	port := func(l string) uint16 {
		if rapid.IntRange(0, 3).Draw(t, l+"edge") == 0 {
			return rapid.SampledFrom([]uint16{0, 1, 80, 443, 65535, 256, 255}).Draw(t, l)
		}
		return rapid.Uint16().Draw(t, l)
	}
	r.CPort, r.SPort = port("cport"), port("sport")
	r.UDP = rapid.IntRange(0, 3).Draw(t, "udp") == 0
}

// GenStream draws one stream record with the given ID.
func (u *Universe) GenStream(t *rapid.T, id uint64) *SRec {
	r := &SRec{ID: id}
	u.GenEndpoints(t, r)
	start := u.BaseSec*1000000 + u.ShiftUS
	if rapid.IntRange(0, 2).Draw(t, "startkind") == 0 {
		start += rapid.SampledFrom(startOffsetsUS).Draw(t, "startoff")
	} else {
		start += int64(rapid.IntRange(-5000000, 20000000).Draw(t, "startoff_r"))
	}
	seed := rapid.Uint32().Draw(t, "payseed")
	r.Packets = u.GenPackets(t, start, seed)
	return r
}

// GenVersion draws another version of an existing stream (same ID): the old
// packets followed by more packets (a stream that grew), the old packets with
// other payload, an unchanged copy, or completely different content.
func (u *Universe) GenVersion(t *rapid.T, old *SRec) *SRec {
	switch rapid.IntRange(0, 5).Draw(t, "verkind") {
	case 0: // unchanged
		n := *old
		return &n
	case 1, 2, 3: // grew
		n := *old
		n.Packets = append([]SPacket{}, old.Packets...)
		seed := rapid.Uint32().Draw(t, "payseed")
		k := rapid.IntRange(1, 5).Draw(t, "grow")
		dir := n.Packets[len(n.Packets)-1].Dir
		for i := 0; i < k; i++ {
			if rapid.Bool().Draw(t, "flip") {
				dir ^= 1
			}
			prev := n.Packets[len(n.Packets)-1]
			p := u.nextPacket(t, &prev, genGap(t, false), 0)
			p.Dir = dir
			if pl := u.genPayloadLen(t); pl > 0 {
				p.Payload = Fill(seed+uint32(i), pl)
				if pl >= 1<<16-1 {
					u.BigBudget -= pl
				}
			}
			n.Packets = append(n.Packets, p)
		}
		return &n
	case 4: // same packets, other payload and directions after the first packet
		n := *old
		n.Packets = append([]SPacket{}, old.Packets...)
		seed := rapid.Uint32().Draw(t, "payseed")
		for i := range n.Packets {
			if len(n.Packets[i].Payload) > 0 && len(n.Packets[i].Payload) < 1000 {
				n.Packets[i].Payload = Fill(seed+uint32(i), rapid.IntRange(1, 300).Draw(t, "newlen"))
			}
		}
		return &n
	default:
		return u.GenStream(t, old.ID)
	}
}

// GenIDs draws n distinct stream IDs: dense and shuffled, or sparse up to 2^40.
func GenIDs(t *rapid.T, n int) (ids []uint64, sparse bool) {
	used := map[uint64]bool{}
	sparse = rapid.Bool().Draw(t, "sparse")
	if !sparse {
		base := rapid.SampledFrom([]uint64{0, 0, 1, 1000, 1<<32 - 3}).Draw(t, "idbase")
		for i := 0; i < n; i++ {
			ids = append(ids, base+uint64(i))
		}
		return rapid.Permutation(ids).Draw(t, "idperm"), false
	}
	for len(ids) < n {
		var id uint64
		switch rapid.IntRange(0, 5).Draw(t, "idkind") {
		case 0:
			id = rapid.SampledFrom([]uint64{0, 1, 1<<32 - 1, 1 << 32, 1 << 40, 1<<40 - 1}).Draw(t, "idedge")
		case 1, 2:
			id = rapid.Uint64Range(0, 64).Draw(t, "idsmall")
		default:
			id = rapid.Uint64Range(0, 1<<40).Draw(t, "id")
		}
		for used[id] {
			id++
		}
		used[id] = true
		ids = append(ids, id)
	}
	return ids, true
}

// ---------------------------------------------------------------------------
// model of the writer's host table (placement of a stream's two addresses)

type hmGroup struct {
	size int
	idx  map[string]int
}

// HostModel mirrors how Writer.AddStream distributes addresses over host groups.
type HostModel struct {
	groups []*hmGroup
	// PopShapes counts streams for which a group had exactly one free slot and
	// both addresses were new (the client is added and removed again).
	PopShapes int
}

func (g *hmGroup) full() bool { return len(g.idx)*g.size >= 65535 }

// Peek reports where the pair would be placed without changing the model:
// the group index, whether that group is not the first group of its family,
// and whether the placement walks through the add-then-remove path.
func (m *HostModel) Peek(c, s net.IP) (group int, secondOfFamily bool, pop bool) {
	return m.place(c, s, false)
}

// Place records the pair.
func (m *HostModel) Place(c, s net.IP) (group int, secondOfFamily bool, pop bool) {
	return m.place(c, s, true)
}

func (m *HostModel) place(c, s net.IP, commit bool) (int, bool, bool) {
	pop := false
	sameFam := 0
	for gi := 0; ; gi++ {
		if gi == len(m.groups) {
			if commit {
				m.groups = append(m.groups, &hmGroup{size: len(c), idx: map[string]int{string(c): 0}})
				g := m.groups[gi]
				if _, ok := g.idx[string(s)]; !ok {
					g.idx[string(s)] = len(g.idx)
				}
				if pop {
					m.PopShapes++
				}
			}
			return gi, sameFam > 0, pop
		}
		g := m.groups[gi]
		if g.size != len(c) {
			continue
		}
		_, cIn := g.idx[string(c)]
		_, sIn := g.idx[string(s)]
		need := 0
		if !cIn {
			need++
		}
		if !sIn && string(s) != string(c) {
			need++
		}
		free := 0
		if !g.full() {
			free = (65536 - len(g.idx)*g.size) / g.size // remaining slots (the byte bound 65535 is never hit exactly)
		}
		if need <= free {
			if commit {
				if !cIn {
					g.idx[string(c)] = len(g.idx)
				}
				if _, ok := g.idx[string(s)]; !ok {
					g.idx[string(s)] = len(g.idx)
				}
				if pop {
					m.PopShapes++
				}
			}
			return gi, sameFam > 0, pop
		}
		// does not fit: the writer adds the client (when new and there is room) and removes it again
		if !cIn && free >= 1 {
			pop = true
		}
		sameFam++
	}
}

// GroupSizes returns "family:hosts" per group.
func (m *HostModel) GroupSizes() []string {
	var out []string
	for _, g := range m.groups {
		out = append(out, fmt.Sprintf("v%d:%d", map[int]int{4: 4, 16: 6}[g.size], len(g.idx)))
	}
	return out
}

// Groups returns the number of host groups.
func (m *HostModel) Groups() int { return len(m.groups) }

// GroupHost returns some host of group gi (the k-th in insertion order modulo the size).
func (m *HostModel) GroupHost(gi, k int) net.IP {
	g := m.groups[gi]
	k %= len(g.idx)
	for h, i := range g.idx {
		if i == k {
			return net.IP(h)
		}
	}
	return nil
}

// GroupLen returns the number of hosts in group gi and its address size.
func (m *HostModel) GroupLen(gi int) (hosts, size int) {
	return len(m.groups[gi].idx), m.groups[gi].size
}

// ---------------------------------------------------------------------------
// classification of generated files (labels / non-triviality)

// FileStats are the evidence classes of one file's records.
type FileStats struct {
	Streams       int
	MaxPayload    int
	Captures      int
	MaxIdleRun    int // longest run of consecutive payload-less packets before a packet (or the end)
	IdleBetween   bool
	OffsetOver32  bool // last-first > 2^32 us
	GapOver32     bool // single gap >= 2^32 us
	Payloadless   int
	IndexOver32   bool
	ImportsSplit  bool // one capture referenced below and above a 2^32 boundary
	EarlierThan1  bool // a later-added stream starts before the second of the first-added stream
	BothFamilies  bool
	MaxPackets    int
	ServerFirst   bool // first payload travels server -> client
	TrailingIdle  int
	SubSecondBase bool
	MaxDirChanges int  // most direction changes (between packets with payload) in one stream
	ChattyNotLast bool // a stream with > 1000 direction changes is followed by another stream with payload
}

// Stats computes the classes of a list of records in add order.
func Stats(recs []*SRec) FileStats {
	st := FileStats{Streams: len(recs)}
	caps := map[string]bool{}
	hi := map[string]map[uint64]bool{}
	fam := map[int]bool{}
	for i, r := range recs {
		fam[len(r.CAddr)] = true
		if len(r.Packets) > st.MaxPackets {
			st.MaxPackets = len(r.Packets)
		}
		if i > 0 && floorSec(r.Packets[0].TimeUS) < floorSec(recs[0].Packets[0].TimeUS) {
			st.EarlierThan1 = true
		}
		if r.Packets[0].TimeUS%1000000 != 0 {
			st.SubSecondBase = true
		}
		run := 0
		seenPayload := false
		changes, lastDir := 0, -1
		for _, p := range r.Packets {
			if len(p.Payload) != 0 {
				if lastDir >= 0 && p.Dir != lastDir {
					changes++
				}
				lastDir = p.Dir
			}
		}
		if changes > st.MaxDirChanges {
			st.MaxDirChanges = changes
		}
		if lastDir >= 0 && st.MaxDirChanges > 1000 && changes <= 1000 {
			st.ChattyNotLast = true
		}
		for j, p := range r.Packets {
			caps[p.File] = true
			if hi[p.File] == nil {
				hi[p.File] = map[uint64]bool{}
			}
			hi[p.File][p.Index>>32] = true
			if p.Index >= 1<<32 {
				st.IndexOver32 = true
			}
			if len(p.Payload) > st.MaxPayload {
				st.MaxPayload = len(p.Payload)
			}
			if j > 0 && p.TimeUS-r.Packets[j-1].TimeUS >= 1<<32 {
				st.GapOver32 = true
			}
			if len(p.Payload) == 0 {
				st.Payloadless++
				run++
				if run > st.MaxIdleRun {
					st.MaxIdleRun = run
				}
			} else {
				if run > 255 && seenPayload {
					st.IdleBetween = true
				}
				if !seenPayload && p.Dir == 1 {
					st.ServerFirst = true
				}
				seenPayload = true
				run = 0
			}
		}
		if seenPayload && run > st.TrailingIdle {
			st.TrailingIdle = run
		}
		if r.Packets[len(r.Packets)-1].TimeUS-r.Packets[0].TimeUS > 1<<32 {
			st.OffsetOver32 = true
		}
	}
	st.Captures = len(caps)
	for _, m := range hi {
		if len(m) > 1 {
			st.ImportsSplit = true
		}
	}
	st.BothFamilies = len(fam) > 1
	return st
}

func floorSec(us int64) int64 {
	s := us / 1000000
	if us%1000000 < 0 {
		s--
	}
	return s
}

// RefSec returns the reference second a file built from recs must have: the
// second of the earliest first packet.
func RefSec(recs []*SRec) int64 {
	m := floorSec(recs[0].Packets[0].TimeUS)
	for _, r := range recs {
		if s := floorSec(r.Packets[0].TimeUS); s < m {
			m = s
		}
	}
	return m
}

// SortedIDs returns the keys of m in increasing order.
func SortedIDs[V any](m map[uint64]V) []uint64 {
	ids := make([]uint64, 0, len(m))
	for id := range m {
		ids = append(ids, id)
	}
	sort.Slice(ids, func(a, b int) bool { return ids[a] < ids[b] })
	return ids
}
