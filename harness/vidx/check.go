package vidx

// check.go: the C01 oracle – an index file must contain exactly the given
// records (model = input). Also used by C07 on merge outputs.

import (
	"encoding/json"
	"fmt"
	"math"
	"os"
	"runtime/metrics"
	"sync"
	"time"

	"github.com/spq/pkappa2/internal/index"
)

type pktKey struct {
	file  string
	index uint64
}

// CheckReader compares everything observable of r with the model records and
// returns "" or the first difference. lookups counts the by-source lookups made.
func CheckReader(r *index.Reader, recs []*SRec) (msg string, lookups int) {
	want := map[uint64]*SRec{}
	firstOwner := map[pktKey]uint64{}
	files := map[string]bool{}
	for _, rec := range recs {
		want[rec.ID] = rec
		p := rec.Packets[0]
		firstOwner[pktKey{p.File, p.Index}] = rec.ID
		for _, p := range rec.Packets {
			files[p.File] = true
		}
	}
	// ID set
	ids := r.StreamIDs()
	if len(ids) != len(want) || r.StreamCount() != len(want) {
		return fmt.Sprintf("StreamIDs() has %d entries, StreamCount() = %d, want %d streams", len(ids), r.StreamCount(), len(want)), lookups
	}
	seenIdx := map[uint32]uint64{}
	minID, maxID := uint64(math.MaxUint64), uint64(0)
	for _, id := range SortedIDs(ids) {
		if _, ok := want[id]; !ok {
			return fmt.Sprintf("StreamIDs() contains %d which was never written", id), lookups
		}
		idx := ids[id]
		if other, dup := seenIdx[idx]; dup || int(idx) >= len(want) {
			return fmt.Sprintf("StreamIDs()[%d] = index %d (count %d, also used by stream %d: %v)", id, idx, len(want), other, dup), lookups
		}
		seenIdx[idx] = id
		if id < minID {
			minID = id
		}
		if id > maxID {
			maxID = id
		}
	}
	if r.MinStreamID() != minID || r.MaxStreamID() != maxID {
		return fmt.Sprintf("Min/MaxStreamID = %d/%d, want %d/%d", r.MinStreamID(), r.MaxStreamID(), minID, maxID), lookups
	}
	// every stream, every field
	for _, id := range SortedIDs(want) {
		rec := want[id]
		s, err := r.StreamByID(id)
		if err != nil {
			return fmt.Sprintf("StreamByID(%d): %v", id, err), lookups
		}
		if s == nil {
			return fmt.Sprintf("StreamByID(%d) = nil for a stored stream", id), lookups
		}
		if s.Index() != ids[id] {
			return fmt.Sprintf("StreamByID(%d).Index() = %d, StreamIDs() says %d", id, s.Index(), ids[id]), lookups
		}
		o, err := ObserveStream(s, true)
		if err != nil {
			return fmt.Sprintf("stream %d: %v", id, err), lookups
		}
		if d := o.Diff(rec.Expected(), true); d != "" {
			return fmt.Sprintf("stream %d: %s", id, d), lookups
		}
		if d := checkJSON(r, s, o); d != "" {
			return fmt.Sprintf("stream %d: MarshalJSON: %s", id, d), lookups
		}
		// absent neighbours
		for _, nb := range []uint64{id - 1, id + 1} {
			if (nb == id-1 && id == 0) || (nb == id+1 && id == math.MaxUint64) {
				continue
			}
			if _, ok := want[nb]; ok {
				continue
			}
			ns, err := r.StreamByID(nb)
			if err != nil {
				return fmt.Sprintf("StreamByID(%d): %v", nb, err), lookups
			}
			if ns != nil {
				return fmt.Sprintf("StreamByID(%d) returned stream %d although %d was never written", nb, ns.ID(), nb), lookups
			}
		}
		// by first source packet
		for pi, p := range rec.Packets {
			if pi > 0 && len(rec.Packets) > 64 && pi%16 != 0 && pi != len(rec.Packets)-1 {
				continue // long idle streams: sample
			}
			for _, delta := range []int64{0, -1, 1} {
				if delta == -1 && p.Index == 0 {
					continue
				}
				k := pktKey{p.File, uint64(int64(p.Index) + delta)}
				owner, isFirst := firstOwner[k]
				lookups++
				got, err := r.StreamByFirstPacketSource(k.file, k.index)
				if err != nil {
					return fmt.Sprintf("StreamByFirstPacketSource(%q, %d): %v", k.file, k.index, err), lookups
				}
				switch {
				case isFirst && got == nil:
					return fmt.Sprintf("StreamByFirstPacketSource(%q, %d) = nil, want stream %d whose first packet it is", k.file, k.index, owner), lookups
				case isFirst && got.ID() != owner:
					return fmt.Sprintf("StreamByFirstPacketSource(%q, %d) = stream %d, want stream %d", k.file, k.index, got.ID(), owner), lookups
				case !isFirst && got != nil:
					return fmt.Sprintf("StreamByFirstPacketSource(%q, %d) = stream %d although no stream starts with that packet", k.file, k.index, got.ID()), lookups
				}
			}
		}
	}
	// first-packet lookups with file names that do not occur
	p0 := recs[0].Packets[0]
	for _, fn := range []string{p0.File + "x", p0.File[:len(p0.File)-1], "", "~"} {
		if files[fn] {
			continue
		}
		lookups++
		got, err := r.StreamByFirstPacketSource(fn, p0.Index)
		if err != nil {
			return fmt.Sprintf("StreamByFirstPacketSource(%q, %d): %v", fn, p0.Index, err), lookups
		}
		if got != nil {
			return fmt.Sprintf("StreamByFirstPacketSource(%q, %d) = stream %d although no packet of that capture was written", fn, p0.Index, got.ID()), lookups
		}
	}
	// AllStreams
	visited := map[uint64]int{}
	n := 0
	err := r.AllStreams(func(s *index.Stream) error {
		visited[s.ID()]++
		if int(s.Index()) != n {
			return fmt.Errorf("AllStreams: visit %d has Index() %d", n, s.Index())
		}
		if ids[s.ID()] != s.Index() {
			return fmt.Errorf("AllStreams: stream %d at index %d, StreamIDs() says %d", s.ID(), s.Index(), ids[s.ID()])
		}
		n++
		return nil
	})
	if err != nil {
		return err.Error(), lookups
	}
	if n != len(want) {
		return fmt.Sprintf("AllStreams visited %d streams, want %d", n, len(want)), lookups
	}
	for _, id := range SortedIDs(visited) {
		if _, ok := want[id]; !ok || visited[id] != 1 {
			return fmt.Sprintf("AllStreams visited stream %d %d times (stored: %v)", id, visited[id], ok), lookups
		}
	}
	return "", lookups
}

func checkJSON(r *index.Reader, s *index.Stream, o *Observed) string {
	b, err := s.MarshalJSON()
	if err != nil {
		return err.Error()
	}
	type side struct {
		Host  string
		Port  uint16
		Bytes uint64
	}
	var j struct {
		ID                      uint64
		Protocol                string
		Client, Server          side
		FirstPacket, LastPacket time.Time
		Index                   string
	}
	if err := json.Unmarshal(b, &j); err != nil {
		return fmt.Sprintf("%v in %s", err, b)
	}
	switch {
	case j.ID != o.ID, j.Protocol != o.Protocol,
		j.Client.Host != o.Client, j.Client.Port != o.CPort, j.Client.Bytes != o.ClientBytes,
		j.Server.Host != o.Server, j.Server.Port != o.SPort, j.Server.Bytes != o.ServerBytes,
		j.FirstPacket.UnixMicro() != o.FirstUS, j.LastPacket.UnixMicro() != o.LastUS,
		!j.FirstPacket.Equal(s.FirstPacket()), !j.LastPacket.Equal(s.LastPacket()),
		j.Index != r.Filename():
		return fmt.Sprintf("%s disagrees with the accessors %+v", b, *briefObserved(o))
	}
	return ""
}

func briefObserved(o *Observed) *Observed {
	c := *o
	c.Payload = [2][]byte{}
	c.PacketRefs = nil
	c.Runs = nil
	return &c
}

// DiffStacks compares two observations of a stack of index files.
func DiffStacks(got, want map[uint64]*Observed, withPackets bool) string {
	for _, id := range SortedIDs(want) {
		g, ok := got[id]
		if !ok {
			return fmt.Sprintf("stream %d is no longer visible", id)
		}
		if d := g.Diff(want[id], withPackets); d != "" {
			return fmt.Sprintf("stream %d: %s", id, d)
		}
	}
	for _, id := range SortedIDs(got) {
		if _, ok := want[id]; !ok {
			return fmt.Sprintf("stream %d became visible", id)
		}
	}
	return ""
}

// ---------------------------------------------------------------------------

var watchdogOnce sync.Once

// MemWatchdog starts (once per process) a goroutine that panics when the live
// heap exceeds limit bytes. A writer loop that never terminates allocates
// without bound; the panic turns that into a reported crash of the running case
// instead of an out-of-memory kill, which the driver could not attribute.
func MemWatchdog(limit uint64) {
	watchdogOnce.Do(func() {
		go func() {
			sample := []metrics.Sample{{Name: "/memory/classes/heap/objects:bytes"}}
			for {
				time.Sleep(10 * time.Millisecond)
				metrics.Read(sample)
				if sample[0].Value.Kind() == metrics.KindUint64 && sample[0].Value.Uint64() > limit {
					fmt.Fprintf(os.Stderr, "verif watchdog: heap objects %d bytes > limit %d: the code under test allocates without bound\n", sample[0].Value.Uint64(), limit)
					panic("verif watchdog: unbounded allocation in the code under test (heap limit exceeded)")
				}
			}
		}()
	})
}
