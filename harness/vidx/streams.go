package vidx

// streams.go: abstract stream records (SRec), conversion to the writer's input
// type, index building and the "everything a user can observe" view used by
// C01/C02/C04/C07 (DESIGN.md §4.1).

import (
	"bytes"
	"fmt"
	"net"
	"sort"
	"time"

	"github.com/gopacket/gopacket"
	"github.com/gopacket/gopacket/reassembly"
	"github.com/spq/pkappa2/internal/index"
	"github.com/spq/pkappa2/internal/index/streams"
	pcapmetadata "github.com/spq/pkappa2/internal/tools/pcapMetadata"
)

// Dir: 0 = client to server, 1 = server to client.
type SPacket struct {
	File    string `json:"file"`
	Index   uint64 `json:"index"`
	TimeUS  int64  `json:"time_us"` // microseconds since the Unix epoch
	Dir     int    `json:"dir"`
	Payload []byte `json:"payload,omitempty"`
	// HasData forces a Data entry even when Payload is empty (zero-length chunk class)
	HasData bool `json:"has_data,omitempty"`
	// Earlier: capture positions of the fragments a reassembled packet was put together from before the one
	// (File, Index) that completed it
	Earlier []SPos `json:"earlier,omitempty"`
}

// SPos is a capture position.
type SPos struct {
	File  string `json:"file"`
	Index uint64 `json:"index"`
}

// SRec is the model of one stored stream version.
type SRec struct {
	ID      uint64    `json:"id"`
	CAddr   net.IP    `json:"caddr"` // 4 or 16 bytes
	SAddr   net.IP    `json:"saddr"`
	CPort   uint16    `json:"cport"`
	SPort   uint16    `json:"sport"`
	UDP     bool      `json:"udp"`
	Packets []SPacket `json:"packets"`
}

// Brief renders a record without payload bytes (for samples / replay files).
func (r *SRec) Brief() map[string]any {
	pk := make([]string, 0, len(r.Packets))
	for i, p := range r.Packets {
		if i >= 12 {
			pk = append(pk, fmt.Sprintf("... %d more", len(r.Packets)-i))
			break
		}
		pk = append(pk, fmt.Sprintf("%s#%d t=%d d=%d len=%d", p.File, p.Index, p.TimeUS, p.Dir, len(p.Payload)))
	}
	proto := "tcp"
	if r.UDP {
		proto = "udp"
	}
	return map[string]any{"id": r.ID, "client": fmt.Sprintf("%s:%d", r.CAddr, r.CPort), "server": fmt.Sprintf("%s:%d", r.SAddr, r.SPort), "proto": proto, "packets": pk}
}

// pcapInfos caches one *PcapInfo per filename (the writer keys imports by name).
type PcapInfos map[string]*pcapmetadata.PcapInfo

func (pi PcapInfos) get(name string) *pcapmetadata.PcapInfo {
	if p, ok := pi[name]; ok {
		return p
	}
	p := &pcapmetadata.PcapInfo{Filename: name}
	pi[name] = p
	return p
}

// ToStream builds the writer input exactly like the two producers in
// internal/index/streams do: one CaptureInfo with one PcapMetadata per packet,
// a Data entry only for packets with payload, PacketIndex pointing at the packet.
func (r *SRec) ToStream(infos PcapInfos) *streams.Stream {
	s := &streams.Stream{
		ClientAddr: []byte(r.CAddr),
		ServerAddr: []byte(r.SAddr),
		ClientPort: r.CPort,
		ServerPort: r.SPort,
		Flags:      streams.StreamFlagsProtocolTCP,
	}
	if r.UDP {
		s.Flags = streams.StreamFlagsProtocolUDP
	}
	for i, p := range r.Packets {
		ci := gopacket.CaptureInfo{Timestamp: time.UnixMicro(p.TimeUS), CaptureLength: len(p.Payload), Length: len(p.Payload)}
		// like the importer: the positions of the earlier fragments first, the completing one last
		for _, e := range p.Earlier {
			pcapmetadata.AddPcapMetadata(&ci, infos.get(e.File), e.Index)
		}
		pcapmetadata.AddPcapMetadata(&ci, infos.get(p.File), p.Index)
		s.Packets = append(s.Packets, ci)
		d := reassembly.TCPDirClientToServer
		if p.Dir == 1 {
			d = reassembly.TCPDirServerToClient
		}
		s.PacketDirections = append(s.PacketDirections, d)
		if len(p.Payload) != 0 || p.HasData {
			s.Data = append(s.Data, streams.StreamData{Bytes: p.Payload, PacketIndex: uint64(i)})
		}
	}
	return s
}

// BuildIndex writes the records into a new index file and returns its reader.
// It fails when the writer refuses a stream (callers generate sets that fit).
func BuildIndex(filename string, recs []*SRec) (*index.Reader, error) {
	w, err := index.NewWriter(filename)
	if err != nil {
		return nil, err
	}
	infos := PcapInfos{}
	for _, r := range recs {
		ok, err := w.AddStream(r.ToStream(infos), r.ID)
		if err != nil {
			w.Close()
			return nil, fmt.Errorf("AddStream(%d): %w", r.ID, err)
		}
		if !ok {
			w.Close()
			return nil, fmt.Errorf("AddStream(%d): writer is full", r.ID)
		}
	}
	return w.Finalize()
}

// Run is one maximal same-direction piece of payload.
type Run struct {
	Dir int `json:"dir"`
	Len int `json:"len"`
}

// Observed is everything a user can see of one stream.
type Observed struct {
	ID           uint64
	Client       string
	Server       string
	CPort, SPort uint16
	Protocol     string
	FirstUS      int64
	LastUS       int64
	ClientBytes  uint64
	ServerBytes  uint64
	Payload      [2][]byte
	Runs         []Run
	PacketRefs   []string // file#index/dir
}

// Expected computes the observation the model record must yield.
func (r *SRec) Expected() *Observed {
	o := &Observed{ID: r.ID, Client: r.CAddr.String(), Server: r.SAddr.String(), CPort: r.CPort, SPort: r.SPort, Protocol: "TCP"}
	if r.UDP {
		o.Protocol = "UDP"
	}
	o.FirstUS = r.Packets[0].TimeUS
	o.LastUS = r.Packets[len(r.Packets)-1].TimeUS
	for _, p := range r.Packets {
		// one record per position: the completing fragment first (it identifies the packet), then the earlier ones,
		// latest first
		o.PacketRefs = append(o.PacketRefs, fmt.Sprintf("%s#%d/%d", p.File, p.Index, p.Dir))
		for i := len(p.Earlier) - 1; i >= 0; i-- {
			o.PacketRefs = append(o.PacketRefs, fmt.Sprintf("%s#%d/%d", p.Earlier[i].File, p.Earlier[i].Index, p.Dir))
		}
		if len(p.Payload) == 0 {
			continue
		}
		o.Payload[p.Dir] = append(o.Payload[p.Dir], p.Payload...)
		if n := len(o.Runs); n > 0 && o.Runs[n-1].Dir == p.Dir {
			o.Runs[n-1].Len += len(p.Payload)
		} else {
			o.Runs = append(o.Runs, Run{p.Dir, len(p.Payload)})
		}
	}
	o.ClientBytes = uint64(len(o.Payload[0]))
	o.ServerBytes = uint64(len(o.Payload[1]))
	return o
}

// ObserveStream reads everything observable of a stored stream. withPackets
// can be switched off where packet references are not part of the comparison.
func ObserveStream(s *index.Stream, withPackets bool) (*Observed, error) {
	o := &Observed{
		ID: s.ID(), Client: s.ClientHostIP(), Server: s.ServerHostIP(), CPort: s.ClientPort, SPort: s.ServerPort,
		Protocol: s.Protocol(), FirstUS: s.FirstPacket().UnixMicro(), LastUS: s.LastPacket().UnixMicro(),
		ClientBytes: s.ClientBytes, ServerBytes: s.ServerBytes,
	}
	data, err := s.Data()
	if err != nil {
		return nil, fmt.Errorf("Data(): %w", err)
	}
	for _, d := range data {
		dir := int(d.Direction)
		if len(d.Content) == 0 {
			continue
		}
		o.Payload[dir] = append(o.Payload[dir], d.Content...)
		if n := len(o.Runs); n > 0 && o.Runs[n-1].Dir == dir {
			o.Runs[n-1].Len += len(d.Content)
		} else {
			o.Runs = append(o.Runs, Run{dir, len(d.Content)})
		}
	}
	if withPackets {
		pk, err := s.Packets()
		if err != nil {
			return nil, fmt.Errorf("Packets(): %w", err)
		}
		for _, p := range pk {
			o.PacketRefs = append(o.PacketRefs, fmt.Sprintf("%s#%d/%d", p.PcapFilename, p.PcapIndex, int(p.Direction)))
		}
	}
	return o, nil
}

// Diff returns "" when both observations agree, otherwise the first difference.
func (o *Observed) Diff(want *Observed, withPackets bool) string {
	switch {
	case o.ID != want.ID:
		return fmt.Sprintf("id %d, want %d", o.ID, want.ID)
	case !ipEqual(o.Client, want.Client):
		return fmt.Sprintf("client host %s, want %s", o.Client, want.Client)
	case !ipEqual(o.Server, want.Server):
		return fmt.Sprintf("server host %s, want %s", o.Server, want.Server)
	case o.CPort != want.CPort || o.SPort != want.SPort:
		return fmt.Sprintf("ports %d/%d, want %d/%d", o.CPort, o.SPort, want.CPort, want.SPort)
	case o.Protocol != want.Protocol:
		return fmt.Sprintf("protocol %s, want %s", o.Protocol, want.Protocol)
	case o.FirstUS != want.FirstUS:
		return fmt.Sprintf("first packet time %d us, want %d us", o.FirstUS, want.FirstUS)
	case o.LastUS != want.LastUS:
		return fmt.Sprintf("last packet time %d us, want %d us", o.LastUS, want.LastUS)
	case o.ClientBytes != want.ClientBytes || o.ServerBytes != want.ServerBytes:
		return fmt.Sprintf("byte counts %d/%d, want %d/%d", o.ClientBytes, o.ServerBytes, want.ClientBytes, want.ServerBytes)
	}
	for d := 0; d < 2; d++ {
		if !bytes.Equal(o.Payload[d], want.Payload[d]) {
			return fmt.Sprintf("payload of direction %d differs: got %d bytes %s, want %d bytes %s", d, len(o.Payload[d]), clip(o.Payload[d]), len(want.Payload[d]), clip(want.Payload[d]))
		}
	}
	if fmt.Sprint(o.Runs) != fmt.Sprint(want.Runs) {
		return fmt.Sprintf("direction runs %v, want %v", o.Runs, want.Runs)
	}
	if withPackets && fmt.Sprint(o.PacketRefs) != fmt.Sprint(want.PacketRefs) {
		return fmt.Sprintf("packet references %v, want %v", clipList(o.PacketRefs), clipList(want.PacketRefs))
	}
	return ""
}

func clip(b []byte) string {
	if len(b) > 24 {
		return fmt.Sprintf("%q...", b[:24])
	}
	return fmt.Sprintf("%q", b)
}

func clipList(l []string) []string {
	if len(l) > 10 {
		return append(append([]string{}, l[:10]...), fmt.Sprintf("...%d more", len(l)-10))
	}
	return l
}

func ipEqual(a, b string) bool {
	ia, ib := net.ParseIP(a), net.ParseIP(b)
	if ia == nil || ib == nil {
		return a == b
	}
	// an IPv4-mapped IPv6 address and the IPv4 address print identically in Go; compare as printed
	return ia.String() == ib.String()
}

// ObserveStack returns the visible streams of a stack of index files (oldest
// first, as the manager keeps them): for every ID the version of the newest
// file containing it.
func ObserveStack(readers []*index.Reader, withPackets bool) (map[uint64]*Observed, error) {
	out := map[uint64]*Observed{}
	for i := len(readers) - 1; i >= 0; i-- {
		r := readers[i]
		ids := make([]uint64, 0, len(r.StreamIDs()))
		for id := range r.StreamIDs() {
			ids = append(ids, id)
		}
		sort.Slice(ids, func(a, b int) bool { return ids[a] < ids[b] })
		for _, id := range ids {
			if _, ok := out[id]; ok {
				continue
			}
			s, err := r.StreamByID(id)
			if err != nil {
				return nil, fmt.Errorf("StreamByID(%d) in %s: %w", id, r.Filename(), err)
			}
			if s == nil {
				return nil, fmt.Errorf("StreamByID(%d) in %s: listed in StreamIDs but not found", id, r.Filename())
			}
			o, err := ObserveStream(s, withPackets)
			if err != nil {
				return nil, fmt.Errorf("stream %d in %s: %w", id, r.Filename(), err)
			}
			out[id] = o
		}
	}
	return out, nil
}
