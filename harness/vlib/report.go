// Package vlib is the shared part of the verification harness. It is compiled
// into the pkappa2 module through a build overlay (virtual directory
// internal/verif/vlib) and never exists inside /repo.
//
// report.go: bookkeeping around rapid.Check – counting evaluations, labels,
// distinct non-trivial cases, samples, and the shrunk failing case – and the
// per-shard report file the python driver merges into evidence/<id>.json.
package vlib

import (
	"encoding/json"
	"fmt"
	"hash/fnv"
	"os"
	"runtime/debug"
	"sort"
	"strconv"
	"sync"
	"testing"

	"pgregory.net/rapid"
)

const maxHashes = 200000
const maxSamples = 5

// Case is handed to every property execution.
type Case struct {
	labels    []string
	nontriv   bool
	key       uint64
	render    func() any
	discarded bool
	counters  map[string]int64
}

// Label classifies the case (histogram in the evidence file).
func (c *Case) Label(l string) { c.labels = append(c.labels, l) }

// Labelf is Label with formatting.
func (c *Case) Labelf(f string, a ...any) { c.labels = append(c.labels, fmt.Sprintf(f, a...)) }

// LabelIf adds the label when cond holds.
func (c *Case) LabelIf(cond bool, l string) {
	if cond {
		c.labels = append(c.labels, l)
	}
}

// Count adds n to a named counter of the report (e.g. number of searches).
func (c *Case) Count(name string, n int) {
	if c.counters == nil {
		c.counters = map[string]int64{}
	}
	c.counters[name] += int64(n)
}

// NonTrivial marks the case as non-trivial by the property's stated rule.
// key is a canonical rendering of the case used to count distinct cases.
func (c *Case) NonTrivial(key string) {
	c.nontriv = true
	h := fnv.New64a()
	h.Write([]byte(key))
	c.key = h.Sum64()
}

// Render registers a function producing a JSON-able rendering of the case;
// it is only called for sampled or failing cases.
func (c *Case) Render(f func() any) { c.render = f }

// Discard marks a case that did not reach the oracle (not counted as evaluation).
func (c *Case) Discard(reason string) {
	c.discarded = true
	c.labels = append(c.labels, "discard:"+reason)
}

type sample struct {
	Hash uint64 `json:"hash"`
	Case any    `json:"case"`
}

// Failure is what the driver turns into a replay file.
type Failure struct {
	Test    string `json:"test"`
	Message string `json:"message"`
	Case    any    `json:"case"`
	Stack   string `json:"stack,omitempty"`
	Known   string `json:"known,omitempty"`
}

// Report is the per-process (per shard) result.
type Report struct {
	Property    string           `json:"property"`
	Test        string           `json:"test"`
	Evaluations int64            `json:"evaluations"`
	Discarded   int64            `json:"discarded"`
	NonTrivial  int64            `json:"nontrivial"`
	Hashes      []uint64         `json:"hashes"`
	HashesCap   bool             `json:"hashes_capped"`
	Labels      map[string]int64 `json:"labels"`
	Counters    map[string]int64 `json:"counters"`
	Samples     []sample         `json:"samples"`
	Failure     *Failure         `json:"failure,omitempty"`
	Fixed       []Failure        `json:"fixed_failures,omitempty"`
	Extra       map[string]any   `json:"extra,omitempty"`

	mu        sync.Mutex
	hashes    map[uint64]struct{}
	shrinking bool
}

var (
	reportsMu sync.Mutex
	reports   []*Report
)

func newReport(prop, test string) *Report {
	r := &Report{Property: prop, Test: test, Labels: map[string]int64{}, Counters: map[string]int64{}, hashes: map[uint64]struct{}{}, Extra: map[string]any{}}
	reportsMu.Lock()
	reports = append(reports, r)
	reportsMu.Unlock()
	return r
}

// SetExtra stores a free-form value in the report.
func (r *Report) SetExtra(k string, v any) {
	r.mu.Lock()
	r.Extra[k] = v
	r.mu.Unlock()
}

func (r *Report) account(c *Case) {
	r.mu.Lock()
	defer r.mu.Unlock()
	if r.shrinking {
		return
	}
	for _, l := range c.labels {
		r.Labels[l]++
	}
	for k, v := range c.counters {
		r.Counters[k] += v
	}
	if c.discarded {
		r.Discarded++
		return
	}
	r.Evaluations++
	if !c.nontriv {
		return
	}
	r.NonTrivial++
	if _, ok := r.hashes[c.key]; ok {
		return
	}
	if len(r.hashes) < maxHashes {
		r.hashes[c.key] = struct{}{}
	} else {
		r.HashesCap = true
	}
	// keep the maxSamples smallest hashes as samples: deterministic and
	// independent of generation order
	if c.render != nil {
		if len(r.Samples) < maxSamples || c.key < r.Samples[len(r.Samples)-1].Hash {
			r.Samples = append(r.Samples, sample{c.key, safeRender(c.render)})
			sort.Slice(r.Samples, func(i, j int) bool { return r.Samples[i].Hash < r.Samples[j].Hash })
			if len(r.Samples) > maxSamples {
				r.Samples = r.Samples[:maxSamples]
			}
		}
	}
}

func safeRender(f func() any) (v any) {
	defer func() {
		if r := recover(); r != nil {
			v = fmt.Sprintf("<render panicked: %v>", r)
		}
	}()
	v = f()
	// make sure it is JSON-able
	if _, err := json.Marshal(v); err != nil {
		return fmt.Sprintf("%+v", v)
	}
	return v
}

func (r *Report) fail(test, msg string, c *Case, stack string) {
	r.mu.Lock()
	defer r.mu.Unlock()
	r.shrinking = true
	f := &Failure{Test: test, Message: msg, Stack: stack}
	if c != nil && c.render != nil {
		f.Case = safeRender(c.render)
	}
	r.Failure = f // the last failing execution is rapid's minimal one
}

func (r *Report) write() {
	r.mu.Lock()
	defer r.mu.Unlock()
	path := os.Getenv("VERIF_REPORT")
	if path == "" {
		return
	}
	r.Hashes = r.Hashes[:0]
	for h := range r.hashes {
		r.Hashes = append(r.Hashes, h)
	}
	sort.Slice(r.Hashes, func(i, j int) bool { return r.Hashes[i] < r.Hashes[j] })
	b, err := json.Marshal(r)
	if err != nil {
		b = []byte(fmt.Sprintf(`{"property":%q,"test":%q,"error":%q}`, r.Property, r.Test, err.Error()))
	}
	tmp := path + "." + r.Test + ".tmp"
	_ = os.WriteFile(tmp, b, 0o644)
	_ = os.Rename(tmp, path+"."+r.Test+".json")
}

// Tier returns "quick" or "thorough".
func Tier() string {
	if os.Getenv("VERIF_TIER") == "thorough" {
		return "thorough"
	}
	return "quick"
}

// EnvInt reads an integer from the environment.
func EnvInt(name string, def int) int {
	if v, err := strconv.Atoi(os.Getenv(name)); err == nil {
		return v
	}
	return def
}

// traceCase writes the rendering of the running case to VERIF_TRACE (used by
// the driver to recover the input of a case that killed the process).
func traceCase(test string, c *Case) {
	p := os.Getenv("VERIF_TRACE")
	if p == "" || c.render == nil {
		return
	}
	b, _ := json.Marshal(map[string]any{"test": test, "case": safeRender(c.render)})
	_ = os.WriteFile(p, b, 0o644)
}

// Trace must be called by properties whose oracle may kill the process, after
// Render was registered and before the code under test runs.
func (c *Case) Trace(t interface{ Name() string }) { traceCase(t.Name(), c) }

// Check runs prop under rapid.Check with the bookkeeping described above.
// prop must register labels / NonTrivial / Render on c before or while it
// evaluates the oracle and report an oracle failure through rt.Fatalf.
func Check(t *testing.T, property string, prop func(rt *rapid.T, c *Case)) {
	r := newReport(property, t.Name())
	t.Cleanup(r.write)
	name := t.Name()
	rapid.Check(t, func(rt *rapid.T) {
		c := &Case{}
		defer func() {
			rec := recover()
			switch {
			case rec == nil && !rt.Failed():
				r.account(c)
			case rec == nil: // Errorf without FailNow
				r.fail(name, "failed (Errorf)", c, "")
			default:
				tn := fmt.Sprintf("%T", rec)
				switch tn {
				case "rapid.invalidData":
					c.discarded = true
					c.labels = append(c.labels, "discard:rapid-invalid")
					r.account(c)
				case "rapid.stopTest":
					r.fail(name, fmt.Sprint(rec), c, "")
				default:
					r.fail(name, fmt.Sprintf("panic: %v", rec), c, string(debug.Stack()))
				}
				panic(rec)
			}
		}()
		prop(rt, c)
	})
}

// Fixed runs a fixed list of named cases (regression cases of repaired
// findings and probes of open ones) without rapid. fn returns "" when the
// oracle holds. Every failing name is reported; the driver decides whether it
// is a KNOWN-FINDING (open) or a VIOLATION (fixed / not listed).
func Fixed(t *testing.T, property string, names []string, fn func(name string) (msg string, rendering any)) {
	r := newReport(property, t.Name())
	t.Cleanup(r.write)
	only := os.Getenv("VERIF_FIXED_ONLY")
	for _, n := range names {
		if only != "" && only != n {
			continue
		}
		func() {
			defer func() {
				if rec := recover(); rec != nil {
					r.Fixed = append(r.Fixed, Failure{Test: t.Name(), Message: fmt.Sprintf("panic: %v", rec), Case: n, Stack: string(debug.Stack()), Known: n})
				}
			}()
			msg, rendering := fn(n)
			r.Evaluations++
			r.Labels["fixed:"+n]++
			if msg != "" {
				r.Fixed = append(r.Fixed, Failure{Test: t.Name(), Message: msg, Case: rendering, Known: n})
			}
		}()
	}
	for _, f := range r.Fixed {
		t.Logf("fixed case %s: %s", f.Known, f.Message)
	}
}

// OpenFindings returns the ids of the open known findings (VERIF_OPEN_FINDINGS,
// comma separated, set by the driver from known_findings.json). Generators use
// it to steer the main campaign away from shapes that are already filed.
func OpenFindings() map[string]bool {
	m := map[string]bool{}
	for _, f := range splitComma(os.Getenv("VERIF_OPEN_FINDINGS")) {
		m[f] = true
	}
	return m
}

func splitComma(s string) []string {
	var out []string
	cur := ""
	for _, r := range s {
		if r == ',' {
			if cur != "" {
				out = append(out, cur)
			}
			cur = ""
		} else {
			cur += string(r)
		}
	}
	if cur != "" {
		out = append(out, cur)
	}
	return out
}
