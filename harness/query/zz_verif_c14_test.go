package query

// C14 — the query parser is total (DESIGN.md §5 C14).
//
// Inputs: (a) grammar-aware token sequences (every filter key, value lists,
// ranges, arithmetic on repeated variables, host masks, times and durations,
// payload expressions with variables, sub-query prefixes, converters,
// sort:/limit:/group:, both quoting styles, nesting, AND/OR/THEN/NOT) with
// malformed values mixed in, (b) byte-level mutations of (a), dictionary
// splices and raw byte strings.
//
// Oracle: Parse returns (query or error) without panicking; it returns within
// a watchdog when the estimated normal form is moderate (see c14Estimate; the
// property text exempts large normal forms); two parses of the same text agree
// in error-ness, sorting, limit, grouping and Conditions.String() (durations
// of conditions that refer to the reference time are compared modulo the
// difference of the two reference times, which is how Parse defines them).
//
// A hang is reported as a violation with the input: Parse runs in its own
// goroutine; when the watchdog (>= 20 s of wall clock AND of process CPU time,
// so that an overloaded machine does not count) expires the goroutine's stack
// is sampled twice and must be inside internal/query both times.

import (
	"fmt"
	"runtime"
	"sort"
	"strconv"
	"strings"
	"sync"
	"sync/atomic"
	"syscall"
	"testing"
	"time"

	"github.com/spq/pkappa2/internal/verif/vlib"
	"pgregory.net/rapid"
)

const (
	c14FindingCommonFactor = "F-C14-common-factor-loop"
	c14FindingFlagSlow     = "F-C14-flag-clean-slow"
	c14FindingLoneQuote    = "F-C14-lone-quote-panic"

	c14DNFLimit       = 200 // conjuncts; promptness is only claimed below (property quantifier)
	c14FlagSlowLimit  = 12  // conjuncts allowed together with a protocol filter while F-C14-flag-clean-slow is open
	c14WidthLimit     = 400 // conditions per conjunct
	c14ElemLimit      = 4000
	c14MemLimitBytes  = 3 << 30
	c14WatchdogFirst  = 25 * time.Second
	c14WatchdogRepeat = 5 * time.Second // after a hang was established in this process (shrinking)
)

// ---------------------------------------------------------------------------------------------
// size estimate of the normal form, computed on the syntax tree of the production grammar

type c14Conj struct{ n, d, e int } // non-payload conditions, payload conditions, payload sequence elements

type c14Estimator struct {
	tooBig  bool
	maxP    int
	proto   bool
	terms   int
	numVars []*queryTerm // number filters with variables (candidates for the common-factor shape)
	depth   int
	maxDep  int
	feats   map[string]bool
}

func (x *c14Estimator) set(cs []c14Conj) []c14Conj {
	if len(cs) > x.maxP {
		x.maxP = len(cs)
	}
	if len(cs) > c14DNFLimit {
		x.tooBig = true
		return cs[:1]
	}
	for _, c := range cs {
		if c.n+c.d > c14WidthLimit || c.e > c14ElemLimit {
			x.tooBig = true
			return cs[:1]
		}
	}
	return cs
}

func (x *c14Estimator) term(t *queryTerm) []c14Conj {
	x.terms++
	x.feats["key:"+t.Key] = true
	elems := strings.Count(t.Value, ",") + 1
	var unit c14Conj
	mult := 1
	switch t.Key {
	case "tag", "service", "mark", "generated":
		unit = c14Conj{n: 1}
	case "protocol":
		unit = c14Conj{n: 3}
		x.proto = true
	case "host":
		mult = 2
		unit = c14Conj{n: 1}
	case "chost", "shost":
		unit = c14Conj{n: 1}
	case "port", "bytes":
		mult = 2
		unit = c14Conj{n: 2}
	case "id", "cport", "sport", "cbytes", "sbytes":
		unit = c14Conj{n: 2}
	case "time", "ftime", "ltime":
		unit = c14Conj{n: 2}
	case "data":
		mult = 2
		elems = 1
		unit = c14Conj{d: 1, e: 1}
	case "cdata", "sdata":
		elems = 1
		unit = c14Conj{d: 1, e: 1}
	default:
		unit = c14Conj{n: 2}
	}
	switch t.Key {
	case "id", "cport", "sport", "port", "cbytes", "sbytes", "bytes":
		if strings.Contains(t.Value, "@") {
			x.numVars = append(x.numVars, t)
		}
	}
	if t.SubQuery != "" {
		x.feats["subquery"] = true
	}
	if strings.Contains(t.Value, "@") {
		x.feats["variable"] = true
	}
	if elems >= 8 {
		x.feats["list>=8"] = true
	}
	n := elems * mult
	if n > c14DNFLimit+1 {
		n = c14DNFLimit + 1
	}
	cs := make([]c14Conj, n)
	for i := range cs {
		cs[i] = unit
	}
	return x.set(cs)
}

// and / then of two estimates; a nil slice stands for "no conditions" (neutral)
func (x *c14Estimator) product(a, b []c14Conj, then bool) []c14Conj {
	if a == nil {
		return b
	}
	if b == nil {
		return a
	}
	if len(a)*len(b) > c14DNFLimit {
		x.tooBig = true
		if len(a)*len(b) > x.maxP {
			x.maxP = len(a) * len(b)
		}
		return a[:1]
	}
	out := make([]c14Conj, 0, len(a)*len(b))
	for _, p := range a {
		for _, q := range b {
			c := c14Conj{n: p.n + q.n, d: p.d + q.d, e: p.e + q.e}
			if then && p.d > 0 && q.d > 0 {
				c.d = p.d*q.d + p.d
				c.e = q.d*p.e + p.d*q.e + p.e
			}
			out = append(out, c)
		}
	}
	return x.set(out)
}

func (x *c14Estimator) invert(a []c14Conj) []c14Conj {
	if a == nil {
		return nil
	}
	p := 1
	sumE, nd := 0, 0
	for _, c := range a {
		w := c.n + c.e
		if w < 1 {
			w = 1
		}
		if p*w > c14DNFLimit {
			x.tooBig = true
			if p*w > x.maxP {
				x.maxP = p * w
			}
			return a[:1]
		}
		p *= w
		sumE += c.e
		if c.d > 0 {
			nd++
		}
	}
	piece := 1
	if x.proto {
		piece = 3
	}
	unit := c14Conj{n: piece * len(a), d: nd, e: sumE}
	out := make([]c14Conj, p)
	for i := range out {
		out[i] = unit
	}
	return x.set(out)
}

func (x *c14Estimator) cond(c *queryCondition) []c14Conj {
	switch {
	case c.Negated != nil:
		x.feats["not"] = true
		x.depth++
		if x.depth > x.maxDep {
			x.maxDep = x.depth
		}
		r := x.invert(x.cond(c.Negated))
		x.depth--
		return r
	case c.Grouped != nil:
		x.depth++
		if x.depth > x.maxDep {
			x.maxDep = x.depth
		}
		r := x.or(c.Grouped)
		x.depth--
		return r
	case c.Term != nil:
		return x.term(c.Term)
	case c.SortTerm != nil:
		x.feats["sort"] = true
	case c.LimitTerm != nil:
		x.feats["limit"] = true
	case c.GroupTerm != nil:
		x.feats["group"] = true
	}
	return nil
}

func (x *c14Estimator) or(o *queryOrCondition) []c14Conj {
	var res []c14Conj
	if len(o.Or) > 1 {
		x.feats["or"] = true
	}
	for _, a := range o.Or {
		var ra []c14Conj
		if len(a.And) > 1 {
			x.feats["and"] = true
		}
		for _, t := range a.And {
			var rt []c14Conj
			if len(t.Then) > 1 {
				x.feats["then"] = true
			}
			for _, c := range t.Then {
				rt = x.product(rt, x.cond(c), true)
			}
			ra = x.product(ra, rt, false)
		}
		if ra != nil {
			res = x.set(append(append([]c14Conj(nil), res...), ra...))
		}
	}
	return res
}

// c14HasLoneQuoteValue reports whether the lexer produces a value token that
// consists of the separator and a single double quote (`id:"`): parseValue
// slices s[1:len(s)-1] on it and panics (F-C14-lone-quote-panic).
func c14HasLoneQuoteValue(text string) (found bool) {
	defer func() {
		if recover() != nil {
			found = false
		}
	}()
	toks, _ := parser.Lex("", strings.NewReader(text))
	for _, tk := range toks {
		if tk.Value == `:"` || tk.Value == `="` {
			return true
		}
	}
	return false
}

// c14CommonFactorShape reports whether cleanNumberConditions would enter its
// common-factor loop with a non-trivial common divisor of the first two
// summands (the loop then never advances: F-C14-common-factor-loop). The
// summands are normalised the way cleanNumberConditions does it before the loop.
func c14CommonFactorShape(in []NumberConditionSummand) bool {
	s := append([]NumberConditionSummand(nil), in...)
	sort.Slice(s, func(i, j int) bool {
		if s[i].SubQuery != s[j].SubQuery {
			return s[i].SubQuery < s[j].SubQuery
		}
		return s[i].Type < s[j].Type
	})
	for j := 1; j < len(s); {
		a, b := &s[j-1], &s[j]
		if a.SubQuery == b.SubQuery && a.Type == b.Type {
			a.Factor += b.Factor
			s = append(s[:j], s[j+1:]...)
		} else if a.Factor == 0 {
			s = append(s[:j-1], s[j:]...)
		} else {
			j++
		}
	}
	if len(s) < 2 {
		return false
	}
	abs := func(v int) int {
		if v < 0 {
			return -v
		}
		return v
	}
	a, b := abs(s[0].Factor), abs(s[1].Factor)
	for b != 0 {
		a, b = b, a%b
	}
	return a >= 2
}

// c14TermHasCommonFactorShape builds the conditions of one number filter with
// the production term builder (no simplification runs there) and inspects them.
func c14TermHasCommonFactorShape(t *queryTerm) (shape bool) {
	defer func() {
		if recover() != nil {
			shape = false // a panic here is found by the main oracle when Parse runs
		}
	}()
	pc := parserContext{referenceTime: time.Unix(1700000000, 0), timezone: time.UTC}
	cs, err := t.QueryConditions(&pc)
	if err != nil {
		return false
	}
	for _, conj := range cs {
		for _, c := range conj {
			if nc, ok := c.(*NumberCondition); ok && c14CommonFactorShape(nc.Summands) {
				return true
			}
		}
	}
	return false
}

// ---------------------------------------------------------------------------------------------
// watchdog

type c14Outcome struct {
	q1, q2     *Query
	err1, err2 error
	panicVal   any
	panicStack string
	phase      atomic.Int32 // 0 syntax, 1 first parse, 2 second parse, 3 done
	dur        time.Duration
}

var c14HangSeen atomic.Bool

func c14CPU() time.Duration {
	var ru syscall.Rusage
	if syscall.Getrusage(syscall.RUSAGE_SELF, &ru) != nil {
		return 0
	}
	return time.Duration(ru.Utime.Nano() + ru.Stime.Nano())
}

// texts whose normal form is compared with their first parse after every generated input
var (
	c14Probes    = []string{"tag:a", "-tag:a", "tag:a or -tag:a", "service:web tag:b -mark:m", "cport:80 or -cport:80", "tag:a -tag:a or tag:b", `cdata:aa then sdata:bb`, "host:10.0.0.1/8 -chost:10.1.0.0/16"}
	c14ProbeBase []*Query
	c14ProbeOnce sync.Once
	c14ProbeNext atomic.Int32
)

func c14ProbeInit() {
	for _, p := range c14Probes {
		q, err := Parse(p)
		if err != nil {
			panic(fmt.Sprintf("probe %q does not parse: %v", p, err))
		}
		c14ProbeBase = append(c14ProbeBase, q)
	}
}

//go:noinline
func c14Guarded(text string, twice bool, out *c14Outcome, done chan<- struct{}) {
	defer close(done)
	defer func() {
		if r := recover(); r != nil {
			out.panicVal = r
			buf := make([]byte, 16<<10)
			out.panicStack = string(buf[:runtime.Stack(buf, false)])
		}
	}()
	t0 := time.Now()
	out.phase.Store(1)
	out.q1, out.err1 = Parse(text)
	out.dur = time.Since(t0)
	if twice {
		out.phase.Store(2)
		out.q2, out.err2 = Parse(text)
	}
	out.phase.Store(3)
}

// c14Where finds the goroutine running c14Guarded in a dump of all stacks and
// returns its innermost internal/query frame (harness frames excluded).
func c14Where() (frame string, inQuery bool, found bool) {
	buf := make([]byte, 4<<20)
	dump := string(buf[:runtime.Stack(buf, true)])
	for _, g := range strings.Split(dump, "\n\n") {
		if !strings.Contains(g, "internal/query.c14Guarded") {
			continue
		}
		found = true
		for _, line := range strings.Split(g, "\n") {
			if !strings.HasPrefix(line, "github.com/spq/pkappa2/internal/query.") {
				continue
			}
			fn := strings.TrimPrefix(line, "github.com/spq/pkappa2/internal/query.")
			if strings.HasPrefix(fn, "c14") || strings.HasPrefix(fn, "TestVerif") {
				continue
			}
			if i := strings.LastIndex(fn, "("); i > 0 {
				fn = fn[:i]
			}
			return "query." + fn, true, true
		}
		return "", false, true
	}
	return "", false, false
}

// c14Run runs Parse under the watchdog. failure != "" describes a hang,
// a promptness or a memory violation.
func c14Run(text string, twice bool, limit time.Duration) (out *c14Outcome, failure string) {
	out = &c14Outcome{}
	done := make(chan struct{})
	t0, cpu0 := time.Now(), c14CPU()
	go c14Guarded(text, twice, out, done)
	// fast path
	select {
	case <-done:
		return out, ""
	case <-time.After(50 * time.Millisecond):
	}
	tick := time.NewTicker(200 * time.Millisecond)
	defer tick.Stop()
	var ms runtime.MemStats
	for {
		select {
		case <-done:
			return out, ""
		case <-tick.C:
		}
		runtime.ReadMemStats(&ms)
		if ms.HeapAlloc > c14MemLimitBytes {
			fr, _, _ := c14Where()
			c14HangSeen.Store(true)
			return out, fmt.Sprintf("Parse holds %d MiB of heap after %v and is still running (in %s)", ms.HeapAlloc>>20, time.Since(t0).Round(time.Millisecond), fr)
		}
		wall, cpu := time.Since(t0), c14CPU()-cpu0
		if (wall >= limit && cpu >= limit) || wall >= 6*limit {
			f1, in1, found1 := c14Where()
			time.Sleep(500 * time.Millisecond)
			select {
			case <-done:
				return out, fmt.Sprintf("Parse needed %v (watchdog %v; last seen in %s)", time.Since(t0).Round(time.Millisecond), limit, f1)
			default:
			}
			f2, in2, found2 := c14Where()
			if found1 && found2 && in1 && in2 {
				c14HangSeen.Store(true)
				return out, fmt.Sprintf("Parse did not return within %v (cpu %v); its goroutine is inside %s, 0.5 s later inside %s", wall.Round(time.Millisecond), cpu.Round(time.Millisecond), f1, f2)
			}
			// not inside the package under test: the harness or the runtime is stuck; do not blame Parse
			return out, fmt.Sprintf("harness: watchdog expired after %v but the parse goroutine is not inside internal/query (%q, %q)", wall, f1, f2)
		}
	}
}

func c14Limit() time.Duration {
	if c14HangSeen.Load() {
		return c14WatchdogRepeat
	}
	return c14WatchdogFirst
}

// ---------------------------------------------------------------------------------------------
// comparing two parses

func c14TimeConds(q *Query) []*TimeCondition {
	var out []*TimeCondition
	for _, conj := range q.Conditions {
		for _, c := range conj {
			if tc, ok := c.(*TimeCondition); ok {
				out = append(out, tc)
			}
		}
	}
	return out
}

// c14SameQuery compares two parses of the same text. Every absolute time T in a
// time filter contributes +-(T - referenceTime) to the Duration of the
// resulting conditions (queryTerm.QueryConditions), so Duration = C + k*reference
// with a small integer k fixed by the text, and two parses may differ by exactly
// k*(ref1-ref2). ReferenceTimeFactor cannot be used for k: it is not copied to
// the second condition of a single-valued time filter (conditions.go, the
// `len(e.Range) == 1` copy), and the search code does not use it either.
func c14SameQuery(a, b *Query) string {
	if fmt.Sprint(a.Sorting) != fmt.Sprint(b.Sorting) {
		return fmt.Sprintf("sorting differs: %v vs %v", a.Sorting, b.Sorting)
	}
	if (a.Limit == nil) != (b.Limit == nil) || a.Limit != nil && *a.Limit != *b.Limit {
		return "limit differs"
	}
	if (a.Grouping == nil) != (b.Grouping == nil) || a.Grouping != nil && fmt.Sprintf("%+v", *a.Grouping) != fmt.Sprintf("%+v", *b.Grouping) {
		return fmt.Sprintf("grouping differs: %+v vs %+v", a.Grouping, b.Grouping)
	}
	ta, tb := c14TimeConds(a), c14TimeConds(b)
	if len(ta) != len(tb) {
		return fmt.Sprintf("conditions differ: %s vs %s", a.Conditions.String(), b.Conditions.String())
	}
	// wall-clock difference (Round(0) strips the monotonic reading; Parse mixes
	// the reference time with wall-clock-only values)
	delta := a.ReferenceTime.Round(0).Sub(b.ReferenceTime.Round(0))
	saved := make([]time.Duration, len(tb))
	for i := range tb {
		saved[i] = tb[i].Duration
		diff := ta[i].Duration - tb[i].Duration
		if diff != 0 && delta != 0 && diff%delta == 0 && diff/delta <= 64 && diff/delta >= -64 {
			tb[i].Duration = ta[i].Duration
		}
	}
	sa, sb := a.Conditions.String(), b.Conditions.String()
	for i := range tb {
		tb[i].Duration = saved[i]
	}
	if sa != sb {
		return fmt.Sprintf("conditions differ: %s vs %s", sa, sb)
	}
	return ""
}

// ---------------------------------------------------------------------------------------------
// generators

type c14Gen struct {
	t     *rapid.T
	open  map[string]bool
	feats map[string]bool
	// sloppy: this input may contain deliberately malformed pieces (values of
	// another key, junk, missing quotes). One malformed filter makes the whole
	// parse fail early, so most inputs are generated clean.
	sloppy bool
}

var c14Bool = rapid.Bool()

// c14Uniform draws uniformly from [0,n) out of single-bit draws: rapid's integer
// generators and SampledFrom are biased towards small values (about half of
// IntRange(0,99) is below 16), which would distort the weights below.
func c14Uniform(t *rapid.T, n int, label string) int {
	if n <= 1 {
		return 0
	}
	k := 0
	for 1<<k < n {
		k++
	}
	for {
		v := 0
		for i := 0; i < k; i++ {
			v <<= 1
			if c14Bool.Draw(t, label) {
				v |= 1
			}
		}
		if v < n {
			return v
		}
	}
}

func (g *c14Gen) intn(lo, hi int, label string) int { return lo + c14Uniform(g.t, hi-lo+1, label) }
func (g *c14Gen) chance(p int, label string) bool   { return c14Uniform(g.t, 100, label) < p }
func (g *c14Gen) pick(xs []string, label string) string {
	return xs[c14Uniform(g.t, len(xs), label)]
}

// pickGB draws a well-formed token, or (only in sloppy inputs) a malformed one.
func (g *c14Gen) pickGB(good, bad []string, label string) string {
	if g.sloppy && g.chance(25, label+"bad") {
		g.feats["gen:malformed-token"] = true
		return g.pick(bad, label)
	}
	return g.pick(good, label)
}

var (
	c14NumKeys     = []string{"id", "cport", "sport", "port", "cbytes", "sbytes", "bytes"}
	c14TimeKeys    = []string{"time", "ftime", "ltime"}
	c14HostKeys    = []string{"host", "chost", "shost"}
	c14TagKeys     = []string{"tag", "service", "mark", "generated"}
	c14DataKeys    = []string{"data", "cdata", "sdata"}
	c14SubNames    = []string{"a", "b", "s1", "A"}
	c14NumVars     = []string{"id", "cport", "sport", "cbytes", "sbytes"}
	c14Durations   = []string{"1h", "30m", "1.5h", ".5s", "10ms", "1h30m", "5us", "3µs", "7ns", "0s", "100000h", "1H", "2M"}
	c14AbsTimes    = []string{"2024-01-02 1304", "2024-01-02 130405", "1999-12-31 2359", "2030-06-15 0000", "2024-01-02  0101"}
	c14BadAbsTimes = []string{"2024-02-30 1200", "2024-13-01 0000", "2024-01-02 2561", "1304", "130405", "12", "h", "1d", "now", "9999999h"}
	c14IPs         = []string{"1.2.3.4", "10.0.0.1", "0.0.0.0", "255.255.255.255", "::1", "fe80::1", "1:2:3:4:5:6:7:8", "::", "2001:db8::", "::ffff:1.2.3.4"}
	c14BadIPs      = []string{"192.168.1.300", ":::", "1::2::3", "1.2.3", "1.2.3.4.5", "g::1"}
	c14Masks       = []string{"/0", "/8", "/24", "/32", "/33", "/64", "/128", "/-1", "/-8", "/-32", "/-33", "/-128", "/16/8", "/8/-8"}
	c14BadMasks    = []string{"/129", "/-129", "/99999", "/-99999", "/", "/x"}
	c14TagNames    = []string{"foo", "bar", "flag_in", "a b", " x ", "", "ü", "a/b", "x:y", "1", "-", "tag"}
	c14Regexes     = []string{"a", "flag", "FLAG\\{[a-z0-9]+\\}", "^GET ", "\\x00\\xff", "a|b", ".*", "", "(?i)x", "é", "(?P<n>a+)", "@@", "user=@@admin", "\\d+$"}
	c14BadRegexes  = []string{"(a", "[z-a]", "a{2000}", "a**", "\\C", "\\", "a\\", "\xff", "x{2}{3}", "(?P<n>a)(?P<n>b)"}
	c14Protos      = []string{"tcp", "udp", "sctp", "other", "TCP", "Udp"}
	c14BadProtos   = []string{"icmp", "tcp udp", "", "6"}
	c14SortKeys    = []string{"id", "ftime", "ltime", "cbytes", "sbytes", "chost", "shost", "cport", "sport", "-id", "-ftime", " id", "- id"}
	c14BadSortKeys = []string{"bogus", "", "ID", "--id"}
	c14Numbers     = []string{"0", "1", "2", "3", "7", "80", "443", "1024", "65535", "65536", "4294967296", "007"}
	c14BadNumbers  = []string{"99999999999999999999", "1.5", "0x10", "1e3"}
	c14Limits      = []string{"0", "1", "10", "100", " 5 ", "18446744073709551615"}
	c14BadLimits   = []string{"-1", "1e3", "18446744073709551616", "", "x"}
	c14Groups      = []string{"x", "@name@", "a@n@b@a:m@", "@@", "", "pre @x@ post"}
	c14BadGroups   = []string{"@", "@a:@", "@a b@"}
	c14Dict        = []string{"id", "tag", "service", "mark", "protocol", "generated", "time", "ftime", "ltime", "data", "cdata", "sdata", "port", "cport", "sport",
		"host", "chost", "shost", "bytes", "cbytes", "sbytes", "sort", "limit", "group", "or", "and", "then", "OR", "AND", "THEN", "(", ")", "-", "!", ":", "=", "\"", "\"\"",
		"@", "@a:", "@id@", "@cport@", "@a:id@", "@ftime@", "@chost@", "@protocol@", "@name@", ",", "+", "-", "--", "/", "/24", ".", ".conv", " ", "  ", "\t", "\n", "\\", "\\ ", "\\)",
		"1", "0", "65535", "99999999999999999999", "1h", "1.2.3.4", "::1", "tcp", "2024-01-02 1304", "a", "é", "\x00", "\xff", "*", "["}
)

// goodOr returns the well-formed names, in sloppy inputs sometimes the wrong ones.
func (g *c14Gen) goodOr(good, bad []string) []string {
	if g.sloppy && g.chance(15, "wrongvar") {
		return bad
	}
	return good
}

func (g *c14Gen) caseMix(s string) string {
	switch g.intn(0, 9, "case") {
	case 0:
		return strings.ToUpper(s)
	case 1:
		return strings.ToUpper(s[:1]) + s[1:]
	}
	return s
}

func (g *c14Gen) variable(names []string, label string) string {
	name := g.pick(names, label)
	if g.chance(25, label+"sub") {
		g.feats["gen:subquery-variable"] = true
		return "@" + g.pick(c14SubNames, label+"subname") + ":" + name + "@"
	}
	return "@" + name + "@"
}

func (g *c14Gen) ops(label string) string {
	return g.pick([]string{"+", "-", "+", "-", "--", "+-", "-+", "---", " + ", " - "}, label)
}

// listLen draws the length of a value list: mostly short, sometimes long.
func (g *c14Gen) listLen() int {
	switch k := g.intn(0, 39, "listk"); {
	case k < 26:
		return 1
	case k < 33:
		return g.intn(2, 4, "list")
	case k < 37:
		return g.intn(5, 20, "list")
	case k < 39:
		return g.intn(21, 60, "list")
	default:
		return g.intn(61, 150, "list")
	}
}

func (g *c14Gen) numSide(pool []string, parts *int) string {
	n := g.intn(0, 5, "nparts")
	if n == 0 && g.chance(70, "nonempty") {
		n = 1
	}
	var sb strings.Builder
	for i := 0; i < n; i++ {
		if i > 0 || g.chance(20, "leadop") {
			sb.WriteString(g.ops("op"))
		}
		if len(pool) > 0 && g.chance(55, "usevar") {
			sb.WriteString(g.pick(pool, "var"))
			*parts++
		} else {
			sb.WriteString(g.pickGB(c14Numbers, c14BadNumbers, "num"))
		}
	}
	return sb.String()
}

func (g *c14Gen) numValue() string {
	// a small pool of variables per filter so that coefficients accumulate
	var pool []string
	if g.chance(45, "vars") {
		for i, n := 0, g.intn(1, 3, "npool"); i < n; i++ {
			if g.sloppy && g.chance(10, "badvar") {
				pool = append(pool, g.variable([]string{"ftime", "chost", "x", "protocol"}, "bv"))
			} else {
				pool = append(pool, g.variable(c14NumVars, "nv"))
			}
		}
	}
	n := g.listLen()
	if len(pool) > 0 && n > 20 {
		n = 20
	}
	var el []string
	vars := 0
	for i := 0; i < n; i++ {
		s := g.numSide(pool, &vars)
		switch g.intn(0, 9, "range") {
		case 0, 1, 2:
			s += ":" + g.numSide(pool, &vars)
		case 3:
			s = ":" + s
		case 4:
			if n == 1 && g.sloppy && g.chance(20, "threecolon") {
				s += ":1:2"
			}
		}
		el = append(el, s)
	}
	if vars >= 3 {
		g.feats["gen:num-arith-3+vars"] = true
	}
	return strings.Join(el, g.pick([]string{",", ",", ", ", " ,"}, "sep"))
}

func (g *c14Gen) timeSide() string {
	n := g.intn(0, 4, "tparts")
	if n == 0 && g.chance(70, "nonempty") {
		n = 1
	}
	var sb strings.Builder
	for i := 0; i < n; i++ {
		if i > 0 || g.chance(30, "leadop") {
			sb.WriteString(g.ops("op"))
		}
		switch k := g.intn(0, 9, "tkind"); {
		case k < 4:
			sb.WriteString(g.pick(c14Durations, "dur"))
		case k < 8:
			g.feats["gen:abs-time"] = true
			sb.WriteString(g.pickGB(c14AbsTimes, c14BadAbsTimes, "abs"))
		default:
			sb.WriteString(g.variable(g.goodOr([]string{"ftime", "ltime"}, []string{"id", "time"}), "tv"))
		}
	}
	return sb.String()
}

func (g *c14Gen) timeValue() string {
	n := g.listLen()
	if n > 30 {
		n = 30
	}
	var el []string
	for i := 0; i < n; i++ {
		s := g.timeSide()
		switch g.intn(0, 5, "range") {
		case 0, 1, 2:
			s += ":" + g.timeSide()
		case 3:
			s = ":" + s
		}
		el = append(el, s)
	}
	return strings.Join(el, ",")
}

func (g *c14Gen) hostValue() string {
	n := g.listLen()
	var el []string
	for i := 0; i < n; i++ {
		var s string
		if g.chance(25, "hostvar") {
			s = g.variable(g.goodOr([]string{"chost", "shost"}, []string{"host", "id"}), "hv")
		} else {
			s = g.pickGB(c14IPs, c14BadIPs, "ip")
		}
		if g.chance(35, "mask") {
			s += g.pickGB(c14Masks, c14BadMasks, "mask")
		}
		el = append(el, s)
	}
	return strings.Join(el, ",")
}

func (g *c14Gen) protoValue() string {
	n := g.intn(1, 3, "nproto")
	var el []string
	for i := 0; i < n; i++ {
		if g.chance(20, "protovar") {
			el = append(el, g.variable(g.goodOr([]string{"protocol"}, []string{"id"}), "pv"))
		} else {
			el = append(el, g.pickGB(c14Protos, c14BadProtos, "proto"))
		}
	}
	return strings.Join(el, ",")
}

func (g *c14Gen) tagValue() string {
	n := g.listLen()
	var el []string
	for i := 0; i < n; i++ {
		if n > 4 {
			el = append(el, fmt.Sprintf("t%d", g.intn(0, 40, "tagno")))
		} else {
			el = append(el, g.pick(c14TagNames, "tagname"))
		}
	}
	return strings.Join(el, ",")
}

func (g *c14Gen) dataValue() string {
	n := g.intn(1, 3, "ndata")
	var sb strings.Builder
	for i := 0; i < n; i++ {
		if g.chance(25, "datavar") {
			sb.WriteString(g.variable([]string{"name", "n", "user", "x1"}, "dv"))
		} else {
			sb.WriteString(g.pickGB(c14Regexes, c14BadRegexes, "regex"))
		}
	}
	return sb.String()
}

func (g *c14Gen) junkValue() string {
	b := rapid.SliceOfN(rapid.ByteRange(0x20, 0x7e), 0, 12).Draw(g.t, "junk")
	return string(b)
}

func (g *c14Gen) valueFor(key string) string {
	switch key {
	case "id", "cport", "sport", "port", "cbytes", "sbytes", "bytes":
		return g.numValue()
	case "time", "ftime", "ltime":
		return g.timeValue()
	case "host", "chost", "shost":
		return g.hostValue()
	case "protocol":
		return g.protoValue()
	case "tag", "service", "mark", "generated":
		return g.tagValue()
	default:
		return g.dataValue()
	}
}

// quote renders ":value" in one of the two value notations of the lexer.
func (g *c14Gen) quote(v string) string {
	sep := ":"
	if g.chance(10, "eq") {
		sep = "="
	}
	needs := v == "" || strings.ContainsAny(v, " \t\n\r\"\\") || strings.HasSuffix(v, ")")
	if needs && g.sloppy && g.chance(10, "leave-unquoted") {
		g.feats["gen:unquoted-needs-quotes"] = true
		needs = false
	} else if !needs && g.chance(25, "quote-anyway") {
		needs = true
	}
	if needs {
		return sep + `"` + strings.ReplaceAll(v, `"`, `""`) + `"`
	}
	return sep + v
}

func (g *c14Gen) allKeys() []string {
	var all []string
	all = append(all, c14NumKeys...)
	all = append(all, c14NumKeys...) // arithmetic lives here: double weight
	all = append(all, c14TimeKeys...)
	all = append(all, c14HostKeys...)
	all = append(all, c14TagKeys...)
	all = append(all, c14DataKeys...)
	all = append(all, "protocol")
	return all
}

func (g *c14Gen) term() string {
	key := g.pick(g.allKeys(), "key")
	var sb strings.Builder
	if g.chance(12, "subq") {
		sb.WriteString("@" + g.pick(c14SubNames, "subq") + ":")
	}
	sb.WriteString(g.caseMix(key))
	isData := key == "data" || key == "cdata" || key == "sdata"
	if isData && g.chance(20, "conv") || !isData && g.sloppy && g.chance(4, "badconv") {
		sb.WriteString("." + g.pick([]string{"conv", "b64", "my conv", "a.b", "x-1"}, "convname"))
	}
	var v string
	switch k := g.intn(0, 19, "valkind"); {
	case k < 17 || !g.sloppy:
		v = g.valueFor(key)
	case k < 19:
		g.feats["gen:value-of-other-key"] = true
		v = g.valueFor(g.pick(g.allKeys(), "otherkey"))
	default:
		g.feats["gen:junk-value"] = true
		v = g.junkValue()
	}
	// steer away from the open finding: drop variables until the filter no longer has the shape
	if g.open[c14FindingCommonFactor] && strings.Contains(v, "@") {
		switch key {
		case "id", "cport", "sport", "port", "cbytes", "sbytes", "bytes":
			sub := ""
			if s := sb.String(); strings.HasPrefix(s, "@") {
				sub = s[1:strings.Index(s, ":")]
			}
			for tries := 0; tries < 40 && c14TermHasCommonFactorShape(&queryTerm{SubQuery: sub, Key: key, Value: v}); tries++ {
				g.feats["gen:steered-away-common-factor"] = true
				i := strings.LastIndex(v, "@")
				j := strings.LastIndex(v[:i], "@")
				if j < 0 {
					break
				}
				v = v[:j] + "1" + v[i+1:]
			}
		}
	}
	sb.WriteString(g.quote(v))
	return sb.String()
}

func (g *c14Gen) special() string {
	switch g.intn(0, 2, "special") {
	case 0:
		n := g.intn(1, 3, "nsort")
		var el []string
		for i := 0; i < n; i++ {
			el = append(el, g.pickGB(c14SortKeys, c14BadSortKeys, "sortkey"))
		}
		return g.caseMix("sort") + g.quote(strings.Join(el, ","))
	case 1:
		return g.caseMix("limit") + g.quote(g.pickGB(c14Limits, c14BadLimits, "limit"))
	default:
		return g.caseMix("group") + g.quote(g.pickGB(c14Groups, c14BadGroups, "group"))
	}
}

func (g *c14Gen) cond(d int) string {
	switch k := g.intn(0, 99, "cond"); {
	case k < 14:
		g.feats["gen:not"] = true
		return g.pick([]string{"-", "!", "- ", "--", "!-"}, "neg") + g.cond(d)
	case k < 30 && d > 0:
		return "(" + g.expr(d-1) + ")"
	case k < 35:
		return g.special()
	default:
		return g.term()
	}
}

func (g *c14Gen) count(label string, p1, p2, p3 int, max int) int {
	k := g.intn(0, 99, label)
	switch {
	case k < p1:
		return 1
	case k < p1+p2:
		return 2
	case k < p1+p2+p3:
		return 3
	}
	return g.intn(4, max, label+"n")
}

func (g *c14Gen) expr(d int) string {
	var ors []string
	for i, n := 0, g.count("nor", 62, 24, 9, 7); i < n; i++ {
		var ands []string
		for j, m := 0, g.count("nand", 55, 28, 11, 6); j < m; j++ {
			var thens []string
			for k, l := 0, g.count("nthen", 86, 9, 4, 5); k < l; k++ {
				thens = append(thens, g.cond(d))
			}
			ands = append(ands, strings.Join(thens, g.pick([]string{" then ", " THEN ", " then\t"}, "thenop")))
		}
		s := ands[0]
		for _, a := range ands[1:] {
			s += g.pick([]string{" ", " ", " and ", " AND ", "  "}, "andop") + a
		}
		ors = append(ors, s)
	}
	return strings.Join(ors, g.pick([]string{" or ", " OR ", " Or "}, "orop"))
}

func (g *c14Gen) deep() string {
	// deep nesting with a small normal form
	n := g.intn(10, 300, "depth")
	var sb strings.Builder
	closers := 0
	for i := 0; i < n; i++ {
		if g.chance(70, "paren") {
			sb.WriteString("(")
			closers++
		} else {
			sb.WriteString(g.pick([]string{"-", "!"}, "neg"))
		}
	}
	sb.WriteString(g.term())
	sb.WriteString(strings.Repeat(")", closers))
	return sb.String()
}

func (g *c14Gen) mutate(s string) string {
	b := []byte(s)
	for i, n := 0, g.intn(1, 3, "nmut"); i < n; i++ {
		pos := 0
		if len(b) > 0 {
			pos = g.intn(0, len(b), "pos")
		}
		switch g.intn(0, 4, "mut") {
		case 0: // delete
			if pos < len(b) {
				b = append(b[:pos:pos], b[pos+1:]...)
			}
		case 1: // insert dictionary token
			tok := g.pick(c14Dict, "tok")
			b = append(b[:pos:pos], append([]byte(tok), b[pos:]...)...)
		case 2: // replace byte
			if pos < len(b) {
				b[pos] = rapid.Byte().Draw(g.t, "byte")
			}
		case 3: // duplicate a slice
			if pos < len(b) {
				end := g.intn(pos, len(b), "end")
				b = append(b[:end:end], append(append([]byte(nil), b[pos:end]...), b[end:]...)...)
			}
		default: // truncate
			b = b[:pos]
		}
	}
	return string(b)
}

func (g *c14Gen) splice() string {
	var sb strings.Builder
	for i, n := 0, g.intn(1, 14, "ntok"); i < n; i++ {
		sb.WriteString(g.pick(c14Dict, "tok"))
		if g.chance(30, "sp") {
			sb.WriteString(" ")
		}
	}
	return sb.String()
}

// moderate builds inputs whose normal form has some 20..200 conjuncts.
func (g *c14Gen) moderate() string {
	odd := func(n, base int) string {
		parts := make([]string, n)
		for i := range parts {
			parts[i] = strconv.Itoa(base + 2*i)
		}
		return strings.Join(parts, ",")
	}
	keys := []string{"id", "cport", "sport", "cbytes", "sbytes", "port", "bytes"}
	switch g.intn(0, 3, "modkind") {
	case 0: // product of two lists
		n1 := g.intn(2, 40, "n1")
		n2 := g.intn(1, 200/n1, "n2")
		k1, k2 := g.pick(keys[:5], "k1"), g.pick(keys[:5], "k2")
		return k1 + ":" + odd(n1, 1) + g.pick([]string{" ", " and ", " then "}, "op") + k2 + ":" + odd(n2, 1001)
	case 1: // negated disjunction: 2^k conjuncts
		k := g.intn(2, 7, "k")
		var parts []string
		for i := 0; i < k; i++ {
			parts = append(parts, g.pick(keys[:5], "k")+":"+strconv.Itoa(10+i))
		}
		return g.pick([]string{"-", "!"}, "neg") + "(" + strings.Join(parts, " or ") + ")"
	case 2: // one long list with a second filter and a tag
		n := g.intn(20, 190, "n")
		return g.pick(keys[:5], "k1") + ":" + odd(n, 1) + " tag:x " + g.term()
	default: // payload sequences
		n := g.intn(2, 12, "n")
		var parts []string
		for i := 0; i < n; i++ {
			parts = append(parts, g.pick(c14DataKeys, "dk")+":x"+strconv.Itoa(i))
		}
		return g.pick([]string{"", "-"}, "neg") + "(" + strings.Join(parts, g.pick([]string{" then ", " "}, "op")) + ")"
	}
}

func (g *c14Gen) input() (mode, text string) {
	g.sloppy = g.chance(25, "sloppy")
	if g.sloppy {
		g.feats["gen:sloppy"] = true
	}
	switch k := g.intn(0, 99, "mode"); {
	case k < 52:
		return "grammar", g.expr(g.intn(0, 3, "maxdepth"))
	case k < 55:
		return "moderate", g.moderate()
	case k < 60:
		return "deep", g.deep()
	case k < 80:
		return "mutated", g.mutate(g.expr(g.intn(0, 2, "maxdepth")))
	case k < 92:
		return "splice", g.splice()
	default:
		return "raw", string(rapid.SliceOfN(rapid.Byte(), 0, 48).Draw(g.t, "raw"))
	}
}

// ---------------------------------------------------------------------------------------------
// the property

func c14Prop(rt *rapid.T, c *vlib.Case, t *testing.T, open map[string]bool) {
	g := &c14Gen{t: rt, open: open, feats: map[string]bool{}}
	mode, text := g.input()
	c.Render(func() any { return map[string]any{"mode": mode, "query": text, "query_quoted": strconv.Quote(text)} })
	c.Trace(t)
	c.Label("mode:" + mode)

	// syntax tree of the production grammar -> size estimate and shapes of open findings
	est := &c14Estimator{feats: map[string]bool{}}
	var root *queryRoot
	func() {
		defer func() {
			if r := recover(); r != nil {
				root = nil // Parse runs the same grammar first: the oracle below reports the panic
				c.Label("grammar-parser-panicked")
			}
		}()
		var err error
		root, err = parser.ParseString("", text)
		if err != nil {
			root = nil
		}
	}()
	if open[c14FindingLoneQuote] && c14HasLoneQuoteValue(text) {
		c.Count("excluded_known", 1)
		c.Discard("open:" + c14FindingLoneQuote)
		return
	}
	if root != nil && root.Term != nil {
		est.or(root.Term)
	}
	for f := range g.feats {
		c.Label(f)
	}
	if est.tooBig {
		c.Discard("estimated-normal-form-above-limit")
		return
	}
	if open[c14FindingCommonFactor] {
		for _, tm := range est.numVars {
			if c14TermHasCommonFactorShape(tm) {
				c.Count("excluded_known", 1)
				c.Discard("open:" + c14FindingCommonFactor)
				return
			}
		}
	}
	if open[c14FindingFlagSlow] && est.proto && est.maxP > c14FlagSlowLimit {
		c.Count("excluded_known", 1)
		c.Discard("open:" + c14FindingFlagSlow)
		return
	}

	// large normal forms dominate the run time: parse those twice only now and then
	twice := est.maxP <= 50 || g.chance(25, "twice")
	out, failure := c14Run(text, twice, c14Limit())
	if failure != "" {
		rt.Fatalf("%s; input %q (estimated normal form: %d conjuncts)", failure, text, est.maxP)
	}
	if out.panicVal != nil {
		rt.Fatalf("Parse(%q) panics: %v\n%s", text, out.panicVal, out.panicStack)
	}
	c.Count("parse_ns", int(out.dur.Nanoseconds()))
	switch {
	case est.maxP > 50:
		c.Count("parse_ns_est>50", int(out.dur.Nanoseconds()))
	case est.maxP > 8:
		c.Count("parse_ns_est9-50", int(out.dur.Nanoseconds()))
	default:
		c.Count("parse_ns_est<=8", int(out.dur.Nanoseconds()))
	}
	if out.dur > 2*time.Second {
		c.Label("slow:>2s")
	} else if out.dur > 200*time.Millisecond {
		c.Label("slow:>200ms")
	}
	if !twice {
		out.q2, out.err2 = out.q1, out.err1
	} else {
		c.Label("parsed-twice")
	}
	if (out.err1 == nil) != (out.err2 == nil) {
		rt.Fatalf("two parses of %q disagree: first error %v, second error %v", text, out.err1, out.err2)
	}
	if out.err1 != nil {
		if (out.q1 != nil) || (out.q2 != nil) {
			rt.Fatalf("Parse(%q) returned both a query and an error (%v)", text, out.err1)
		}
		if out.err1.Error() != out.err2.Error() {
			rt.Fatalf("two parses of %q fail differently: %q vs %q", text, out.err1, out.err2)
		}
		switch {
		case root == nil:
			c.Label("outcome:syntax-error")
		default:
			c.Label("outcome:value-or-semantic-error")
		}
	} else {
		if out.q1 == nil || out.q2 == nil {
			rt.Fatalf("Parse(%q) returned neither a query nor an error", text)
		}
		if msg := c14SameQuery(out.q1, out.q2); msg != "" {
			rt.Fatalf("two parses of %q give different queries: %s", text, msg)
		}
		// what Parse answers does not depend on what was parsed before: a fixed text parsed now equals what it
		// gave when the process started
		c14ProbeOnce.Do(c14ProbeInit)
		pi := int(c14ProbeNext.Add(1)) % len(c14Probes)
		if pq, err := Parse(c14Probes[pi]); err != nil {
			rt.Fatalf("Parse(%q) fails after Parse(%q): %v", c14Probes[pi], text, err)
		} else if msg := c14SameQuery(c14ProbeBase[pi], pq); msg != "" {
			rt.Fatalf("Parse(%q) gives another query after Parse(%q) than at the start of the process: %s", c14Probes[pi], text, msg)
		}
		c.Label("outcome:query")
		n := len(out.q1.Conditions)
		switch {
		case out.q1.Conditions.impossible():
			c.Label("nf:impossible")
		case n <= 1:
			c.Label("nf:1")
		case n <= 8:
			c.Label("nf:2-8")
		case n <= 50:
			c.Label("nf:9-50")
		default:
			c.Label("nf:>50")
		}
		if n > est.maxP && !(n == 1 && est.maxP == 0) {
			// the estimate is meant to be an upper bound; record when it is not (never seen)
			c.Label("estimate-below-actual")
		}
		for _, tc := range c14TimeConds(out.q1) {
			if tc.ReferenceTimeFactor != 0 {
				c.Label("nf:reference-time-condition")
				break
			}
		}
	}
	for f := range est.feats {
		c.Label("q:" + f)
	}
	switch {
	case est.maxP > 50:
		c.Label("est:>50")
	case est.maxP > 8:
		c.Label("est:9-50")
	}
	c.LabelIf(est.maxDep >= 4, "q:depth>=4")
	c.LabelIf(est.maxDep >= 50, "q:depth>=50")
	c.LabelIf(len(est.numVars) > 0, "q:number-filter-with-variables")
	// non-trivial: the text got through the grammar and carries at least two filters,
	// a variable, a list of >= 2 elements or a negation (i.e. simplification had work to do)
	if root != nil && (est.terms >= 2 || est.feats["variable"] || est.feats["not"] || strings.Contains(text, ",")) {
		c.NonTrivial(text)
	}
}

func TestVerifC14(t *testing.T) {
	open := vlib.OpenFindings()
	vlib.Check(t, "C14", func(rt *rapid.T, c *vlib.Case) { c14Prop(rt, c, t, open) })
}

// FuzzVerifC14 is the coverage-guided campaign (thorough tier): the same oracle over byte strings mutated
// by go's native fuzzer. The starting corpus is a set of examples of the structured generator above plus the
// reproducers of the repaired findings, so that the mutations start inside the grammar.
func FuzzVerifC14(f *testing.F) {
	open := vlib.OpenFindings()
	gen := rapid.Custom(func(t *rapid.T) string {
		g := &c14Gen{t: t, open: open, feats: map[string]bool{}}
		_, text := g.input()
		return text
	})
	for seed := 1; seed <= 300; seed++ {
		if text := gen.Example(seed); len(text) <= 2048 {
			f.Add(text)
		}
	}
	for _, text := range []string{`id:"`, "id:@id@+@id@+@id@+@cport@+@cport@", "-id::", "protocol:tcp id:1,3,5,7,9,11,13", `cdata:"(?P<a>x)" then sdata:"@a@"`, "@s:id:1 id:@s:id@+1:", "ltime:@ftime@+5m: sort:-id limit:3 group:\"@sport@\""} {
		f.Add(text)
	}
	f.Fuzz(func(t *testing.T, text string) {
		if len(text) > 4096 {
			t.Skip()
		}
		est := &c14Estimator{feats: map[string]bool{}}
		var root *queryRoot
		func() {
			defer func() { _ = recover() }() // Parse runs the same grammar first: the oracle below reports the panic
			if r, err := parser.ParseString("", text); err == nil {
				root = r
			}
		}()
		if root != nil && root.Term != nil {
			est.or(root.Term)
		}
		if est.tooBig {
			t.Skip() // promptness is only claimed for moderate normal forms
		}
		if open[c14FindingLoneQuote] && c14HasLoneQuoteValue(text) {
			t.Skip()
		}
		if open[c14FindingCommonFactor] {
			for _, tm := range est.numVars {
				if c14TermHasCommonFactorShape(tm) {
					t.Skip()
				}
			}
		}
		if open[c14FindingFlagSlow] && est.proto && est.maxP > c14FlagSlowLimit {
			t.Skip()
		}
		out, failure := c14Run(text, true, c14Limit())
		if failure != "" {
			t.Fatalf("%s; input %q (estimated normal form: %d conjuncts)", failure, text, est.maxP)
		}
		if out.panicVal != nil {
			t.Fatalf("Parse(%q) panics: %v\n%s", text, out.panicVal, out.panicStack)
		}
		if (out.err1 == nil) != (out.err2 == nil) {
			t.Fatalf("two parses of %q disagree: first error %v, second error %v", text, out.err1, out.err2)
		}
		if out.err1 != nil {
			if out.q1 != nil || out.q2 != nil {
				t.Fatalf("Parse(%q) returned both a query and an error (%v)", text, out.err1)
			}
			if out.err1.Error() != out.err2.Error() {
				t.Fatalf("two parses of %q fail differently: %q vs %q", text, out.err1, out.err2)
			}
			return
		}
		if out.q1 == nil || out.q2 == nil {
			t.Fatalf("Parse(%q) returned neither a query nor an error", text)
		}
		if msg := c14SameQuery(out.q1, out.q2); msg != "" {
			t.Fatalf("two parses of %q give different queries: %s", text, msg)
		}
	})
}

// ---------------------------------------------------------------------------------------------
// probes of known findings / regression cases

func c14OddIDs(n int) string {
	parts := make([]string, n)
	for i := range parts {
		parts[i] = strconv.Itoa(2*i + 1)
	}
	return strings.Join(parts, ",")
}

func TestVerifC14Fixed(t *testing.T) {
	vlib.Fixed(t, "C14", []string{c14FindingLoneQuote, c14FindingFlagSlow, c14FindingCommonFactor}, func(name string) (string, any) {
		switch name {
		case c14FindingLoneQuote:
			for _, q := range []string{`id:"`, `cport=" then tag:foo`, `(data:")`, `sort:"`} {
				out, failure := c14Run(q, false, 8*time.Second)
				if failure != "" {
					return failure, q
				}
				if out.panicVal != nil {
					return fmt.Sprintf("Parse(%q) panics: %v", q, out.panicVal), q
				}
			}
		case c14FindingCommonFactor:
			for _, q := range []string{
				"id:@id@+@id@+@id@+@cport@+@cport@",
				"cport:@sport@+@sport@+@cbytes@+@cbytes@+@cbytes@+@cbytes@",
				"sbytes:-@sbytes@-@a:id@-@a:id@",
			} {
				out, failure := c14Run(q, false, 6*time.Second)
				if failure != "" {
					return failure + "; input " + strconv.Quote(q), q
				}
				if out.panicVal != nil {
					return fmt.Sprintf("Parse(%q) panics: %v", q, out.panicVal), q
				}
				if out.err1 != nil {
					return fmt.Sprintf("Parse(%q): %v", q, out.err1), q
				}
			}
		case c14FindingFlagSlow:
			// 60 conjuncts, each carrying the protocol condition: must be prompt.
			// Measured in process CPU time so that machine load does not matter
			// (unrepaired: about 5 s, 14 s for 100 conjuncts, a minute for 200;
			// repaired: a few ms).
			q := "protocol:tcp id:" + c14OddIDs(60)
			cpu0 := c14CPU()
			out, failure := c14Run(q, false, 20*time.Second)
			cpu := c14CPU() - cpu0
			if failure != "" {
				return failure + "; input " + strconv.Quote(q), q
			}
			if out.panicVal != nil || out.err1 != nil {
				return fmt.Sprintf("Parse(%q): %v %v", q, out.panicVal, out.err1), q
			}
			if cpu > 1500*time.Millisecond {
				return fmt.Sprintf("Parse of a protocol filter and-ed with a list of 60 ids (60 conjuncts) needs %v of CPU time", cpu.Round(10*time.Millisecond)), q
			}
		}
		return "", nil
	})
}
