package query_test

// C03 — query normalisation never changes what a query means.
// EvalNF(Parse(text).Conditions, s) == EvalAST(ast, s) for generated
// expressions and abstract streams. See DESIGN.md §5 C03 and §4.3/4.4.

import (
	"errors"
	"fmt"
	"testing"

	"github.com/spq/pkappa2/internal/query"
	"github.com/spq/pkappa2/internal/verif/vlib"
	"github.com/spq/pkappa2/internal/verif/vq"
	"pgregory.net/rapid"
)

func c03Config(open map[string]bool) vq.GenConfig {
	cfg := vq.DefaultConfig()
	// coefficients > 1 on two variables hang the parser while F-C14-common-factor-loop is open
	cfg.RepeatVars = !open["F-C14-common-factor-loop"]
	// -id:: (negation of a range open on both sides) matches everything while this is open
	cfg.OpenBoth = !open["F-C03-negated-true-is-true"]
	// negating payload sequences loses disjuncts while this is open
	cfg.NoNotOverSeq = open["F-C03-prefix-ignores-inverted"]
	return cfg
}

func c03Prop(rt *rapid.T, c *vlib.Case, cfg vq.GenConfig, open map[string]bool) {
	expr := vq.GenExpr(cfg).Draw(rt, "expr")
	pos, neg := expr.DNFSize()
	text := expr.Render()
	nStreams := 24
	specs := make([]*vq.StreamSpec, nStreams)
	for i := range specs {
		specs[i] = vq.GenStreamSpec(rt, cfg)
	}
	c.Render(func() any { return map[string]any{"query": text} })
	if pos > 200 || neg > 200 {
		c.Discard("dnf>200")
		return
	}
	if open["F-C03-prefix-ignores-inverted"] && c03HasNegDataWithSameRegexSeq(expr) {
		c.Count("excluded_known", 1)
		c.Discard("known:prefix-ignores-inverted")
		return
	}
	q, err := query.Parse(text)
	if err != nil {
		rt.Fatalf("generated query %q does not parse: %v", text, err)
	}
	env := vq.Env{Ref: q.ReferenceTime}
	ops := expr.Count(func(n *vq.Node) bool { return n.Kind != vq.KAtom })
	hasNot := expr.Count(func(n *vq.Node) bool { return n.Kind == vq.KNot }) > 0
	hasThen := expr.Count(func(n *vq.Node) bool { return n.Kind == vq.KThen }) > 0
	c.LabelIf(hasNot, "has-not")
	c.LabelIf(hasThen, "has-then")
	c.LabelIf(expr.HasData(), "has-data")
	c.LabelIf(q.Conditions == nil, "reported-impossible")
	c.LabelIf(expr.Count(func(n *vq.Node) bool { return n.Kind == vq.KNot && n.Kids[0].Kind != vq.KAtom && n.Kids[0].HasData() }) > 0, "not-over-payload-group")
	for _, a := range expr.Atoms() {
		c.Label("key:" + a.Key)
	}
	seenTrue, seenFalse := false, false
	for i, sp := range specs {
		s := sp.Materialise(env.Ref, cfg.AbsTimePool)
		want, err := vq.EvalAST(expr, s, s.Runs, env)
		if err != nil {
			if errors.Is(err, vq.ErrAmbiguous) {
				c.Discard("ambiguous-then")
				return
			}
			c.Discard("reference-error")
			return
		}
		got, err := vq.EvalNF(q.Conditions, s, env)
		if err != nil {
			c.Discard("nf-error")
			return
		}
		if got != want {
			c.Render(func() any {
				return map[string]any{"query": text, "normal_form": q.Conditions.String(), "stream": s.Brief(), "as_written": want, "normal_form_accepts": got}
			})
			rt.Fatalf("query %q: as written %v, normal form %s gives %v for stream #%d %v", text, want, q.Conditions.String(), got, i, s.Brief())
		}
		if want {
			seenTrue = true
		} else {
			seenFalse = true
		}
	}
	c.Count("stream_evaluations", nStreams)
	if ops >= 3 && (hasNot || hasThen) && seenTrue && seenFalse {
		c.NonTrivial(text)
	}
}

// c03HasNegDataWithSameRegexSeq: shape of the open finding "prefix elimination
// ignores Inverted": a negated payload filter next to a sequence starting with
// the same filter. Conservative: any negated payload atom together with a THEN.
func c03HasNegDataWithSameRegexSeq(n *vq.Node) bool {
	neg := n.Count(func(x *vq.Node) bool { return x.IsNegDataAtom() }) > 0
	then := n.Count(func(x *vq.Node) bool { return x.Kind == vq.KThen }) > 0
	return neg && then
}

func TestVerifC03(t *testing.T) {
	open := vlib.OpenFindings()
	cfg := c03Config(open)
	vlib.Check(t, "C03", func(rt *rapid.T, c *vlib.Case) { c03Prop(rt, c, cfg, open) })
}

// fixed cases: reproducers of findings (open: KNOWN-FINDING probe, fixed: regression)
func TestVerifC03Fixed(t *testing.T) {
	cases := map[string][]string{
		"F-C03-prefix-ignores-inverted": {
			`-cdata:x (cdata:x then cdata:y)`,
			`-(cdata:a then cdata:b)`,
			`cdata:a then -(cdata:b then cdata:c)`,
		},
		"F-C03-negated-true-is-true":  {`-id::`, `-id:: sport:80`},
		"F-C03-true-disjunct-dropped": {`sport:81 or !(!shost:10.0.0.9,@shost@)`},
	}
	names := []string{"F-C03-prefix-ignores-inverted", "F-C03-negated-true-is-true", "F-C03-true-disjunct-dropped"}
	vlib.Fixed(t, "C03", names, func(name string) (string, any) {
		for _, text := range cases[name] {
			if msg := c03FixedOne(text); msg != "" {
				return msg, text
			}
		}
		return "", nil
	})
}

// c03FixedOne checks a hand-written query against streams enumerating all
// orders of the payload events a, b, c, x, y.
func c03FixedOne(text string) string {
	q, err := query.Parse(text)
	if err != nil {
		return fmt.Sprintf("%q does not parse: %v", text, err)
	}
	var expr *vq.Node
	at := func(key, re string) *vq.Node { return &vq.Node{Kind: vq.KAtom, Atom: &vq.Atom{Key: key, Regex: re}} }
	not := func(n *vq.Node) *vq.Node { return &vq.Node{Kind: vq.KNot, Kids: []*vq.Node{n}} }
	then := func(k ...*vq.Node) *vq.Node { return &vq.Node{Kind: vq.KThen, Kids: k} }
	and := func(k ...*vq.Node) *vq.Node { return &vq.Node{Kind: vq.KAnd, Kids: k} }
	switch text {
	case `-cdata:x (cdata:x then cdata:y)`:
		expr = and(not(at("cdata", "x")), then(at("cdata", "x"), at("cdata", "y")))
	case `-(cdata:a then cdata:b)`:
		expr = not(then(at("cdata", "a"), at("cdata", "b")))
	case `cdata:a then -(cdata:b then cdata:c)`:
		expr = then(at("cdata", "a"), not(then(at("cdata", "b"), at("cdata", "c"))))
	case `-id::`:
		expr = not(&vq.Node{Kind: vq.KAtom, Atom: &vq.Atom{Key: "id", Nums: []vq.NumItem{{Range: true}}}})
	case `-id:: sport:80`:
		expr = and(not(&vq.Node{Kind: vq.KAtom, Atom: &vq.Atom{Key: "id", Nums: []vq.NumItem{{Range: true}}}}),
			&vq.Node{Kind: vq.KAtom, Atom: &vq.Atom{Key: "sport", Nums: []vq.NumItem{{Lo: &vq.NumExpr{Const: 80}}}}})
	case `sport:81 or !(!shost:10.0.0.9,@shost@)`:
		expr = &vq.Node{Kind: vq.KOr, Kids: []*vq.Node{
			{Kind: vq.KAtom, Atom: &vq.Atom{Key: "sport", Nums: []vq.NumItem{{Lo: &vq.NumExpr{Const: 81}}}}},
			not(not(&vq.Node{Kind: vq.KAtom, Atom: &vq.Atom{Key: "shost", Hosts: []vq.HostItem{{IP: []byte{10, 0, 0, 9}}, {Var: "shost"}}}})),
		}}
	default:
		return "unknown fixed case " + text
	}
	env := vq.Env{Ref: q.ReferenceTime}
	payloads := []string{"", "a", "b", "ab", "ba", "abc", "acb", "bca", "cab", "x", "y", "xy", "yx", "abcb", "aab"}
	for _, p := range payloads {
		s := &vq.Stream{ID: 1, CPort: 1000, SPort: 80, Proto: 1, CHost: []byte{10, 0, 0, 1}, SHost: []byte{10, 0, 0, 2}, FTime: env.Ref, LTime: env.Ref}
		if p != "" {
			s.Runs = []vq.Run{{Dir: 0, Data: []byte(p)}}
		}
		want, err := vq.EvalAST(expr, s, s.Runs, env)
		if err != nil {
			return fmt.Sprintf("reference evaluator: %v", err)
		}
		got, err := vq.EvalNF(q.Conditions, s, env)
		if err != nil {
			return fmt.Sprintf("normal form evaluator: %v", err)
		}
		if got != want {
			return fmt.Sprintf("query %q, client payload %q: as written %v, normal form %s gives %v", text, p, want, q.Conditions.String(), got)
		}
	}
	return ""
}
