// Package vq (virtual package internal/verif/vq): query expressions for the
// verification harness — an AST of the query language with a renderer to
// concrete syntax, rapid generators, and two reference evaluators:
//
//	EvalAST  the meaning of the expression as written (DESIGN.md §4.4)
//	EvalNF   the meaning of a normal form (query.ConditionsSet) written from
//	         the struct comments in internal/query/conditions.go
//
// Both evaluators work on the abstract Stream type of this package and share
// the sequence primitive seqStep (plain binaryregexp search, no shortcuts).
package vq

import (
	"fmt"
	"net"
	"sort"
	"strings"
	"time"
)

type Kind int

const (
	KAtom Kind = iota
	KAnd
	KOr
	KNot
	KThen
)

// Node is an expression node.
type Node struct {
	Kind Kind
	Kids []*Node // And/Or/Then: >=2, Not: 1
	Atom *Atom
	// rendering choices
	ExplicitAnd bool // "and" keyword instead of juxtaposition
	Bang        bool // "!" instead of "-"
}

// NumVar is a variable reference of the same stream inside a number filter.
type NumVar struct {
	Name string // id cport sport cbytes sbytes
	Neg  bool
}

// NumExpr is const + sum of +-variables; nil means "open side".
type NumExpr struct {
	Const int
	Vars  []NumVar
}

// NumItem is a single value (Hi == nil && !Range) or a range lo:hi with open sides.
type NumItem struct {
	Range  bool
	Lo, Hi *NumExpr
}

// TimeExpr: a relative duration from the reference time, or an absolute dated
// time, or a variable of the same stream plus a duration.
type TimeExpr struct {
	Abs    *time.Time    // absolute (rendered "2006-01-02 150405", local zone)
	Var    string        // "", "ftime", "ltime"
	Offset time.Duration // relative to now (Var=="" && Abs==nil), or added to Var / Abs
}

type TimeItem struct {
	Range  bool
	Lo, Hi *TimeExpr
}

type HostItem struct {
	IP    net.IP // nil when Var is set; 4 or 16 bytes
	Var   string // "chost" or "shost"
	Masks []int  // /n suffixes
}

// Atom is one filter.
type Atom struct {
	Key   string // id cport sport port cbytes sbytes bytes chost shost host protocol ftime ltime time tag service mark generated data cdata sdata
	Conv  string // converter selector of data filters ("" = none given)
	Nums  []NumItem
	Times []TimeItem
	Hosts []HostItem
	Names []string // protocol names or tag names
	Regex string   // data filters
	Quote bool     // render in quoted form even when not needed
}

func (a *Atom) IsData() bool { return a.Key == "data" || a.Key == "cdata" || a.Key == "sdata" }

func (n *Node) IsDataAtom() bool { return n.Kind == KAtom && n.Atom.IsData() }

// IsNegDataAtom: -cdata:x (negation directly over a payload atom).
func (n *Node) IsNegDataAtom() bool { return n.Kind == KNot && n.Kids[0].IsDataAtom() }

// HasData reports whether the subtree contains a payload filter.
func (n *Node) HasData() bool {
	if n.Kind == KAtom {
		return n.Atom.IsData()
	}
	for _, k := range n.Kids {
		if k.HasData() {
			return true
		}
	}
	return false
}

func (n *Node) Count(pred func(*Node) bool) int {
	c := 0
	if pred(n) {
		c++
	}
	for _, k := range n.Kids {
		c += k.Count(pred)
	}
	return c
}

// Atoms lists all atoms of the expression.
func (n *Node) Atoms() []*Atom {
	if n.Kind == KAtom {
		return []*Atom{n.Atom}
	}
	var out []*Atom
	for _, k := range n.Kids {
		out = append(out, k.Atoms()...)
	}
	return out
}

// ---------------------------------------------------------------------------------------------
// rendering

func (e *NumExpr) render() string {
	if e == nil {
		return ""
	}
	var sb strings.Builder
	first := true
	if e.Const != 0 || len(e.Vars) == 0 {
		fmt.Fprintf(&sb, "%d", e.Const)
		first = false
	}
	for _, v := range e.Vars {
		if v.Neg {
			sb.WriteString("-")
		} else if !first {
			sb.WriteString("+")
		}
		sb.WriteString("@" + v.Name + "@")
		first = false
	}
	return sb.String()
}

func renderDuration(d time.Duration) string {
	// the duration lexer wants digits+unit groups, sign handled by the caller
	if d < 0 {
		d = -d
	}
	if d == 0 {
		return "0s"
	}
	var sb strings.Builder
	if h := d / time.Hour; h > 0 {
		fmt.Fprintf(&sb, "%dh", h)
		d -= h * time.Hour
	}
	if m := d / time.Minute; m > 0 {
		fmt.Fprintf(&sb, "%dm", m)
		d -= m * time.Minute
	}
	if s := d / time.Second; s > 0 {
		fmt.Fprintf(&sb, "%ds", s)
		d -= s * time.Second
	}
	if ms := d / time.Millisecond; ms > 0 {
		fmt.Fprintf(&sb, "%dms", ms)
		d -= ms * time.Millisecond
	}
	if us := d / time.Microsecond; us > 0 {
		fmt.Fprintf(&sb, "%dus", us)
		d -= us * time.Microsecond
	}
	if d > 0 {
		fmt.Fprintf(&sb, "%dns", d)
	}
	return sb.String()
}

func (e *TimeExpr) render() string {
	if e == nil {
		return ""
	}
	sign := func(d time.Duration, lead bool) string {
		if d < 0 {
			return "-"
		}
		if lead {
			return "+" // a leading + is accepted by the operator rule
		}
		return "+"
	}
	switch {
	case e.Abs != nil:
		s := e.Abs.Format("2006-01-02 150405")
		if e.Offset != 0 {
			s += sign(e.Offset, false) + renderDuration(e.Offset)
		}
		return s
	case e.Var != "":
		s := "@" + e.Var + "@"
		if e.Offset != 0 {
			s += sign(e.Offset, false) + renderDuration(e.Offset)
		}
		return s
	default:
		if e.Offset < 0 {
			return "-" + renderDuration(e.Offset)
		}
		return "+" + renderDuration(e.Offset)
	}
}

func (a *Atom) value() string {
	var parts []string
	switch a.Key {
	case "id", "cport", "sport", "port", "cbytes", "sbytes", "bytes":
		for _, it := range a.Nums {
			if it.Range {
				parts = append(parts, it.Lo.render()+":"+it.Hi.render())
			} else {
				parts = append(parts, it.Lo.render())
			}
		}
	case "ftime", "ltime", "time":
		for _, it := range a.Times {
			if it.Range {
				parts = append(parts, it.Lo.render()+":"+it.Hi.render())
			} else {
				parts = append(parts, it.Lo.render())
			}
		}
	case "chost", "shost", "host":
		for _, h := range a.Hosts {
			s := ""
			if h.Var != "" {
				s = "@" + h.Var + "@"
			} else {
				s = h.IP.String()
			}
			for _, m := range h.Masks {
				s += fmt.Sprintf("/%d", m)
			}
			parts = append(parts, s)
		}
	case "protocol", "tag", "service", "mark", "generated":
		parts = a.Names
	default:
		return a.Regex
	}
	return strings.Join(parts, ",")
}

func needsQuote(v string) bool {
	if v == "" {
		return true
	}
	for i := 0; i < len(v); i++ {
		switch v[i] {
		case ' ', '\t', '\n', '\r', '"', '\\', '(', ')':
			return true
		}
	}
	return false
}

// Render returns the filter in concrete syntax.
func (a *Atom) Render() string {
	v := a.value()
	key := a.Key
	if a.Conv != "" {
		key += "." + a.Conv
	}
	if a.Quote || needsQuote(v) {
		return key + `:"` + strings.ReplaceAll(v, `"`, `""`) + `"`
	}
	return key + ":" + v
}

// Render returns the expression in concrete syntax. Parentheses are always
// emitted around compound operands, so precedence never matters.
func (n *Node) Render() string {
	switch n.Kind {
	case KAtom:
		return n.Atom.Render()
	case KNot:
		op := "-"
		if n.Bang {
			op = "!"
		}
		k := n.Kids[0]
		if k.Kind == KAtom {
			return op + k.Render()
		}
		return op + "(" + k.Render() + ")"
	}
	sep := " "
	switch n.Kind {
	case KAnd:
		if n.ExplicitAnd {
			sep = " and "
		}
	case KOr:
		sep = " or "
	case KThen:
		sep = " then "
	}
	parts := make([]string, len(n.Kids))
	for i, k := range n.Kids {
		if k.Kind == KAtom || k.Kind == KNot {
			parts[i] = k.Render()
		} else {
			parts[i] = "(" + k.Render() + ")"
		}
	}
	return strings.Join(parts, sep)
}

// ---------------------------------------------------------------------------------------------
// normal form size estimate. The translator builds the DNF bottom-up and
// negates by inverting whole DNFs (not(C1|..|Cn) = product over the conjuncts
// of their negated conditions, without intermediate deduplication), so the
// number of conjuncts after a negation is about width^conjuncts. The estimate
// follows that construction: every node yields (conjuncts, max conditions per
// conjunct); DNFSize returns the largest conjunct count met at any node.

func (a *Atom) nfShape() (n, w int) {
	sides := 1
	switch a.Key {
	case "port", "bytes", "host", "data":
		sides = 2
	}
	switch a.Key {
	case "id", "cport", "sport", "port", "cbytes", "sbytes", "bytes":
		return len(a.Nums) * sides, 2
	case "ftime", "ltime", "time":
		return len(a.Times), 2
	case "chost", "shost", "host":
		return len(a.Hosts) * sides, 1
	case "protocol":
		return len(a.Names), 3
	case "tag", "service", "mark", "generated":
		return len(a.Names), 1
	}
	return sides, 1
}

const nfCap = 1 << 20

func nfClamp(x int) int {
	if x > nfCap || x < 0 {
		return nfCap
	}
	return x
}

func nfPow(base, exp int) int {
	r := 1
	for i := 0; i < exp; i++ {
		r = nfClamp(r * base)
		if r >= nfCap {
			return nfCap
		}
	}
	return r
}

func (n *Node) nfShape(max *int) (cnt, width int) {
	switch n.Kind {
	case KAtom:
		cnt, width = n.Atom.nfShape()
	case KNot:
		c, w := n.Kids[0].nfShape(max)
		if w < 1 {
			w = 1
		}
		cnt, width = nfPow(w, c), nfClamp(c*3)
		if n.Kids[0].Kind == KAtom && n.Kids[0].Atom.Key == "protocol" {
			// each negated flag condition expands to three
			cnt = nfPow(3, c)
		}
	case KOr:
		for _, k := range n.Kids {
			c, w := k.nfShape(max)
			cnt = nfClamp(cnt + c)
			if w > width {
				width = w
			}
		}
	case KAnd:
		cnt = 1
		for _, k := range n.Kids {
			c, w := k.nfShape(max)
			cnt = nfClamp(cnt * c)
			width = nfClamp(width + w)
		}
	case KThen:
		cnt, width = 1, 1
		for _, k := range n.Kids {
			c, w := k.nfShape(max)
			cnt = nfClamp(cnt * c)
			// payload conditions are cross-multiplied and sequences grow by one element per step
			width = nfClamp(width*w + 1)
		}
	}
	if cnt > *max {
		*max = cnt
	}
	return
}

// DNFSize estimates the largest number of conjuncts any intermediate normal
// form reaches while the expression is translated (second result kept for
// compatibility: the same number).
func (n *Node) DNFSize() (pos, neg int) {
	m := 0
	n.nfShape(&m)
	return m, m
}

// ---------------------------------------------------------------------------------------------
// abstract streams

// Run is one maximal piece of payload in one direction (0 = client to server).
type Run struct {
	Dir  int
	Data []byte
}

// TagState is the state of one tag for one stream.
type TagState struct {
	Matches   bool
	Uncertain bool
}

// Stream is the abstract stream both evaluators work on.
type Stream struct {
	ID             uint64
	CPort, SPort   uint16
	CBytes, SBytes uint64
	CHost, SHost   net.IP // both 4 or both 16 bytes
	Proto          uint16 // 0 other, 1 tcp, 2 udp, 3 sctp
	FTime, LTime   time.Time
	Runs           []Run            // raw payload
	Conv           map[string][]Run // cached converter outputs by converter name
	Tags           map[string]TagState
}

// Brief renders the stream for samples.
func (s *Stream) Brief() map[string]any {
	runs := []string{}
	for _, r := range s.Runs {
		runs = append(runs, fmt.Sprintf("%d:%q", r.Dir, r.Data))
	}
	tags := []string{}
	for k, v := range s.Tags {
		tags = append(tags, fmt.Sprintf("%s=%v/%v", k, v.Matches, v.Uncertain))
	}
	sort.Strings(tags)
	return map[string]any{
		"id": s.ID, "client": fmt.Sprintf("%s:%d", s.CHost, s.CPort), "server": fmt.Sprintf("%s:%d", s.SHost, s.SPort),
		"bytes": []uint64{s.CBytes, s.SBytes}, "proto": s.Proto, "ftime": s.FTime.UTC().Format(time.RFC3339Nano), "ltime": s.LTime.UTC().Format(time.RFC3339Nano),
		"runs": runs, "tags": tags,
	}
}

// Layout precomputes the per-direction concatenation and the cumulative
// per-direction sizes after each run (first entry {0,0}), the same shape the
// search engine works on.
type Layout struct {
	Buf [2][]byte
	Cum [][2]int
}

func MakeLayout(runs []Run) *Layout {
	l := &Layout{Cum: [][2]int{{0, 0}}}
	for _, r := range runs {
		if len(r.Data) == 0 {
			continue
		}
		l.Buf[r.Dir] = append(l.Buf[r.Dir], r.Data...)
		last := l.Cum[len(l.Cum)-1]
		last[r.Dir] += len(r.Data)
		l.Cum = append(l.Cum, last)
	}
	return l
}
