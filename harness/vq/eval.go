package vq

import (
	"bytes"
	"fmt"
	"strings"
	"time"

	"github.com/spq/pkappa2/internal/query"
	"rsc.io/binaryregexp"
)

// Env is the evaluation environment shared by both evaluators.
type Env struct {
	Ref time.Time // the query's reference time ("now" of relative time filters)
}

// ---------------------------------------------------------------------------------------------
// the shared sequence primitive

// Position is a pair of per-direction offsets into the stream's payload plus
// the variables captured on the way.
type Position struct {
	Off  [2]int
	Vars map[string]string
}

func (p Position) key() string {
	var sb strings.Builder
	fmt.Fprintf(&sb, "%d,%d", p.Off[0], p.Off[1])
	if len(p.Vars) != 0 {
		ks := make([]string, 0, len(p.Vars))
		for k, v := range p.Vars {
			ks = append(ks, k+"="+v)
		}
		sortStrings(ks)
		sb.WriteString("|" + strings.Join(ks, "|"))
	}
	return sb.String()
}

func sortStrings(s []string) {
	for i := 1; i < len(s); i++ {
		for j := i; j > 0 && s[j] < s[j-1]; j-- {
			s[j], s[j-1] = s[j-1], s[j]
		}
	}
}

// regex cache: compiling is the dominant cost of the reference evaluators
var reCache = map[string]*binaryregexp.Regexp{}

func compile(expr string) (*binaryregexp.Regexp, error) {
	if re, ok := reCache[expr]; ok {
		return re, nil
	}
	re, err := binaryregexp.Compile(expr)
	if err != nil {
		return nil, err
	}
	if len(reCache) > 5000 {
		reCache = map[string]*binaryregexp.Regexp{}
	}
	reCache[expr] = re
	return re, nil
}

// SplitVars splits a data filter value into the regex text with the variable
// references removed and the list of (position, name) references, exactly as
// the value grammar does: @name@ is a reference, everything else is literal
// text ("@@" stays "@@").
type VarRef struct {
	Pos  int
	Name string
}

func SplitVars(value string) (string, []VarRef) {
	var out strings.Builder
	var refs []VarRef
	for i := 0; i < len(value); {
		if value[i] == '@' {
			// try a variable token @[a-z0-9]+@ (case-insensitive), no sub-query part generated
			j := i + 1
			for j < len(value) && isVarChar(value[j]) {
				j++
			}
			if j > i+1 && j < len(value) && value[j] == '@' {
				refs = append(refs, VarRef{out.Len(), value[i+1 : j]})
				i = j + 1
				continue
			}
			if i+1 < len(value) && value[i+1] == '@' {
				out.WriteString("@@")
				i += 2
				continue
			}
		}
		out.WriteByte(value[i])
		i++
	}
	return out.String(), refs
}

func isVarChar(b byte) bool {
	return b >= 'a' && b <= 'z' || b >= 'A' && b <= 'Z' || b >= '0' && b <= '9'
}

// substitute inserts the quoted variable values (last reference first, like the engine).
func substitute(regex string, refs []VarRef, vars map[string]string) (string, error) {
	expr := regex
	for i := len(refs) - 1; i >= 0; i-- {
		v, ok := vars[refs[i].Name]
		if !ok {
			return "", fmt.Errorf("variable %q not defined", refs[i].Name)
		}
		expr = expr[:refs[i].Pos] + "(?:" + quoteBytes(v) + ")" + expr[refs[i].Pos:]
	}
	return expr, nil
}

// quoteBytes quotes a captured byte string for use inside a pattern: pattern
// text is UTF-8, so bytes >= 0x80 are written as \xHH escapes (a raw paste
// would be an invalid or a different pattern).
func quoteBytes(v string) string {
	q := binaryregexp.QuoteMeta(v)
	var sb strings.Builder
	for i := 0; i < len(q); i++ {
		if q[i] >= 0x80 {
			fmt.Fprintf(&sb, `\x%02x`, q[i])
		} else {
			sb.WriteByte(q[i])
		}
	}
	return sb.String()
}

// SeqStep searches regex (after variable substitution) in the data of direction
// dir that follows position p, by a plain leftmost search on the unshortened
// remainder. On a match the position moves to the end of the match; the other
// direction's offset moves to the amount of its data that preceded the
// direction run in which the match ended (an empty match at p moves nothing).
func SeqStep(regex string, refs []VarRef, dir int, p Position, l *Layout) (Position, bool, error) {
	expr, err := substitute(regex, refs, p.Vars)
	if err != nil {
		return p, false, err
	}
	re, err := compile(expr)
	if err != nil {
		return p, false, err
	}
	buf := l.Buf[dir][p.Off[dir]:]
	res := re.FindSubmatchIndex(buf)
	if res == nil {
		return p, false, nil
	}
	np := Position{Off: p.Off, Vars: p.Vars}
	names := re.SubexpNames()
	for i := 2; i < len(res); i += 2 {
		n := names[i/2]
		if n == "" {
			continue
		}
		if _, dup := np.Vars[n]; dup {
			return p, false, fmt.Errorf("variable %q already seen", n)
		}
		nv := make(map[string]string, len(np.Vars)+1)
		for k, v := range np.Vars {
			nv[k] = v
		}
		if res[i] >= 0 {
			nv[n] = string(buf[res[i]:res[i+1]])
		} else {
			nv[n] = ""
		}
		np.Vars = nv
	}
	if res[1] != 0 {
		np.Off[dir] += res[1]
		for i := len(l.Cum) - 1; i >= 1; i-- {
			if l.Cum[i-1][dir] < np.Off[dir] {
				np.Off[1-dir] = l.Cum[i][1-dir]
				break
			}
		}
	}
	return np, true, nil
}

// ---------------------------------------------------------------------------------------------
// EvalAST

// ErrAmbiguous is returned for expressions outside the fragment whose THEN
// meaning DESIGN.md §4.4 fixes (a negated compound group with payload filters
// evaluated from several positions or followed by THEN).
var ErrAmbiguous = fmt.Errorf("expression outside the asserted THEN fragment")

type alt struct {
	ps      []Position // positions contributed by payload filters
	touched bool
	amb     bool // contains the result of a negated compound payload group
	// negps are the positions contributed by negated payload filters (they
	// "move nothing"). The translator keeps such a filter as a live sequence
	// head for every later THEN even after a positive filter extended the
	// chain, so "-a then b then -c" also demands "no c at all". DESIGN.md 4.4
	// does not fix that reading; once such a position is no longer among ps
	// (negDropped), a later negated payload filter is not asserted.
	negps      []Position
	negDropped bool
}

type astEval struct {
	s   *Stream
	env Env
	l   *Layout
	err error
}

// sourcesFor returns the payload representations a data filter with the given
// converter selector searches.
func (s *Stream) sourcesFor(conv string) [][]Run {
	switch conv {
	case "none":
		return [][]Run{s.Runs}
	case "":
		out := [][]Run{s.Runs}
		names := make([]string, 0, len(s.Conv))
		for n := range s.Conv {
			names = append(names, n)
		}
		sortStrings(names)
		for _, n := range names {
			out = append(out, s.Conv[n])
		}
		return out
	default:
		if r, ok := s.Conv[conv]; ok {
			return [][]Run{r}
		}
		return nil
	}
}

// EvalAST evaluates the expression as written on one payload representation
// (runs). Use EvalASTStream for the common single-representation case.
func EvalAST(n *Node, s *Stream, runs []Run, env Env) (bool, error) {
	ev := &astEval{s: s, env: env, l: MakeLayout(runs)}
	alts := ev.eval(n, []Position{{}})
	if ev.err != nil {
		return false, ev.err
	}
	return len(alts) != 0, nil
}

func unionPositions(a, b []Position) []Position {
	seen := map[string]bool{}
	var out []Position
	for _, p := range append(append([]Position{}, a...), b...) {
		k := p.key()
		if !seen[k] {
			seen[k] = true
			out = append(out, p)
		}
	}
	return out
}

func (ev *astEval) eval(n *Node, in []Position) []alt {
	if ev.err != nil {
		return nil
	}
	switch n.Kind {
	case KAtom:
		a := n.Atom
		if !a.IsData() {
			if ev.atomTruth(a) {
				return []alt{{}}
			}
			return nil
		}
		var out []alt
		for _, dir := range dataDirs(a.Key) {
			regex, refs := SplitVars(a.Regex)
			ps := make([]Position, 0, len(in))
			ok := true
			for _, p := range in {
				np, m, err := SeqStep(regex, refs, dir, p, ev.l)
				if err != nil {
					ev.err = err
					return nil
				}
				if !m {
					ok = false
					break
				}
				ps = append(ps, np)
			}
			if ok {
				out = append(out, alt{ps: ps, touched: true})
			}
		}
		return out
	case KNot:
		k := n.Kids[0]
		if k.IsDataAtom() {
			a := k.Atom
			regex, refs := SplitVars(a.Regex)
			for _, dir := range dataDirs(a.Key) {
				for _, p := range in {
					_, m, err := SeqStep(regex, refs, dir, p, ev.l)
					if err != nil {
						ev.err = err
						return nil
					}
					if m {
						return nil
					}
				}
			}
			return []alt{{ps: append([]Position{}, in...), touched: true, negps: append([]Position{}, in...)}}
		}
		hasData := k.HasData()
		if hasData && len(in) > 1 {
			ev.err = ErrAmbiguous
			return nil
		}
		sub := ev.eval(k, in)
		if ev.err != nil {
			return nil
		}
		if len(sub) != 0 {
			return nil
		}
		return []alt{{amb: hasData}}
	case KOr:
		var out []alt
		for _, k := range n.Kids {
			out = append(out, ev.eval(k, in)...)
			if ev.err != nil {
				return nil
			}
		}
		return out
	case KAnd:
		cur := []alt{{}}
		for _, k := range n.Kids {
			ka := ev.eval(k, in)
			if ev.err != nil {
				return nil
			}
			var next []alt
			for _, a := range cur {
				for _, b := range ka {
					next = append(next, alt{ps: unionPositions(a.ps, b.ps), touched: a.touched || b.touched, amb: a.amb || b.amb,
						negps: unionPositions(a.negps, b.negps), negDropped: a.negDropped || b.negDropped})
				}
			}
			cur = next
			if len(cur) == 0 {
				return nil
			}
			if len(cur) > 4096 {
				ev.err = fmt.Errorf("too many alternatives")
				return nil
			}
		}
		return cur
	case KThen:
		cur := ev.eval(n.Kids[0], in)
		for _, k := range n.Kids[1:] {
			if ev.err != nil {
				return nil
			}
			var next []alt
			for _, a := range cur {
				if a.amb && k.HasData() {
					ev.err = ErrAmbiguous
					return nil
				}
				// ... and neither is a later capture/use chain: matching is leftmost without backtracking, so a
				// chain that succeeds from the later position may fail from the retained earlier one
				if a.negDropped && (k.hasNegatedData() || k.hasVars()) {
					ev.err = ErrAmbiguous
					return nil
				}
				from := in
				if a.touched {
					from = a.ps
				}
				for _, b := range ev.eval(k, from) {
					r := alt{touched: a.touched || b.touched, amb: a.amb || b.amb, negDropped: a.negDropped || b.negDropped}
					if b.touched {
						r.ps = b.ps
						r.negps = b.negps
						if !subsetPositions(a.negps, b.ps) {
							r.negDropped = true
						}
					} else {
						r.ps = a.ps
						r.negps = a.negps
					}
					next = append(next, r)
				}
				if ev.err != nil {
					return nil
				}
			}
			cur = next
			if len(cur) > 4096 {
				ev.err = fmt.Errorf("too many alternatives")
				return nil
			}
		}
		return cur
	}
	return nil
}

func subsetPositions(a, b []Position) bool {
	have := map[string]bool{}
	for _, p := range b {
		have[p.key()] = true
	}
	for _, p := range a {
		if !have[p.key()] {
			return false
		}
	}
	return true
}

// hasNegatedData reports whether the subtree contains a negation whose operand holds a payload filter.
func (n *Node) hasNegatedData() bool {
	if n.Kind == KNot && n.Kids[0].HasData() {
		return true
	}
	for _, k := range n.Kids {
		if k.hasNegatedData() {
			return true
		}
	}
	return false
}

// hasVars reports whether a payload filter of the subtree defines or uses a variable.
func (n *Node) hasVars() bool {
	if n.Kind == KAtom {
		return n.Atom.IsData() && (strings.Contains(n.Atom.Regex, "(?P<") || strings.Contains(n.Atom.Regex, "@"))
	}
	for _, k := range n.Kids {
		if k.hasVars() {
			return true
		}
	}
	return false
}

func dataDirs(key string) []int {
	switch key {
	case "cdata":
		return []int{0}
	case "sdata":
		return []int{1}
	}
	return []int{0, 1}
}

func (e *NumExpr) value(s *Stream) int64 {
	v := int64(e.Const)
	for _, x := range e.Vars {
		var n int64
		switch x.Name {
		case "id":
			n = int64(s.ID)
		case "cport":
			n = int64(s.CPort)
		case "sport":
			n = int64(s.SPort)
		case "cbytes":
			n = int64(s.CBytes)
		case "sbytes":
			n = int64(s.SBytes)
		}
		if x.Neg {
			v -= n
		} else {
			v += n
		}
	}
	return v
}

func (e *TimeExpr) value(s *Stream, env Env) time.Time {
	switch {
	case e.Abs != nil:
		return e.Abs.Add(e.Offset)
	case e.Var == "ftime":
		return s.FTime.Add(e.Offset)
	case e.Var == "ltime":
		return s.LTime.Add(e.Offset)
	}
	return env.Ref.Add(e.Offset)
}

// HostMask computes the netmask the /n suffixes denote for an address family
// (size 4 or 16): positive n toggles the first n bits, negative n the last -n.
func HostMask(masks []int, size int) []byte {
	m := make([]byte, size)
	if len(masks) == 0 {
		for i := range m {
			m[i] = 0xff
		}
		return m
	}
	bits := size * 8
	for _, n := range masks {
		if n > 0 {
			for i := 0; i < n && i < bits; i++ {
				m[i/8] ^= 1 << (7 - (i % 8))
			}
		} else if n < 0 {
			for i := bits + n; i < bits; i++ {
				if i >= 0 {
					m[i/8] ^= 1 << (7 - (i % 8))
				}
			}
		}
	}
	return m
}

func (ev *astEval) atomTruth(a *Atom) bool {
	s := ev.s
	switch a.Key {
	case "id", "cport", "sport", "port", "cbytes", "sbytes", "bytes":
		var vals []int64
		switch a.Key {
		case "id":
			vals = []int64{int64(s.ID)}
		case "cport":
			vals = []int64{int64(s.CPort)}
		case "sport":
			vals = []int64{int64(s.SPort)}
		case "port":
			vals = []int64{int64(s.CPort), int64(s.SPort)}
		case "cbytes":
			vals = []int64{int64(s.CBytes)}
		case "sbytes":
			vals = []int64{int64(s.SBytes)}
		case "bytes":
			vals = []int64{int64(s.CBytes), int64(s.SBytes)}
		}
		for _, it := range a.Nums {
			for _, v := range vals {
				if !it.Range {
					if v == it.Lo.value(s) {
						return true
					}
					continue
				}
				if it.Lo != nil && v < it.Lo.value(s) {
					continue
				}
				if it.Hi != nil && v > it.Hi.value(s) {
					continue
				}
				return true
			}
		}
		return false
	case "ftime", "ltime", "time":
		for _, it := range a.Times {
			lo, hi := it.Lo, it.Hi
			if !it.Range {
				hi = lo
			}
			// the stream's interval [first,last] (a point for ftime/ltime) must intersect [lo,hi]
			first, last := s.FTime, s.LTime
			switch a.Key {
			case "ftime":
				last = first
			case "ltime":
				first = last
			}
			if lo != nil && last.Before(lo.value(s, ev.env)) {
				continue
			}
			if hi != nil && first.After(hi.value(s, ev.env)) {
				continue
			}
			return true
		}
		return false
	case "chost", "shost", "host":
		var hs [][]byte
		switch a.Key {
		case "chost":
			hs = [][]byte{s.CHost}
		case "shost":
			hs = [][]byte{s.SHost}
		default:
			hs = [][]byte{s.CHost, s.SHost}
		}
		for _, it := range a.Hosts {
			for _, h := range hs {
				var other []byte
				if it.Var == "chost" {
					other = s.CHost
				} else if it.Var == "shost" {
					other = s.SHost
				} else {
					other = it.IP
				}
				if len(other) != len(h) {
					continue // an IPv4 filter never equals an IPv6 address and vice versa
				}
				m := HostMask(it.Masks, len(h))
				eq := true
				for i := range h {
					if (h[i]^other[i])&m[i] != 0 {
						eq = false
						break
					}
				}
				if eq {
					return true
				}
			}
		}
		return false
	case "protocol":
		for _, n := range a.Names {
			if protoValue(n) == s.Proto {
				return true
			}
		}
		return false
	case "tag", "service", "mark", "generated":
		for _, n := range a.Names {
			if s.Tags[a.Key+"/"+n].Matches {
				return true
			}
		}
		return false
	}
	return false
}

func protoValue(n string) uint16 {
	switch strings.ToLower(n) {
	case "tcp":
		return 1
	case "udp":
		return 2
	case "sctp":
		return 3
	}
	return 0
}

// ---------------------------------------------------------------------------------------------
// EvalNF

// EvalNF evaluates a normal form on the stream. tagEval, if non-nil, decides
// tag conditions (used when tag membership is itself defined by conditions);
// otherwise the stream's Tags map is used.
func EvalNF(cs query.ConditionsSet, s *Stream, env Env) (bool, error) {
	for _, c := range cs {
		ok, err := EvalConj(c, s, env)
		if err != nil {
			return false, err
		}
		if ok {
			return true, nil
		}
	}
	return false, nil
}

// EvalConj evaluates one conjunct.
func EvalConj(c query.Conditions, s *Stream, env Env) (bool, error) {
	for _, cc := range c {
		ok, err := EvalCond(cc, s, env)
		if err != nil {
			return false, err
		}
		if !ok {
			return false, nil
		}
	}
	return true, nil
}

// EvalCond evaluates one condition of a normal form (main query only: every
// SubQuery field must be "").
func EvalCond(cc query.Condition, s *Stream, env Env) (bool, error) {
	switch c := cc.(type) {
	case *query.ImpossibleCondition:
		return false, nil
	case *query.TagCondition:
		if c.SubQuery != "" {
			return false, fmt.Errorf("sub-query in tag condition")
		}
		st := s.Tags[c.TagName]
		a := c.Accept
		if st.Uncertain {
			a &= query.TagConditionAcceptUncertainMatching | query.TagConditionAcceptUncertainFailing
		} else {
			a &= query.TagConditionAcceptMatching | query.TagConditionAcceptFailing
		}
		if st.Matches {
			a &= query.TagConditionAcceptMatching | query.TagConditionAcceptUncertainMatching
		} else {
			a &= query.TagConditionAcceptFailing | query.TagConditionAcceptUncertainFailing
		}
		return a != 0, nil
	case *query.FlagCondition:
		// fulfilled when (xor of flags ^ Value) & Mask != 0
		x := uint16(0)
		for _, sq := range c.SubQueries {
			if sq != "" {
				return false, fmt.Errorf("sub-query in flag condition")
			}
			x ^= s.Proto
		}
		return (x^c.Value)&c.Mask != 0, nil
	case *query.HostCondition:
		size := len(s.CHost)
		h := make([]byte, size)
		if len(c.Host) != 0 {
			if len(c.Host) != size {
				// a host of the other family: equality is false, inequality true
				return c.Invert, nil
			}
			copy(h, c.Host)
		}
		for _, src := range c.HostConditionSources {
			if src.SubQuery != "" {
				return false, fmt.Errorf("sub-query in host condition")
			}
			o := s.CHost
			if src.Type == query.HostConditionSourceTypeServer {
				o = s.SHost
			}
			for i := range h {
				h[i] ^= o[i]
			}
		}
		m := []byte(c.Mask4)
		if size == 16 {
			m = []byte(c.Mask6)
		}
		differs := false
		for i := range h {
			if h[i]&m[i] != 0 {
				differs = true
				break
			}
		}
		return differs == c.Invert, nil
	case *query.NumberCondition:
		n := int64(c.Number)
		for _, sm := range c.Summands {
			if sm.SubQuery != "" {
				return false, fmt.Errorf("sub-query in number condition")
			}
			var v int64
			switch sm.Type {
			case query.NumberConditionSummandTypeID:
				v = int64(s.ID)
			case query.NumberConditionSummandTypeClientBytes:
				v = int64(s.CBytes)
			case query.NumberConditionSummandTypeServerBytes:
				v = int64(s.SBytes)
			case query.NumberConditionSummandTypeClientPort:
				v = int64(s.CPort)
			case query.NumberConditionSummandTypeServerPort:
				v = int64(s.SPort)
			}
			n += int64(sm.Factor) * v
		}
		return n >= 0, nil
	case *query.TimeCondition:
		d := int64(c.Duration)
		for _, sm := range c.Summands {
			if sm.SubQuery != "" {
				return false, fmt.Errorf("sub-query in time condition")
			}
			d += int64(sm.FTimeFactor) * int64(s.FTime.Sub(env.Ref))
			d += int64(sm.LTimeFactor) * int64(s.LTime.Sub(env.Ref))
		}
		return d >= 0, nil
	case *query.DataCondition:
		return evalDataCondition(c, s)
	}
	return false, fmt.Errorf("unknown condition type %T", cc)
}

// seqMatches runs the sequence on one representation and returns the number
// of elements that matched one after the other.
func seqMatches(c *query.DataCondition, runs []Run) (int, error) {
	l := MakeLayout(runs)
	p := Position{}
	for i, e := range c.Elements {
		if e.SubQuery != "" {
			return 0, fmt.Errorf("sub-query in data condition")
		}
		refs := make([]VarRef, 0, len(e.Variables))
		for _, v := range e.Variables {
			if v.SubQuery != "" {
				return 0, fmt.Errorf("sub-query variable in data condition")
			}
			refs = append(refs, VarRef{int(v.Position), v.Name})
		}
		dir := int(e.Flags & query.DataRequirementSequenceFlagsDirection)
		np, m, err := SeqStep(e.Regex, refs, dir, p, l)
		if err != nil {
			return 0, err
		}
		if !m {
			return i, nil
		}
		p = np
	}
	return len(c.Elements), nil
}

func evalDataCondition(c *query.DataCondition, s *Stream) (bool, error) {
	if len(c.Elements) == 0 {
		return true, nil
	}
	srcs := s.sourcesFor(c.Elements[0].ConverterName)
	if len(srcs) == 0 {
		// nothing to search: a lone negated filter holds, a sequence ending in a negated
		// element does not (its positive head cannot be found), as on a representation
		// that exists but lacks the head
		return c.Inverted && len(c.Elements) == 1, nil
	}
	succ, fail := 0, 0
	for _, runs := range srcs {
		n, err := seqMatches(c, runs)
		if err != nil {
			return false, err
		}
		un := len(c.Elements) - n
		if un >= 2 || (un != 0) != c.Inverted {
			fail++
		} else {
			succ++
		}
	}
	if c.Inverted {
		return fail == 0, nil
	}
	return succ > 0, nil
}

var _ = bytes.Equal
