package vq

import (
	"fmt"
	"net"
	"time"

	"pgregory.net/rapid"
)

// DataRegex is a payload expression of the generator's pool with strings it matches.
type DataRegex struct {
	Regex     string
	Witnesses []string
	Captures  string // name of the named group it defines, if any
	Uses      string // name of the variable it references, if any
}

// The pool is deliberately small: C03 is about normalisation, so the same
// expressions must meet each other often (prefix elimination, duplicates).
var DataPool = []DataRegex{
	{Regex: "aa", Witnesses: []string{"aa"}},
	{Regex: "bb", Witnesses: []string{"bb"}},
	{Regex: "cc", Witnesses: []string{"cc"}},
	{Regex: "a+b", Witnesses: []string{"aab", "ab"}},
	{Regex: "x[0-9]y", Witnesses: []string{"x5y", "x0y"}},
	{Regex: "q.*r", Witnesses: []string{"qzzr", "qr"}},
	{Regex: "dd|ee", Witnesses: []string{"dd", "ee"}},
}

var fillers = []string{"zz", "a", "b", "-", "x5", "qq"}

// GenConfig tunes the expression generator.
type GenConfig struct {
	MaxDepth     int
	Data         bool     // payload filters
	Captures     bool     // capture/use chains
	Tags         []string // full tag names "tag/a", "service/web", ...; empty = no tag filters
	Conv         []string // converter selectors to put on data filters ("" always possible)
	RepeatVars   bool     // allow the same variable several times in one number expression (coefficients > 1)
	OpenBoth     bool     // allow ranges that are open on both sides ("id::")
	Times        bool
	RelTimes     bool
	Hosts        bool
	V6           bool
	MaxList      int
	NumVars      bool
	AbsTimePool  []time.Time
	NoNotOverSeq bool // never negate a compound group that contains payload filters
}

// DefaultConfig enables everything the main query language offers (no sub-queries).
func DefaultConfig() GenConfig {
	return GenConfig{
		MaxDepth: 4, Data: true, Captures: true, Tags: []string{"tag/a", "tag/b", "service/web", "mark/m", "generated/g"},
		Conv: nil, RepeatVars: true, Times: true, RelTimes: true, Hosts: true, V6: true, MaxList: 3, NumVars: true,
		AbsTimePool: AbsPool(),
	}
}

// AbsPool returns the fixed pool of dated constants (local zone, whole seconds).
func AbsPool() []time.Time {
	return []time.Time{
		time.Date(2024, 1, 2, 13, 4, 5, 0, time.Local),
		time.Date(2024, 1, 2, 13, 5, 0, 0, time.Local),
		time.Date(2024, 6, 30, 0, 0, 0, 0, time.Local),
		time.Date(2023, 12, 31, 23, 59, 59, 0, time.Local),
	}
}

var (
	portPool  = []int{0, 1, 80, 81, 443, 1024, 8080, 65535}
	bytesPool = []int{0, 1, 2, 100, 101, 4096}
	idPool    = []int{0, 1, 2, 3, 4, 5, 7, 10}
	relPool   = []time.Duration{-2 * time.Hour, -time.Hour, -30 * time.Minute, -5 * time.Minute, -time.Second, 0, 5 * time.Minute}
	varOffs   = []time.Duration{0, time.Second, -time.Second, 5 * time.Second, -5 * time.Second, 5 * time.Minute, -5 * time.Minute, 1500 * time.Millisecond}
	v4Pool    = []string{"10.0.0.1", "10.0.0.2", "10.0.1.1", "10.1.2.3", "192.168.1.1", "0.0.0.0", "255.255.255.255"}
	v6Pool    = []string{"fd00::1", "fd00::2", "fd00:0:0:1::1", "fe80::1:2", "::1"}
	v4Masks   = []int{8, 16, 24, 31, 32, -8, -16, 0}
	v6Masks   = []int{16, 64, 127, 128, -16, -64}
)

func poolFor(key string) []int {
	switch key {
	case "id":
		return idPool
	case "cport", "sport", "port":
		return portPool
	}
	return bytesPool
}

func numVarNames() []string { return []string{"id", "cport", "sport", "cbytes", "sbytes"} }

func genNumExpr(t *rapid.T, cfg GenConfig, key string) *NumExpr {
	e := &NumExpr{Const: rapid.SampledFrom(poolFor(key)).Draw(t, "const")}
	if cfg.NumVars && rapid.IntRange(0, 3).Draw(t, "withvar") == 0 {
		n := rapid.IntRange(1, 3).Draw(t, "nvars")
		used := map[string]bool{}
		for i := 0; i < n; i++ {
			name := rapid.SampledFrom(numVarNames()).Draw(t, "var")
			if used[name] && !cfg.RepeatVars {
				continue
			}
			used[name] = true
			e.Vars = append(e.Vars, NumVar{Name: name, Neg: rapid.Bool().Draw(t, "neg")})
		}
		e.Const = rapid.SampledFrom([]int{0, 1, -1, 2, 100}).Draw(t, "smallconst")
		if len(e.Vars) != 0 && e.Vars[0].Neg && e.Const == 0 {
			// a value must not start with '-' followed by '@': "-@x@" is fine for the lexer, keep it
		}
	}
	return e
}

func genNumItem(t *rapid.T, cfg GenConfig, key string) NumItem {
	switch rapid.IntRange(0, 4).Draw(t, "numshape") {
	case 0, 1:
		return NumItem{Lo: genNumExpr(t, cfg, key)}
	case 2:
		return NumItem{Range: true, Lo: genNumExpr(t, cfg, key), Hi: genNumExpr(t, cfg, key)}
	case 3:
		return NumItem{Range: true, Lo: genNumExpr(t, cfg, key)}
	default:
		if cfg.OpenBoth && rapid.IntRange(0, 9).Draw(t, "openboth") == 0 {
			return NumItem{Range: true}
		}
		return NumItem{Range: true, Hi: genNumExpr(t, cfg, key)}
	}
}

func genTimeExpr(t *rapid.T, cfg GenConfig) *TimeExpr {
	k := rapid.IntRange(0, 5).Draw(t, "timekind")
	switch {
	case k <= 1 && cfg.RelTimes:
		return &TimeExpr{Offset: rapid.SampledFrom(relPool).Draw(t, "rel")}
	case k <= 3:
		a := rapid.SampledFrom(cfg.AbsTimePool).Draw(t, "abs")
		e := &TimeExpr{Abs: &a}
		if rapid.IntRange(0, 3).Draw(t, "absoff") == 0 {
			e.Offset = rapid.SampledFrom(varOffs).Draw(t, "off")
		}
		return e
	default:
		return &TimeExpr{Var: rapid.SampledFrom([]string{"ftime", "ltime"}).Draw(t, "tvar"), Offset: rapid.SampledFrom(varOffs).Draw(t, "off")}
	}
}

func genTimeItem(t *rapid.T, cfg GenConfig) TimeItem {
	switch rapid.IntRange(0, 4).Draw(t, "timeshape") {
	case 0:
		return TimeItem{Lo: genTimeExpr(t, cfg)}
	case 1, 2:
		return TimeItem{Range: true, Lo: genTimeExpr(t, cfg), Hi: genTimeExpr(t, cfg)}
	case 3:
		return TimeItem{Range: true, Lo: genTimeExpr(t, cfg)}
	default:
		return TimeItem{Range: true, Hi: genTimeExpr(t, cfg)}
	}
}

func genHostItem(t *rapid.T, cfg GenConfig) HostItem {
	var it HostItem
	k := rapid.IntRange(0, 5).Draw(t, "hostkind")
	v6 := false
	switch {
	case k == 0:
		it.Var = rapid.SampledFrom([]string{"chost", "shost"}).Draw(t, "hvar")
	case k <= 2 && cfg.V6:
		it.IP = net.ParseIP(rapid.SampledFrom(v6Pool).Draw(t, "v6")).To16()
		v6 = true
	default:
		it.IP = net.ParseIP(rapid.SampledFrom(v4Pool).Draw(t, "v4")).To4()
	}
	nm := rapid.SampledFrom([]int{0, 0, 1, 1, 2}).Draw(t, "nmasks")
	for i := 0; i < nm; i++ {
		if v6 {
			it.Masks = append(it.Masks, rapid.SampledFrom(v6Masks).Draw(t, "m6"))
		} else {
			it.Masks = append(it.Masks, rapid.SampledFrom(v4Masks).Draw(t, "m4"))
		}
	}
	return it
}

func genDataAtom(t *rapid.T, cfg GenConfig, regex string) *Atom {
	a := &Atom{Key: rapid.SampledFrom([]string{"cdata", "sdata", "cdata", "sdata", "data"}).Draw(t, "dkey"), Regex: regex}
	if len(cfg.Conv) != 0 {
		a.Conv = rapid.SampledFrom(cfg.Conv).Draw(t, "conv")
	}
	return a
}

// GenAtom draws one filter.
func GenAtom(t *rapid.T, cfg GenConfig) *Atom {
	// protocol filters are rare: every clean() of a conjunct holding one walks all 65536 flag values
	kinds := []string{"num", "num", "num", "num", "num", "num", "proto"}
	if cfg.Times {
		kinds = append(kinds, "time", "time", "time", "time")
	}
	if cfg.Hosts {
		kinds = append(kinds, "host", "host", "host", "host")
	}
	if len(cfg.Tags) != 0 {
		kinds = append(kinds, "tag", "tag", "tag", "tag")
	}
	if cfg.Data {
		kinds = append(kinds, "data", "data", "data", "data", "data", "data", "data", "data")
	}
	n := func() int { return rapid.IntRange(1, cfg.MaxList).Draw(t, "listlen") }
	a := &Atom{Quote: rapid.IntRange(0, 3).Draw(t, "quote") == 0}
	switch rapid.SampledFrom(kinds).Draw(t, "atomkind") {
	case "num":
		a.Key = rapid.SampledFrom([]string{"id", "cport", "sport", "port", "cbytes", "sbytes", "bytes"}).Draw(t, "numkey")
		for i, c := 0, n(); i < c; i++ {
			a.Nums = append(a.Nums, genNumItem(t, cfg, a.Key))
		}
	case "time":
		a.Key = rapid.SampledFrom([]string{"ftime", "ltime", "time"}).Draw(t, "timekey")
		for i, c := 0, n(); i < c; i++ {
			a.Times = append(a.Times, genTimeItem(t, cfg))
		}
	case "host":
		a.Key = rapid.SampledFrom([]string{"chost", "shost", "host"}).Draw(t, "hostkey")
		for i, c := 0, n(); i < c; i++ {
			a.Hosts = append(a.Hosts, genHostItem(t, cfg))
		}
	case "proto":
		a.Key = "protocol"
		for i, c := 0, n(); i < c; i++ {
			a.Names = append(a.Names, rapid.SampledFrom([]string{"tcp", "udp", "sctp", "other"}).Draw(t, "proto"))
		}
	case "tag":
		full := rapid.SampledFrom(cfg.Tags).Draw(t, "tagname")
		var typ, name string
		fmt.Sscanf(replaceSlash(full), "%s %s", &typ, &name)
		a.Key = typ
		a.Names = []string{name}
		// more names of the same type
		for _, other := range cfg.Tags {
			var t2, n2 string
			fmt.Sscanf(replaceSlash(other), "%s %s", &t2, &n2)
			if t2 == typ && n2 != name && rapid.IntRange(0, 2).Draw(t, "moretags") == 0 {
				a.Names = append(a.Names, n2)
			}
		}
	case "data":
		return genDataAtom(t, cfg, rapid.SampledFrom(DataPool).Draw(t, "regex").Regex)
	}
	return a
}

func replaceSlash(s string) string {
	b := []byte(s)
	for i := range b {
		if b[i] == '/' {
			b[i] = ' '
		}
	}
	return string(b)
}

type genCtx struct {
	cfg      GenConfig
	capCount *int
}

// GenExpr draws an expression. thenLeft tells the generator that the subtree
// will be (part of) the left operand of a THEN, where negated compound payload
// groups are not generated (their position semantics is undefined, DESIGN §4.4).
func GenExpr(cfg GenConfig) *rapid.Generator[*Node] {
	return rapid.Custom(func(t *rapid.T) *Node {
		n := 0
		g := &genCtx{cfg: cfg, capCount: &n}
		return g.gen(t, rapid.IntRange(0, cfg.MaxDepth).Draw(t, "depth"), false)
	})
}

func (g *genCtx) gen(t *rapid.T, depth int, thenLeft bool) *Node {
	if depth <= 0 {
		at := &Node{Kind: KAtom, Atom: GenAtom(t, g.cfg)}
		if rapid.IntRange(0, 4).Draw(t, "negleaf") == 0 {
			return &Node{Kind: KNot, Kids: []*Node{at}, Bang: rapid.Bool().Draw(t, "bang")}
		}
		return at
	}
	kinds := []string{"atom", "not", "and", "and", "or", "or"}
	if g.cfg.Data {
		kinds = append(kinds, "then", "then", "seq")
		if g.cfg.Captures {
			kinds = append(kinds, "cap")
		}
	}
	switch rapid.SampledFrom(kinds).Draw(t, "nodekind") {
	case "atom":
		return g.gen(t, 0, thenLeft)
	case "not":
		k := g.gen(t, depth-1, thenLeft)
		if (thenLeft || g.cfg.NoNotOverSeq) && k.Kind != KAtom && k.HasData() {
			return k
		}
		if k.Kind == KNot {
			// double negation is legal syntax ("--x" lexes as two negations)
			return &Node{Kind: KNot, Kids: []*Node{k}, Bang: true}
		}
		return &Node{Kind: KNot, Kids: []*Node{k}, Bang: rapid.Bool().Draw(t, "bang")}
	case "and", "or":
		kind := KAnd
		if rapid.SampledFrom([]string{"and", "or"}).Draw(t, "andor") == "or" {
			kind = KOr
		}
		n := rapid.IntRange(2, 3).Draw(t, "arity")
		nd := &Node{Kind: kind, ExplicitAnd: rapid.Bool().Draw(t, "explicit")}
		for i := 0; i < n; i++ {
			nd.Kids = append(nd.Kids, g.gen(t, depth-1, thenLeft))
		}
		return nd
	case "seq":
		// a long chain of plain payload filters, some without a direction or as a choice of two: every
		// chain length up to 8 meets alternatives at every position
		n := rapid.IntRange(3, 8).Draw(t, "seqlen")
		nd := &Node{Kind: KThen}
		alts := 0
		for i := 0; i < n; i++ {
			a := genDataAtom(t, g.cfg, rapid.SampledFrom(DataPool).Draw(t, "regex").Regex)
			if a.Key == "data" {
				if alts >= 3 {
					a.Key = "cdata"
				}
				alts++
			}
			k := &Node{Kind: KAtom, Atom: a}
			if alts < 3 && rapid.IntRange(0, 5).Draw(t, "choice") == 0 {
				b := genDataAtom(t, g.cfg, rapid.SampledFrom(DataPool).Draw(t, "regex").Regex)
				if b.Key == "data" {
					b.Key = "sdata"
				}
				b.Conv = a.Conv
				k = &Node{Kind: KOr, Kids: []*Node{k, {Kind: KAtom, Atom: b}}}
				alts++
			}
			nd.Kids = append(nd.Kids, k)
		}
		return nd
	case "then":
		n := rapid.IntRange(2, 4).Draw(t, "chain")
		nd := &Node{Kind: KThen}
		for i := 0; i < n; i++ {
			d := depth - 1
			if rapid.IntRange(0, 2).Draw(t, "leafelem") != 0 {
				d = 0 // most chain elements are plain filters
			}
			k := g.gen(t, d, thenLeft || i < n-1)
			if k.Kind == KAtom && !k.Atom.IsData() && rapid.IntRange(0, 1).Draw(t, "todata") == 0 {
				k = &Node{Kind: KAtom, Atom: genDataAtom(t, g.cfg, rapid.SampledFrom(DataPool).Draw(t, "regex").Regex)}
			}
			nd.Kids = append(nd.Kids, k)
		}
		return nd
	default: // capture chain: X(?P<vN>k[0-9]) then [middle then] use@vN@
		*g.capCount++
		name := fmt.Sprintf("v%d", *g.capCount)
		nd := &Node{Kind: KThen}
		capAtom := genDataAtom(t, g.cfg, "(?P<"+name+">k[0-9])")
		if capAtom.Key == "data" {
			capAtom.Key = "cdata"
		}
		nd.Kids = append(nd.Kids, &Node{Kind: KAtom, Atom: capAtom})
		if rapid.Bool().Draw(t, "middle") {
			nd.Kids = append(nd.Kids, &Node{Kind: KAtom, Atom: genDataAtom(t, g.cfg, rapid.SampledFrom(DataPool).Draw(t, "regex").Regex)})
		}
		switch rapid.SampledFrom([]string{"plain", "plain", "alt", "two"}).Draw(t, "capshape") {
		case "alt":
			// the variable inside an alternation: the other branch is shorter than any captured value
			use := genDataAtom(t, g.cfg, "(?:@"+name+"@|q)!")
			nd.Kids = append(nd.Kids, &Node{Kind: KAtom, Atom: use})
			return nd
		case "two":
			// two variables captured by the head, used by two alternatives that differ in nothing but the variable
			*g.capCount++
			name2 := fmt.Sprintf("v%d", *g.capCount)
			capAtom.Regex = "(?P<" + name + ">k[0-9])(?P<" + name2 + ">k[0-9])"
			a := genDataAtom(t, g.cfg, "@"+name+"@!")
			b := &Atom{Key: a.Key, Regex: "@" + name2 + "@!", Conv: a.Conv}
			nd.Kids = append(nd.Kids, &Node{Kind: KOr, Kids: []*Node{{Kind: KAtom, Atom: a}, {Kind: KAtom, Atom: b}}})
			return nd
		}
		use := genDataAtom(t, g.cfg, "@"+name+"@!")
		useNode := &Node{Kind: KAtom, Atom: use}
		if rapid.IntRange(0, 3).Draw(t, "neguse") == 0 {
			useNode = &Node{Kind: KNot, Kids: []*Node{useNode}}
		}
		nd.Kids = append(nd.Kids, useNode)
		return nd
	}
}

// ---------------------------------------------------------------------------------------------
// streams

// StreamSpec describes a stream relative to a reference time that is only
// known after query.Parse returned (Parse reads the wall clock).
type StreamSpec struct {
	S       Stream
	Base    int // -1: reference time, otherwise index into the absolute pool
	FOff    time.Duration
	LDelta  time.Duration
	TagBits map[string]TagState
}

// Materialise fixes the times against the reference time.
func (sp *StreamSpec) Materialise(ref time.Time, absPool []time.Time) *Stream {
	s := sp.S
	base := ref
	if sp.Base >= 0 {
		base = absPool[sp.Base]
	}
	s.FTime = base.Add(sp.FOff)
	s.LTime = s.FTime.Add(sp.LDelta)
	return &s
}

func pm(t *rapid.T, label string) int { return rapid.SampledFrom([]int{0, 0, 1, -1}).Draw(t, label) }

func clampU16(v int) uint16 {
	if v < 0 {
		return 0
	}
	if v > 65535 {
		return 65535
	}
	return uint16(v)
}

// GenRuns draws a payload as direction runs assembled from witnesses of the pool.
func GenRuns(t *rapid.T, label string) []Run {
	n := rapid.IntRange(0, 6).Draw(t, label+"nruns")
	var runs []Run
	for i := 0; i < n; i++ {
		dir := rapid.IntRange(0, 1).Draw(t, label+"dir")
		parts := rapid.IntRange(1, 3).Draw(t, label+"parts")
		var data []byte
		for j := 0; j < parts; j++ {
			switch rapid.IntRange(0, 4).Draw(t, label+"partkind") {
			case 0:
				data = append(data, rapid.SampledFrom(fillers).Draw(t, label+"filler")...)
			case 1:
				data = append(data, rapid.SampledFrom([]string{"k7", "k3", "k7!", "k3!", "k9!", "q!", "k3k7"}).Draw(t, label+"cap")...)
			default:
				w := rapid.SampledFrom(DataPool).Draw(t, label+"w").Witnesses
				data = append(data, rapid.SampledFrom(w).Draw(t, label+"wi")...)
			}
		}
		runs = append(runs, Run{Dir: dir, Data: data})
	}
	return runs
}

// GenStreamSpec draws one abstract stream whose attributes sit on and next to
// the constants the expression generator uses.
func GenStreamSpec(t *rapid.T, cfg GenConfig) *StreamSpec {
	sp := &StreamSpec{}
	s := &sp.S
	s.ID = uint64(rapid.SampledFrom(idPool).Draw(t, "sid") + rapid.SampledFrom([]int{0, 0, 1}).Draw(t, "sidd"))
	s.CPort = clampU16(rapid.SampledFrom(portPool).Draw(t, "scport") + pm(t, "d"))
	s.SPort = clampU16(rapid.SampledFrom(portPool).Draw(t, "ssport") + pm(t, "d"))
	s.Proto = uint16(rapid.SampledFrom([]int{1, 1, 2, 2, 0, 3}).Draw(t, "sproto"))
	if cfg.V6 && rapid.IntRange(0, 2).Draw(t, "sv6") == 0 {
		s.CHost = net.ParseIP(rapid.SampledFrom(v6Pool).Draw(t, "sc6")).To16()
		s.SHost = net.ParseIP(rapid.SampledFrom(v6Pool).Draw(t, "ss6")).To16()
	} else {
		s.CHost = net.ParseIP(rapid.SampledFrom(v4Pool).Draw(t, "sc4")).To4()
		s.SHost = net.ParseIP(rapid.SampledFrom(v4Pool).Draw(t, "ss4")).To4()
	}
	s.Runs = GenRuns(t, "p")
	// byte counts: either consistent with the payload or from the pool (C03 works on abstract streams)
	if rapid.Bool().Draw(t, "bytesfrompool") {
		s.CBytes = uint64(rapid.SampledFrom(bytesPool).Draw(t, "scb"))
		s.SBytes = uint64(rapid.SampledFrom(bytesPool).Draw(t, "ssb"))
	} else {
		for _, r := range s.Runs {
			if r.Dir == 0 {
				s.CBytes += uint64(len(r.Data))
			} else {
				s.SBytes += uint64(len(r.Data))
			}
		}
	}
	sp.Base = rapid.IntRange(-1, len(cfg.AbsTimePool)-1).Draw(t, "sbase")
	if !cfg.RelTimes && sp.Base < 0 {
		sp.Base = 0
	}
	sp.FOff = rapid.SampledFrom(relPool).Draw(t, "sfoff") + rapid.SampledFrom([]time.Duration{0, 0, 1, -1, time.Second, -time.Second, 5 * time.Second}).Draw(t, "sfeps")
	sp.LDelta = rapid.SampledFrom([]time.Duration{0, 1, time.Second, 5 * time.Second, 5*time.Second - 1, 5 * time.Minute, 5*time.Minute + 1, time.Hour}).Draw(t, "sldelta")
	s.Tags = map[string]TagState{}
	for _, tg := range cfg.Tags {
		s.Tags[tg] = TagState{Matches: rapid.Bool().Draw(t, "tm"), Uncertain: rapid.IntRange(0, 3).Draw(t, "tu") == 0}
	}
	return sp
}
