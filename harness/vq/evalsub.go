package vq

// evalsub.go: normal forms with sub-queries. A conjunct that mentions sub-queries holds for a stream S iff
// streams T_a, T_b, ... (one per sub-query name, taken from the given population) exist such that every
// condition of the conjunct holds when the attributes prefixed with a sub-query name are read from the stream
// bound to that name and the unprefixed ones from S. This is the meaning the web UI help and the repository's
// sub-query tests give to "@name:" filters.

import (
	"fmt"
	"sort"

	"github.com/spq/pkappa2/internal/query"
)

// ErrSubUnsupported marks shapes the reference does not evaluate (payload filters inside or across sub-queries).
var ErrSubUnsupported = fmt.Errorf("payload filter with sub-query")

func condSubQueries(cc query.Condition, add func(string)) {
	switch c := cc.(type) {
	case *query.TagCondition:
		add(c.SubQuery)
	case *query.FlagCondition:
		for _, s := range c.SubQueries {
			add(s)
		}
	case *query.HostCondition:
		for _, s := range c.HostConditionSources {
			add(s.SubQuery)
		}
	case *query.NumberCondition:
		for _, s := range c.Summands {
			add(s.SubQuery)
		}
	case *query.TimeCondition:
		for _, s := range c.Summands {
			add(s.SubQuery)
		}
	case *query.DataCondition:
		for _, e := range c.Elements {
			add(e.SubQuery)
			for _, v := range e.Variables {
				add(v.SubQuery)
			}
		}
	}
}

// HasSubQueries reports whether the normal form mentions a sub-query.
func HasSubQueries(cs query.ConditionsSet) bool {
	found := false
	for _, c := range cs {
		for _, cc := range c {
			condSubQueries(cc, func(s string) { found = found || s != "" })
		}
	}
	return found
}

func evalCondBound(cc query.Condition, bind map[string]*Stream, env Env) (bool, error) {
	switch c := cc.(type) {
	case *query.ImpossibleCondition:
		return false, nil
	case *query.TagCondition:
		cp := *c
		cp.SubQuery = ""
		return EvalCond(&cp, bind[c.SubQuery], env)
	case *query.FlagCondition:
		x := uint16(0)
		for _, sq := range c.SubQueries {
			x ^= bind[sq].Proto
		}
		return (x^c.Value)&c.Mask != 0, nil
	case *query.HostCondition:
		size := 0
		if len(c.Host) != 0 {
			size = len(c.Host)
		}
		for _, src := range c.HostConditionSources {
			n := len(bind[src.SubQuery].CHost)
			if size == 0 {
				size = n
			}
			if n != size {
				// addresses of different families: never equal
				return c.Invert, nil
			}
		}
		h := make([]byte, size)
		copy(h, c.Host)
		for _, src := range c.HostConditionSources {
			o := bind[src.SubQuery].CHost
			if src.Type == query.HostConditionSourceTypeServer {
				o = bind[src.SubQuery].SHost
			}
			for i := range h {
				h[i] ^= o[i]
			}
		}
		m := []byte(c.Mask4)
		if size == 16 {
			m = []byte(c.Mask6)
		}
		differs := false
		for i := range h {
			if h[i]&m[i] != 0 {
				differs = true
				break
			}
		}
		return differs == c.Invert, nil
	case *query.NumberCondition:
		n := int64(c.Number)
		for _, sm := range c.Summands {
			s := bind[sm.SubQuery]
			var v int64
			switch sm.Type {
			case query.NumberConditionSummandTypeID:
				v = int64(s.ID)
			case query.NumberConditionSummandTypeClientBytes:
				v = int64(s.CBytes)
			case query.NumberConditionSummandTypeServerBytes:
				v = int64(s.SBytes)
			case query.NumberConditionSummandTypeClientPort:
				v = int64(s.CPort)
			case query.NumberConditionSummandTypeServerPort:
				v = int64(s.SPort)
			}
			n += int64(sm.Factor) * v
		}
		return n >= 0, nil
	case *query.TimeCondition:
		d := int64(c.Duration)
		for _, sm := range c.Summands {
			s := bind[sm.SubQuery]
			d += int64(sm.FTimeFactor) * int64(s.FTime.Sub(env.Ref))
			d += int64(sm.LTimeFactor) * int64(s.LTime.Sub(env.Ref))
		}
		return d >= 0, nil
	case *query.DataCondition:
		// a payload filter that stays inside one stream (all elements of one sub-query, no variables of others)
		sq := ""
		for i, e := range c.Elements {
			if i == 0 {
				sq = e.SubQuery
			}
			if e.SubQuery != sq {
				return false, ErrSubUnsupported
			}
			for _, v := range e.Variables {
				if v.SubQuery != sq {
					return false, ErrSubUnsupported
				}
			}
		}
		cp := *c
		cp.Elements = make([]query.DataConditionElement, len(c.Elements))
		for i, e := range c.Elements {
			e.SubQuery = ""
			e.Variables = append([]query.DataConditionElementVariable{}, e.Variables...)
			for j := range e.Variables {
				e.Variables[j].SubQuery = ""
			}
			cp.Elements[i] = e
		}
		return evalDataCondition(&cp, bind[sq])
	}
	return false, fmt.Errorf("unknown condition type %T", cc)
}

// EvalNFSub evaluates a normal form that may mention sub-queries on the stream s; all is the population the
// sub-query streams are taken from (the visible streams).
func EvalNFSub(cs query.ConditionsSet, s *Stream, all []*Stream, env Env) (bool, error) {
	for _, c := range cs {
		seen := map[string]bool{}
		for _, cc := range c {
			condSubQueries(cc, func(n string) {
				if n != "" {
					seen[n] = true
				}
			})
		}
		names := make([]string, 0, len(seen))
		for n := range seen {
			names = append(names, n)
		}
		sort.Strings(names)
		bind := map[string]*Stream{"": s}
		var try func(i int) (bool, error)
		try = func(i int) (bool, error) {
			if i == len(names) {
				for _, cc := range c {
					ok, err := evalCondBound(cc, bind, env)
					if err != nil || !ok {
						return false, err
					}
				}
				return true, nil
			}
			for _, t := range all {
				bind[names[i]] = t
				// conditions that only involve names bound so far can prune early
				ok, err := try(i + 1)
				if err != nil || ok {
					return ok, err
				}
			}
			return false, nil
		}
		ok, err := try(0)
		if err != nil {
			return false, err
		}
		if ok {
			return true, nil
		}
	}
	return false, nil
}
