package builder

// Injected by the verification harness (never part of /repo). The driver's
// build-time rewrite (bin/conf/C08.py) replaces the first ">= 100_000" in
// builder.go by ">= verifSnapshotThreshold()", so that tests can lower the
// number of packets between two reassembly snapshots. Without the rewrite this
// file is dead code and verifSnapshotThresholdReads stays 0, which is how the
// tests notice that the rewrite was not applied.

import "sync/atomic"

var (
	verifSnapshotThresholdValue atomic.Uint64
	verifSnapshotThresholdReads atomic.Uint64
)

func init() { verifSnapshotThresholdValue.Store(100_000) }

func verifSnapshotThreshold() uint64 {
	verifSnapshotThresholdReads.Add(1)
	return verifSnapshotThresholdValue.Load()
}
