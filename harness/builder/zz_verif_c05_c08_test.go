package builder

// C05 — indexed payload equals what the endpoints exchanged on the wire.
// C08 — import result does not depend on how and when captures arrive.
// See DESIGN.md §4.2 and §5. Traffic comes from internal/verif/vtraffic, what is
// visible of the produced index files from internal/verif/vidx.
//
// The harness calls the builder exactly like manager.importPcapJob does: one
// Builder per "service run" (builder.New sees the capture directory as it is at
// start-up), FromPcap(pcapDir, filenames of the batch, all index readers so
// far, oldest first), nextStreamID += usedNewStreamIDs, created indexes appended
// to the list; a restart re-lists the index directory with tools.ListFiles and
// passes the known-pcap cache of the state file (or none) to builder.New.

import (
	"bytes"
	"encoding/json"
	"fmt"
	"log"
	"net"
	"os"
	"path/filepath"
	"sort"
	"strings"
	"testing"

	"github.com/spq/pkappa2/internal/index"
	"github.com/spq/pkappa2/internal/tools"
	"github.com/spq/pkappa2/internal/tools/bitmask"
	pcapmetadata "github.com/spq/pkappa2/internal/tools/pcapMetadata"
	"github.com/spq/pkappa2/internal/verif/vidx"
	"github.com/spq/pkappa2/internal/verif/vlib"
	"github.com/spq/pkappa2/internal/verif/vtraffic"
	"pgregory.net/rapid"
)

var vLog bytes.Buffer

func vSetup() {
	log.SetOutput(&vLog)
	log.SetFlags(0)
}

// ---------------------------------------------------------------------------------------------
// the importer under test, driven like the manager drives it

type vImporter struct {
	root, pcapDir, idxDir, snapDir string
	b                              *Builder
	readers                        []*index.Reader // oldest first
	nextID                         uint64
	created                        []string // index file names in creation order
	// statistics
	restartReordered bool
}

func vNewImporter() (*vImporter, error) {
	root, err := os.MkdirTemp("", "verif-builder-")
	if err != nil {
		return nil, err
	}
	im := &vImporter{root: root, pcapDir: filepath.Join(root, "pcap"), idxDir: filepath.Join(root, "idx"), snapDir: filepath.Join(root, "snap")}
	for _, d := range []string{im.pcapDir, im.idxDir, im.snapDir} {
		if err := os.Mkdir(d, 0o755); err != nil {
			os.RemoveAll(root)
			return nil, err
		}
	}
	return im, nil
}

func (im *vImporter) close() {
	for _, r := range im.readers {
		r.Close()
	}
	im.readers = nil
	os.RemoveAll(im.root)
}

// start creates the builder like manager.New does. With reopen the index
// readers are dropped and the index directory is listed again (service restart).
func (im *vImporter) start(reopen bool, cached bool) error {
	var cache []*pcapmetadata.PcapInfo
	if cached && im.b != nil {
		// the state file stores builder.KnownPcaps() as JSON
		raw, err := json.Marshal(im.b.KnownPcaps())
		if err != nil {
			return err
		}
		if err := json.Unmarshal(raw, &cache); err != nil {
			return err
		}
	}
	if reopen {
		for _, r := range im.readers {
			r.Close()
		}
		im.readers = nil
		names, err := tools.ListFiles(im.idxDir, "idx")
		if err != nil {
			return err
		}
		im.nextID = 0
		for i, fn := range names {
			r, err := index.NewReader(fn)
			if err != nil {
				return fmt.Errorf("index file %s written by the importer cannot be opened: %w", filepath.Base(fn), err)
			}
			im.readers = append(im.readers, r)
			if next := r.MaxStreamID() + 1; im.nextID < next {
				im.nextID = next
			}
			if i < len(im.created) && im.created[i] != fn {
				im.restartReordered = true
			}
		}
	}
	b, err := New(im.pcapDir, im.idxDir, im.snapDir, cache)
	if err != nil {
		return err
	}
	im.b = b
	return nil
}

type vImportResult struct {
	oldNext, newNext       uint64
	createdIDs             map[uint64]bool
	updated, reset, added  map[uint64]bool
	snapshotUsed           bool
	snapshotsBefore, after int
	indexFiles             int
}

func vBits(bm *bitmask.LongBitmask) map[uint64]bool {
	out := map[uint64]bool{}
	if bm == nil {
		return out
	}
	for i := 0; i < bm.Len(); i++ {
		if bm.IsSet(uint(i)) {
			out[uint64(i)] = true
		}
	}
	return out
}

// importFiles is manager.importPcapJob (plus the re-queueing of files a call did
// not process).
func (im *vImporter) importFiles(names []string) (*vImportResult, error) {
	res := &vImportResult{oldNext: im.nextID, createdIDs: map[uint64]bool{}, updated: map[uint64]bool{}, reset: map[uint64]bool{}, added: map[uint64]bool{},
		snapshotsBefore: len(im.b.snapshots)}
	for len(names) > 0 {
		vLog.Reset()
		processed, used, created, upd, rst, add, err := im.b.FromPcap(im.pcapDir, names, im.readers)
		if err != nil && strings.HasPrefix(names[0], "broken") && processed == 1 && len(created) == 0 {
			// an upload that is no capture: the manager logs the error and takes it off the queue
			names = names[1:]
			continue
		}
		if err != nil {
			return nil, fmt.Errorf("FromPcap(%q): %w", names, err)
		}
		if processed <= 0 || processed > len(names) {
			return nil, fmt.Errorf("FromPcap(%q) processed %d files", names, processed)
		}
		if strings.Contains(vLog.String(), "Using snapshot missing") {
			res.snapshotUsed = true
		}
		im.nextID += used
		for _, r := range created {
			im.readers = append(im.readers, r)
			im.created = append(im.created, r.Filename())
			for id := range r.StreamIDs() {
				res.createdIDs[id] = true
			}
			res.indexFiles++
		}
		// a batch may take several calls (an unreadable upload ends a call early): the classification is
		// relative to the state before the batch
		for id := range vBits(add) {
			res.added[id] = true
		}
		for id := range vBits(rst) {
			if !res.added[id] {
				res.reset[id] = true
				delete(res.updated, id)
			}
		}
		for id := range vBits(upd) {
			if !res.added[id] && !res.reset[id] {
				res.updated[id] = true
			}
		}
		names = names[processed:]
	}
	res.newNext = im.nextID
	res.after = len(im.b.snapshots)
	return res, nil
}

// ---------------------------------------------------------------------------------------------
// canonical visible stream set

type vStream struct {
	ID uint64
	O  *vidx.Observed
}

type vVisible struct {
	byKey map[string][]*vStream // sorted by first packet time, then ID
	byID  map[uint64]*vidx.Observed
}

func vKey(o *vidx.Observed) string {
	return vtraffic.ConnKey(o.Protocol, o.Client, o.CPort, o.Server, o.SPort)
}

func (im *vImporter) visible() (*vVisible, error) {
	obs, err := vidx.ObserveStack(im.readers, true)
	if err != nil {
		return nil, err
	}
	v := &vVisible{byKey: map[string][]*vStream{}, byID: obs}
	ids := make([]uint64, 0, len(obs))
	for id := range obs {
		ids = append(ids, id)
	}
	sort.Slice(ids, func(i, j int) bool { return ids[i] < ids[j] })
	for _, id := range ids {
		k := vKey(obs[id])
		v.byKey[k] = append(v.byKey[k], &vStream{id, obs[id]})
	}
	for _, l := range v.byKey {
		sort.SliceStable(l, func(i, j int) bool { return l[i].O.FirstUS < l[j].O.FirstUS })
	}
	return v, nil
}

func (v *vVisible) keys() []string {
	k := make([]string, 0, len(v.byKey))
	for key := range v.byKey {
		k = append(k, key)
	}
	sort.Strings(k)
	return k
}

func vClip(b []byte) string {
	if len(b) > 16 {
		return fmt.Sprintf("%x...", b[:16])
	}
	return fmt.Sprintf("%x", b)
}

func vFirstDiff(a, b []byte) int {
	n := min(len(a), len(b))
	for i := 0; i < n; i++ {
		if a[i] != b[i] {
			return i
		}
	}
	return n
}

// vDiffObserved compares everything visible of two versions of a stream except
// the ID ("the same up to stream numbering").
func vDiffObserved(got, want *vidx.Observed) string {
	g, w := *got, *want
	g.ID, w.ID = 0, 0
	return g.Diff(&w, true)
}

// vDiffVisible compares the visible stream sets of two importers.
func vDiffVisible(got, want *vVisible, skip map[string]bool) string {
	gk, wk := got.keys(), want.keys()
	for _, k := range wk {
		if len(got.byKey[k]) == 0 {
			return fmt.Sprintf("connection %s is not visible (the one-shot import shows it)", k)
		}
	}
	for _, k := range gk {
		if len(want.byKey[k]) == 0 {
			return fmt.Sprintf("connection %s is visible but the one-shot import does not show it", k)
		}
		if skip[k] {
			continue
		}
		g, w := got.byKey[k], want.byKey[k]
		if len(g) != len(w) {
			ids := []uint64{}
			for _, s := range g {
				ids = append(ids, s.ID)
			}
			return fmt.Sprintf("connection %s is visible as %d streams (ids %v), the one-shot import shows %d", k, len(g), ids, len(w))
		}
		for i := range g {
			if d := vDiffObserved(g[i].O, w[i].O); d != "" {
				return fmt.Sprintf("connection %s (stream id %d): %s (compared with a one-shot import of the same files)", k, g[i].ID, d)
			}
		}
	}
	return ""
}

// vDiffTruth compares the visible stream set with the ground truth of the
// conversations (all captures imported).
func vDiffTruth(got *vVisible, s *vtraffic.Scenario) string {
	truth := s.Truth()
	for _, k := range s.Keys() {
		t := truth[k]
		l := got.byKey[k]
		if len(l) == 0 {
			return fmt.Sprintf("conversation #%d %s is not visible", t.Conv.Index, k)
		}
		if len(l) > 1 {
			return fmt.Sprintf("conversation #%d %s is visible as %d streams (ids %d, %d, ...)", t.Conv.Index, k, len(l), l[0].ID, l[1].ID)
		}
		o := l[0].O
		pre := fmt.Sprintf("conversation #%d %s (stream id %d): ", t.Conv.Index, k, o.ID)
		switch {
		case o.Protocol != t.Proto:
			return pre + fmt.Sprintf("protocol %s, want %s", o.Protocol, t.Proto)
		case o.Client != t.Client || o.CPort != t.CPort || o.Server != t.Server || o.SPort != t.SPort:
			return pre + fmt.Sprintf("client %s:%d server %s:%d, exchanged by client %s:%d server %s:%d", o.Client, o.CPort, o.Server, o.SPort, t.Client, t.CPort, t.Server, t.SPort)
		}
		for d := 0; d < 2; d++ {
			if !bytes.Equal(o.Payload[d], t.Payload[d]) {
				at := vFirstDiff(o.Payload[d], t.Payload[d])
				return pre + fmt.Sprintf("payload of direction %d: %d bytes, exchanged %d bytes, first difference at offset %d (got %s, want %s)", d, len(o.Payload[d]), len(t.Payload[d]), at,
					vClip(o.Payload[d][at:]), vClip(t.Payload[d][at:]))
			}
		}
		if o.ClientBytes != uint64(len(t.Payload[0])) || o.ServerBytes != uint64(len(t.Payload[1])) {
			return pre + fmt.Sprintf("byte counts %d/%d, exchanged %d/%d", o.ClientBytes, o.ServerBytes, len(t.Payload[0]), len(t.Payload[1]))
		}
		want := make([]vidx.Run, 0, len(t.Runs))
		for _, r := range t.Runs {
			want = append(want, vidx.Run{Dir: r.Dir, Len: r.Len})
		}
		if fmt.Sprint(o.Runs) != fmt.Sprint(want) {
			return pre + fmt.Sprintf("order of direction changes %v, exchanged %v", o.Runs, want)
		}
	}
	for _, k := range got.keys() {
		if truth[k] == nil {
			return fmt.Sprintf("a stream %s (id %d) is visible that no conversation corresponds to", k, got.byKey[k][0].ID)
		}
	}
	return ""
}

// vOneShot imports the given captures with a fresh builder in a scratch
// directory in one FromPcap call (reference of the differential oracle).
func vOneShot(s *vtraffic.Scenario, caps []int) (*vVisible, error) {
	old := verifSnapshotThresholdValue.Load()
	verifSnapshotThresholdValue.Store(100_000)
	defer verifSnapshotThresholdValue.Store(old)
	im, err := vNewImporter()
	if err != nil {
		return nil, err
	}
	defer im.close()
	if err := im.start(false, false); err != nil {
		return nil, err
	}
	sorted := append([]int(nil), caps...)
	sort.Ints(sorted)
	var names []string
	for _, ci := range sorted {
		if err := s.WriteCapture(im.pcapDir, ci); err != nil {
			return nil, err
		}
		names = append(names, s.Captures[ci].Name)
	}
	if _, err := im.importFiles(names); err != nil {
		return nil, err
	}
	return im.visible()
}

// vHoles returns the keys of the conversations that, looking only at the given
// captures, are silent for (nearly) the importer's idle timeout between two of
// their packets: any importer has to show such a conversation as two streams
// until the missing capture arrives.
func vHoles(s *vtraffic.Scenario, caps []int) map[string]bool {
	in := map[int]bool{}
	for _, c := range caps {
		in[c] = true
	}
	out := map[string]bool{}
	for _, c := range s.Conversations {
		last := int64(-1)
		for _, p := range c.Packets() {
			if !in[p.Capture] {
				continue
			}
			if last >= 0 && p.TimeUS-last >= (5*60-2)*1000000 {
				out[c.Key()] = true
			}
			last = p.TimeUS
		}
	}
	return out
}

// vFlushSensitive returns the keys of the TCP conversations for which, looking
// only at the given captures, a payload segment waits (nearly) the importer's
// timeout or longer for earlier bytes that are in a capture not (yet) imported.
// When and whether the importer gives up waiting then depends on which other
// packets happen to trigger a flush, so such a state of an incomplete set of
// captures is not compared (lost segments are outside the well-formed domain).
func vFlushSensitive(s *vtraffic.Scenario, caps []int) map[string]bool {
	const limit = (5*60 - 2) * 1000000
	in := map[int]bool{}
	for _, c := range caps {
		in[c] = true
	}
	end := int64(0)
	for _, p := range s.Packets {
		if in[p.Capture] && p.TimeUS > end {
			end = p.TimeUS
		}
	}
	out := map[string]bool{}
	type stuck struct {
		off, n int
		t      int64
	}
	for _, c := range s.Conversations {
		if c.Proto != "TCP" {
			continue
		}
		var started [2]bool
		var prefix [2]int
		var wait [2][]stuck
		for _, p := range c.Packets() {
			if !in[p.Capture] {
				continue
			}
			if p.SYN {
				started[p.Dir] = true
			}
			if len(p.Payload) == 0 {
				continue
			}
			d := p.Dir
			if !started[d] || p.Off > prefix[d] {
				wait[d] = append(wait[d], stuck{p.Off, len(p.Payload), p.TimeUS})
				continue
			}
			if e := p.Off + len(p.Payload); e > prefix[d] {
				prefix[d] = e
			}
			for again := true; again; {
				again = false
				k := 0
				for _, w := range wait[d] {
					if w.off <= prefix[d] {
						if p.TimeUS-w.t >= limit {
							out[c.Key()] = true
						}
						if w.off+w.n > prefix[d] {
							prefix[d] = w.off + w.n
						}
						again = true
						continue
					}
					wait[d][k] = w
					k++
				}
				wait[d] = wait[d][:k]
			}
		}
		for d := 0; d < 2; d++ {
			for _, w := range wait[d] {
				if end-w.t >= limit {
					out[c.Key()] = true
				}
			}
		}
	}
	return out
}

// vSteerStaleSplit moves a plan away from the shape of the open finding "a late
// capture fills a >=5 min hole of a flow": first the same batch sizes in
// chronological order (by first packet of the capture), and if a hole is still
// filled later (capture files overlapping in time), one single import.
func vSteerStaleSplit(s *vtraffic.Scenario, plan *vPlan) bool {
	if !vHoleFilledLater(s, plan) {
		return false
	}
	sorted := append([]int(nil), plan.Arrival...)
	sort.Ints(sorted)
	plan.Arrival = sorted
	k := 0
	for bi := range plan.Batches {
		for j := range plan.Batches[bi] {
			plan.Batches[bi][j] = sorted[k]
			k++
		}
	}
	if vHoleFilledLater(s, plan) {
		plan.Batches = [][]int{sorted}
	}
	return true
}

// ---------------------------------------------------------------------------------------------
// import plans

type vPlan struct {
	Arrival  []int   `json:"arrival"`  // capture indexes in arrival order
	Batches  [][]int `json:"batches"`  // the import calls
	Restart  []bool  `json:"restart"`  // before batch i the service is restarted (builder re-created, index directory re-listed)
	Cached   []bool  `json:"cached"`   // ... with the known-pcap cache of the state file
	Interval uint64  `json:"interval"` // packets between reassembly snapshots
	Quiet    []int   `json:"quiet"`    // > 0: import call i also names a capture without packets (written during a quiet period), at position Quiet[i]-1
	Broken   []int   `json:"broken"`   // > 0: import call i also names an upload that cannot be read as a capture, at position Broken[i]-1
}

// uploads that are no captures: text, a cut file header, a file header with a cut packet record
var vBrokenUploads = [][]byte{[]byte("this is not a capture file\n"), {0xd4, 0xc3, 0xb2, 0xa1, 2, 0, 4, 0, 0, 0},
	{0xd4, 0xc3, 0xb2, 0xa1, 2, 0, 4, 0, 0, 0, 0, 0, 0, 0, 0, 0, 0, 0, 1, 0, 1, 0, 0, 0, 1, 2, 3}}

// a well-formed capture file without any packet
var vQuietCapture = []byte{0xd4, 0xc3, 0xb2, 0xa1, 2, 0, 4, 0, 0, 0, 0, 0, 0, 0, 0, 0, 0, 0, 1, 0, 1, 0, 0, 0}

func vQuiet(rt *rapid.T, s *vtraffic.Scenario, p *vPlan, steer bool) (steered int) {
	for bi, b := range p.Batches {
		q := 0
		if rapid.IntRange(0, 5).Draw(rt, "quiet capture") == 0 {
			q = 1 + rapid.IntRange(0, len(b)+1).Draw(rt, "quiet position")
		}
		p.Quiet = append(p.Quiet, q)
		br := 0
		if rapid.IntRange(0, 5).Draw(rt, "broken upload") == 0 {
			br = 1 + rapid.IntRange(0, len(b)).Draw(rt, "broken position")
		}
		// an unreadable upload between two captures ends the import call there: the captures behind it are
		// imported by a second call. While the finding is open that must not fill a hole of a flow later.
		if k := br - 1; steer && k > 0 && k < len(b) {
			eff := &vPlan{Arrival: p.Arrival}
			for bj, bb := range p.Batches {
				if bj == bi {
					eff.Batches = append(eff.Batches, bb[:k:k], bb[k:])
				} else {
					eff.Batches = append(eff.Batches, bb)
				}
			}
			if vHoleFilledLater(s, eff) {
				br = 1
				steered++
			}
		}
		p.Broken = append(p.Broken, br)
	}
	return steered
}

// vBatchNames are the file names of import call bi; the capture without packets is written on the way.
func vBatchNames(s *vtraffic.Scenario, plan *vPlan, bi int, pcapDir string) ([]string, error) {
	names := vNames(s, plan.Batches[bi])
	if bi < len(plan.Broken) && plan.Broken[bi] > 0 && os.Getenv("VERIF_C08_NOBROKEN") == "" {
		bn := fmt.Sprintf("broken%02d.pcap", bi)
		if err := os.WriteFile(filepath.Join(pcapDir, bn), vBrokenUploads[bi%len(vBrokenUploads)], 0o644); err != nil {
			return nil, err
		}
		at := min(plan.Broken[bi]-1, len(names))
		names = append(names[:at:at], append([]string{bn}, names[at:]...)...)
	}
	if bi < len(plan.Quiet) && plan.Quiet[bi] > 0 && os.Getenv("VERIF_C08_NOQUIET") == "" {
		qn := fmt.Sprintf("quiet%02d.pcap", bi)
		if err := os.WriteFile(filepath.Join(pcapDir, qn), vQuietCapture, 0o644); err != nil {
			return nil, err
		}
		at := min(plan.Quiet[bi]-1, len(names))
		names = append(names[:at:at], append([]string{qn}, names[at:]...)...)
	}
	return names, nil
}

func vSplit(rt *rapid.T, arrival []int, oneShotWeight int) [][]int {
	var batches [][]int
	cur := []int{arrival[0]}
	// of 8 equally likely modes: the first oneShotWeight all at once, three one by one, the rest generated
	// (assembled from fair bits: rapid's integer generators favour small values)
	u := 0
	for i := 0; i < 3; i++ {
		u <<= 1
		if rapid.Bool().Draw(rt, "batching") {
			u |= 1
		}
	}
	mode := u - oneShotWeight + 1 // < 1: all at once, 1..3: one by one, > 3: generated
	for _, c := range arrival[1:] {
		split := (mode >= 1 && mode <= 3) || (mode > 3 && rapid.Bool().Draw(rt, "new batch"))
		if split {
			batches = append(batches, cur)
			cur = nil
		}
		cur = append(cur, c)
	}
	return append(batches, cur)
}

func vRestarts(rt *rapid.T, p *vPlan) {
	for i := range p.Batches {
		p.Restart = append(p.Restart, i > 0 && rapid.IntRange(0, 2).Draw(rt, "restart") == 0)
		p.Cached = append(p.Cached, rapid.Bool().Draw(rt, "cached pcap infos"))
	}
}

// vDefragment makes every packet of the scenario arrive in one piece; returns how many were fragmented.
func vDefragment(s *vtraffic.Scenario) int {
	n := 0
	for _, p := range s.Packets {
		if len(p.FragCuts) > 0 {
			p.FragCuts = nil
			n++
		}
	}
	s.Fragmented = 0
	return n
}

func vNames(s *vtraffic.Scenario, caps []int) []string {
	var n []string
	for _, c := range caps {
		n = append(n, s.Captures[c].Name)
	}
	return n
}

func vTrafficLabels(c *vlib.Case, s *vtraffic.Scenario) vtraffic.Stats {
	st := s.Stats()
	c.LabelIf(st.Conversations >= 2, "conversations>=2")
	c.LabelIf(st.TCP > 0, "tcp")
	c.LabelIf(st.UDP > 0, "udp")
	c.LabelIf(st.IPv6 > 0, "ipv6")
	c.LabelIf(st.IPv6 > 0 && st.IPv6 < st.Conversations, "ipv4+ipv6")
	c.LabelIf(st.Reordered > 0, "reordered")
	c.LabelIf(st.DeepReorder > 0, "segment-captured->256-segments-late")
	c.LabelIf(s.EqualStamps > 0, "equal-timestamps-across-conversations")
	c.LabelIf(s.Unordered > 0, "capture-file-not-in-timestamp-order")
	c.LabelIf(s.Fragmented > 0, "ipv4-fragments")
	c.LabelIf(st.BucketMates > 0, "udp-flows-sharing-a-flow-table-bucket")
	c.LabelIf(st.BucketMates > 0 && st.DurationUS > 5*60*1000000, "udp-flows-sharing-a-flow-table-bucket+scenario>5min")
	c.LabelIf(st.Retransmitted > 0, "retransmitted")
	c.LabelIf(st.Resegmented > 0, "resegmented-retransmission")
	c.LabelIf(st.LateRexmit > 0, "late-retransmission")
	c.LabelIf(st.SeqWrap > 0, "seq-wrap")
	c.LabelIf(st.HalfClose > 0, "half-close")
	c.LabelIf(st.HsRexmit > 0, "handshake-retransmission")
	c.LabelIf(st.SpanningCaptures > 0, "flow-spans-captures")
	c.LabelIf(st.Interleaved > 0, "interleaved")
	c.LabelIf(st.DurationUS > 5*60*1000000, "scenario>5min")
	c.LabelIf(st.LongTCP > 0, "tcp-flow>5min")
	c.LabelIf(st.LongUDP > 0, "udp-flow>5min")
	c.LabelIf(s.Slow, "pace:slow")
	c.LabelIf(s.Overlapping, "layout:captures-overlap-in-time")
	for _, l := range s.Layout {
		c.Label("layout:sensors-" + l)
	}
	c.LabelIf(len(s.Captures) >= 2, "captures>=2")
	for _, cp := range s.Captures {
		c.LabelIf(cp.PcapNG, "pcapng")
		c.LabelIf(cp.Padding, "eth-padding")
		c.Label("linktype:" + map[string]string{"1": "ethernet", "101": "raw", "228": "ipv4", "229": "ipv6"}[fmt.Sprint(int(cp.LinkType))])
	}
	for _, cv := range s.Conversations {
		c.Label("close:" + cv.Feat.Close)
		c.LabelIf(cv.Feat.FinWithData, "fin-with-data")
		c.LabelIf(cv.Feat.NoThirdAck, "no-third-ack")
	}
	c.Count("packets", st.Packets)
	c.Count("conversations", st.Conversations)
	c.Count("payload_bytes", st.PayloadBytes)
	return st
}

// vCheckClassification checks the bookkeeping FromPcap reports to the manager.
func vCheckClassification(res *vImportResult, before, after *vVisible) string {
	sets := []struct {
		n string
		m map[uint64]bool
	}{{"updated", res.updated}, {"reset", res.reset}, {"added", res.added}}
	for i, a := range sets {
		for id := range a.m {
			for _, b := range sets[i+1:] {
				if b.m[id] {
					return fmt.Sprintf("stream %d is reported both as %s and as %s", id, a.n, b.n)
				}
			}
			if !res.createdIDs[id] {
				return fmt.Sprintf("stream %d is reported as %s but is in none of the created index files", id, a.n)
			}
		}
	}
	for id := range res.createdIDs {
		if !res.updated[id] && !res.reset[id] && !res.added[id] {
			return fmt.Sprintf("stream %d was written but is reported neither as added nor updated nor reset", id)
		}
		if id >= res.newNext {
			return fmt.Sprintf("stream id %d was written but the next stream id the manager will hand out is %d", id, res.newNext)
		}
		if res.added[id] != (id >= res.oldNext) {
			return fmt.Sprintf("stream %d: reported as added=%v, but ids below %d existed before the import", id, res.added[id], res.oldNext)
		}
	}
	if uint64(len(res.added)) != res.newNext-res.oldNext {
		return fmt.Sprintf("%d streams reported as added but %d new ids reported as used", len(res.added), res.newNext-res.oldNext)
	}
	for id := range res.updated {
		o, n := before.byID[id], after.byID[id]
		if o == nil || n == nil {
			return fmt.Sprintf("stream %d is reported as updated but was not visible before or is not visible now", id)
		}
		if o.Client != n.Client || o.Server != n.Server || o.CPort != n.CPort || o.SPort != n.SPort || o.Protocol != n.Protocol || o.FirstUS != n.FirstUS {
			return fmt.Sprintf("stream %d is reported as updated (extended) but its endpoints or first packet changed: %s:%d>%s:%d@%d -> %s:%d>%s:%d@%d", id,
				o.Client, o.CPort, o.Server, o.SPort, o.FirstUS, n.Client, n.CPort, n.Server, n.SPort, n.FirstUS)
		}
	}
	return ""
}

// ---------------------------------------------------------------------------------------------
// C05

// open findings: ids filed in known_findings.json under the property itself
// or any other property (VERIF_OPEN_FINDINGS, set by the driver) plus, for
// experiments before an entry is filed, VERIF_ASSUME_OPEN.
const (
	vFindingSeqWrap      = "F-C05-tcp-seq-wrap-disorder"
	vFindingSnapComplete = "F-C08-snapshot-forgets-closed-connection"
	vFindingStaleSplit   = "F-C08-stale-stream-after-late-capture-fills-hole"
	vFindingQuietCapture = "F-C08-capture-without-packets-at-start"
	vFindingFragDropped  = "F-C05-fragmented-datagram-dropped"
	vFindingFragDecode   = "F-C05-fragmented-datagram-decode-error"
	vFindingFragSnapshot = "F-C08-fragments-lost-in-snapshot-replay"
)

func vOpen() map[string]bool {
	open := vlib.OpenFindings()
	for _, f := range strings.Split(os.Getenv("VERIF_ASSUME_OPEN"), ",") {
		if f != "" {
			open[f] = true
		}
	}
	return open
}

func vC05Config(open map[string]bool) vtraffic.Config {
	cfg := vtraffic.DefaultConfig()
	cfg.AvoidSeqWrapDisorder = open[vFindingSeqWrap]
	return cfg
}

func vC08Config(open map[string]bool) vtraffic.Config {
	cfg := vC05Config(open)
	cfg.AvoidCutAfterSecondFin = open[vFindingSnapComplete]
	cfg.MinCaptures = 2 // arrival order and batching need at least two files
	return cfg
}

// vHoleFilledLater reports whether some conversation looks split by a hole of
// (nearly) the idle timeout after one import of the plan and no longer after a
// later one (a late capture fills the hole).
func vHoleFilledLater(s *vtraffic.Scenario, plan *vPlan) bool {
	var imported []int
	seen := map[string]bool{}
	for _, b := range plan.Batches {
		imported = append(imported, b...)
		h := vGaps(s, imported)
		for k := range seen {
			if !h[k] {
				return true
			}
		}
		for k := range h {
			seen[k] = true
		}
	}
	return false
}

// vGaps identifies every silence of (nearly) the importer's idle timeout inside a conversation, looking only at the
// given captures, by the conversation and the two packets around it: a conversation can have several, and one of
// them may be filled by a later capture while another one stays.
func vGaps(s *vtraffic.Scenario, caps []int) map[string]bool {
	in := map[int]bool{}
	for _, c := range caps {
		in[c] = true
	}
	out := map[string]bool{}
	for _, c := range s.Conversations {
		last := int64(-1)
		for _, p := range c.Packets() {
			if !in[p.Capture] {
				continue
			}
			if last >= 0 && p.TimeUS-last >= (5*60-2)*1000000 {
				out[fmt.Sprintf("%s %d-%d", c.Key(), last, p.TimeUS)] = true
			}
			last = p.TimeUS
		}
	}
	return out
}

func TestVerifC05(t *testing.T) {
	vSetup()
	open := vOpen()
	vlib.Check(t, "C05", func(rt *rapid.T, c *vlib.Case) {
		s := vtraffic.Gen(vC05Config(open)).Draw(rt, "traffic")
		c.Count("excluded_known", s.Steered)
		plan := &vPlan{Interval: 100_000}
		for i := range s.Captures {
			plan.Arrival = append(plan.Arrival, i)
		}
		plan.Batches = vSplit(rt, plan.Arrival, 2)
		if open[vFindingStaleSplit] && vSteerStaleSplit(s, plan) {
			// only possible when capture files overlap in time
			c.Count("excluded_known", 1)
		}
		vRestarts(rt, plan)
		c.Render(func() any { return map[string]any{"traffic": s.Render(), "plan": plan} })
		st := vTrafficLabels(c, s)
		c.LabelIf(len(plan.Batches) >= 2, "batches>=2")
		restarts := 0
		for _, r := range plan.Restart {
			if r {
				restarts++
			}
		}
		c.LabelIf(restarts > 0, "fresh-builder-between-batches")
		c.LabelIf(len(plan.Batches) >= 2 && restarts < len(plan.Batches)-1, "retained-builder-between-batches")

		if msg := vRunC05(s, plan, c); msg != "" {
			rt.Fatalf("%s", msg)
		}
		if st.Conversations >= 2 && st.Interleaved >= 1 && (st.Reordered+st.Retransmitted > 0 || st.SpanningCaptures > 0) {
			c.NonTrivial(s.Fingerprint() + fmt.Sprint(plan.Batches, plan.Restart))
		}
	})
}

// vRunC05 returns "" when the oracle holds. Errors of the harness itself
// (temporary directory, writing captures) are reported as failures too: they
// never happen on a healthy machine and must not be mistaken for success.
func vRunC05(s *vtraffic.Scenario, plan *vPlan, c *vlib.Case) string {
	verifSnapshotThresholdValue.Store(plan.Interval)
	im, err := vNewImporter()
	if err != nil {
		return "harness: " + err.Error()
	}
	defer im.close()
	var imported []int
	var before *vVisible = &vVisible{byKey: map[string][]*vStream{}, byID: map[uint64]*vidx.Observed{}}
	for bi, batch := range plan.Batches {
		if bi == 0 || plan.Restart[bi] {
			if err := im.start(bi > 0, plan.Cached[bi]); err != nil {
				return fmt.Sprintf("batch %d: starting the importer failed: %v", bi, err)
			}
		}
		for _, ci := range batch {
			if err := s.WriteCapture(im.pcapDir, ci); err != nil {
				return "harness: " + err.Error()
			}
		}
		res, err := im.importFiles(vNames(s, batch))
		if err != nil {
			return fmt.Sprintf("batch %d: %v", bi, err)
		}
		imported = append(imported, batch...)
		vis, err := im.visible()
		if err != nil {
			return fmt.Sprintf("after batch %d: reading the index files failed: %v", bi, err)
		}
		if c != nil {
			c.Count("imports", 1)
			c.LabelIf(len(res.updated) > 0, "import-updated-streams")
			c.LabelIf(len(res.reset) > 0, "import-reset-streams")
			c.LabelIf(res.indexFiles > 1, "import-wrote-several-index-files")
		}
		if msg := vCheckClassification(res, before, vis); msg != "" {
			return fmt.Sprintf("after batch %d %v: %s", bi, vNames(s, batch), msg)
		}
		if bi == len(plan.Batches)-1 {
			if msg := vDiffTruth(vis, s); msg != "" {
				return fmt.Sprintf("after the last batch (%d): %s", bi, msg)
			}
		} else {
			ref, err := vOneShot(s, imported)
			if err != nil {
				return fmt.Sprintf("one-shot reference import of %v failed: %v", vNames(s, imported), err)
			}
			if msg := vDiffVisible(vis, ref, vFlushSensitive(s, imported)); msg != "" {
				return fmt.Sprintf("after batch %d %v: %s", bi, vNames(s, batch), msg)
			}
			if c != nil {
				c.Count("differential_states", 1)
			}
		}
		before = vis
	}
	if c != nil {
		c.LabelIf(im.restartReordered, "restart-lists-index-files-in-other-order")
	}
	return ""
}

func TestVerifC05Fixed(t *testing.T) {
	vSetup()
	vlib.Fixed(t, "C05", vC05FixedNames, vFixedCase)
}

// ---------------------------------------------------------------------------------------------
// C08

var vIntervals = []uint64{2, 5, 5, 20, 20, 100, 100_000}

func TestVerifC08(t *testing.T) {
	vSetup()
	open := vOpen()
	vlib.Check(t, "C08", func(rt *rapid.T, c *vlib.Case) {
		s := vtraffic.Gen(vC08Config(open)).Draw(rt, "traffic")
		c.Count("excluded_known", s.Steered+s.SteeredCuts)
		plan := &vPlan{}
		n := len(s.Captures)
		all := make([]int, n)
		for i := range all {
			all[i] = i
		}
		// which captures arrive at all, and in which order
		sel := all
		if n > 1 && rapid.IntRange(0, 4).Draw(rt, "subset") == 0 {
			sel = nil
			for _, i := range all {
				if rapid.Bool().Draw(rt, "capture arrives") {
					sel = append(sel, i)
				}
			}
			if len(sel) == 0 {
				sel = []int{all[rapid.IntRange(0, n-1).Draw(rt, "only capture")]}
			}
		}
		plan.Arrival = sel
		if len(sel) > 1 && rapid.IntRange(0, 3).Draw(rt, "arrival") != 0 {
			plan.Arrival = rapid.Permutation(sel).Draw(rt, "arrival order")
		}
		plan.Batches = vSplit(rt, plan.Arrival, 1)
		if open[vFindingStaleSplit] && vSteerStaleSplit(s, plan) {
			c.Count("excluded_known", 1)
		}
		vRestarts(rt, plan)
		c.Count("excluded_known", vQuiet(rt, s, plan, open[vFindingStaleSplit]))
		plan.Interval = rapid.SampledFrom(vIntervals).Draw(rt, "snapshot interval")
		if open[vFindingFragSnapshot] && plan.Interval < 100_000 {
			// a snapshot refers to a reassembled datagram by its last fragment only: no fragments where snapshots are taken
			c.Count("excluded_known", vDefragment(s))
		}
		c.Render(func() any { return map[string]any{"traffic": s.Render(), "plan": plan} })
		vTrafficLabels(c, s)
		chrono := sort.IntsAreSorted(plan.Arrival)
		c.LabelIf(!chrono, "arrival-out-of-order")
		c.LabelIf(len(sel) < n, "subset-of-captures")
		c.LabelIf(len(plan.Batches) >= 2, "batches>=2")
		c.Labelf("interval:%d", plan.Interval)

		out := vRunC08(s, plan, c)
		if out.msg != "" {
			rt.Fatalf("%s", out.msg)
		}
		c.LabelIf(out.snapshotCreated, "snapshot-created")
		c.LabelIf(out.snapshotUsed, "snapshot-used")
		c.LabelIf(out.restarts > 0, "restart-between-batches")
		c.LabelIf(out.continued, "flow-continues-in-later-import")
		c.LabelIf(!out.rewriteActive, "snapshot-threshold-rewrite-NOT-active")
		if out.continued && (out.snapshotUsed || !chrono) {
			c.NonTrivial(s.Fingerprint() + fmt.Sprint(plan))
		}
	})
}

type vC08Outcome struct {
	msg                           string
	snapshotCreated, snapshotUsed bool
	restarts                      int
	continued                     bool
	rewriteActive                 bool
}

func vRunC08(s *vtraffic.Scenario, plan *vPlan, c *vlib.Case) (out vC08Outcome) {
	verifSnapshotThresholdValue.Store(plan.Interval)
	defer verifSnapshotThresholdValue.Store(100_000)
	reads0 := verifSnapshotThresholdReads.Load()
	defer func() { out.rewriteActive = verifSnapshotThresholdReads.Load() != reads0 }()
	im, err := vNewImporter()
	if err != nil {
		out.msg = "harness: " + err.Error()
		return
	}
	defer im.close()
	var imported []int
	before := &vVisible{byKey: map[string][]*vStream{}, byID: map[uint64]*vidx.Observed{}}
	ids := map[string]uint64{} // connection key -> the id it is known under
	batchOf := map[int]int{}
	for bi, batch := range plan.Batches {
		for _, ci := range batch {
			batchOf[ci] = bi
		}
	}
	for ci := range s.Conversations {
		seen := map[int]bool{}
		for _, cap := range s.CapturesOf(ci) {
			if b, ok := batchOf[cap]; ok {
				seen[b] = true
			}
		}
		if len(seen) >= 2 {
			out.continued = true
		}
	}
	for bi, batch := range plan.Batches {
		if bi == 0 || plan.Restart[bi] {
			if bi > 0 {
				out.restarts++
			}
			if err := im.start(bi > 0, plan.Cached[bi]); err != nil {
				out.msg = fmt.Sprintf("batch %d: starting the importer failed: %v", bi, err)
				return
			}
		}
		for _, ci := range batch {
			if err := s.WriteCapture(im.pcapDir, ci); err != nil {
				out.msg = "harness: " + err.Error()
				return
			}
		}
		names, err := vBatchNames(s, plan, bi, im.pcapDir)
		if err != nil {
			out.msg = "harness: " + err.Error()
			return
		}
		if c != nil {
			c.LabelIf(bi < len(plan.Broken) && plan.Broken[bi] > 0, "import-call-names-unreadable-upload")
			c.LabelIf(bi < len(plan.Broken) && plan.Broken[bi] > 1 && plan.Broken[bi] <= len(batch), "unreadable-upload-between-captures")
			c.LabelIf(bi < len(plan.Quiet) && plan.Quiet[bi] > 0, "import-call-names-capture-without-packets")
			c.LabelIf(bi < len(plan.Quiet) && plan.Quiet[bi] > 0 && bi < len(plan.Batches)-1 && plan.Restart[bi+1], "restart-with-capture-without-packets-in-directory")
		}
		res, err := im.importFiles(names)
		if err != nil {
			out.msg = fmt.Sprintf("batch %d: %v", bi, err)
			return
		}
		imported = append(imported, batch...)
		out.snapshotUsed = out.snapshotUsed || res.snapshotUsed
		out.snapshotCreated = out.snapshotCreated || res.after > 0
		vis, err := im.visible()
		if err != nil {
			out.msg = fmt.Sprintf("after batch %d: reading the index files failed: %v", bi, err)
			return
		}
		where := fmt.Sprintf("after import %d %v", bi, vNames(s, batch))
		if c != nil {
			c.Count("imports", 1)
			c.LabelIf(len(res.updated) > 0, "import-updated-streams")
			c.LabelIf(len(res.reset) > 0, "import-reset-streams")
			c.LabelIf(res.snapshotUsed, "import-used-snapshot")
		}
		if msg := vCheckClassification(res, before, vis); msg != "" {
			out.msg = where + ": " + msg
			return
		}
		// ids: injective, and kept
		holes := vHoles(s, imported)
		if c != nil {
			c.LabelIf(len(holes) > 0, "state-with-flow-split-by-missing-capture")
		}
		for _, k := range vis.keys() {
			l := vis.byKey[k]
			if len(l) > 1 {
				if holes[k] {
					continue // any importer shows two streams here
				}
				out.msg = fmt.Sprintf("%s: connection %s has %d visible ids (%d, %d, ...)", where, k, len(l), l[0].ID, l[1].ID)
				return
			}
			if old, ok := ids[k]; ok && old != l[0].ID {
				out.msg = fmt.Sprintf("%s: connection %s was visible as stream %d and is now stream %d", where, k, old, l[0].ID)
				return
			}
			ids[k] = l[0].ID
		}
		for k, old := range ids {
			if len(vis.byKey[k]) == 0 {
				out.msg = fmt.Sprintf("%s: connection %s (stream %d) is no longer visible", where, k, old)
				return
			}
		}
		// same as a one-shot import of the same files
		ref, err := vOneShot(s, imported)
		if err != nil {
			out.msg = fmt.Sprintf("one-shot reference import of %v failed: %v", vNames(s, imported), err)
			return
		}
		sens := vFlushSensitive(s, imported)
		if c != nil {
			c.LabelIf(len(sens) > 0, "state-with-segment-waiting>=5min-for-missing-capture(not compared)")
		}
		if msg := vDiffVisible(vis, ref, sens); msg != "" {
			out.msg = where + ": " + msg
			return
		}
		if len(imported) == len(s.Captures) {
			if msg := vDiffTruth(vis, s); msg != "" {
				out.msg = where + " (all captures imported): " + msg
				return
			}
		}
		before = vis
	}
	if c != nil {
		c.LabelIf(im.restartReordered, "restart-lists-index-files-in-other-order")
	}
	return
}

// TestVerifC08Large: real-size captures (>= 120000 packets in the scenario, so
// that the untouched literal threshold of 100000 packets creates snapshots),
// imported capture by capture in a generated order with generated restarts.
func TestVerifC08Large(t *testing.T) {
	vSetup()
	open := vOpen()
	vlib.Check(t, "C08", func(rt *rapid.T, c *vlib.Case) {
		cfg := vtraffic.LargeConfig(rapid.IntRange(150000, 300000).Draw(rt, "packets"))
		cfg.AvoidSeqWrapDisorder = open[vFindingSeqWrap]
		cfg.AvoidCutAfterSecondFin = open[vFindingSnapComplete]
		s := vtraffic.GenFromSeed(cfg).Draw(rt, "traffic")
		if open[vFindingFragSnapshot] {
			c.Count("excluded_known", vDefragment(s))
		}
		c.Count("excluded_known", s.Steered+s.SteeredCuts)
		plan := &vPlan{Interval: 100_000}
		for i := range s.Captures {
			plan.Arrival = append(plan.Arrival, i)
		}
		if len(plan.Arrival) > 1 && rapid.Bool().Draw(rt, "out of order") {
			plan.Arrival = rapid.Permutation(plan.Arrival).Draw(rt, "arrival order")
		}
		for _, a := range plan.Arrival {
			plan.Batches = append(plan.Batches, []int{a})
		}
		if open[vFindingStaleSplit] && vSteerStaleSplit(s, plan) {
			c.Count("excluded_known", 1)
		}
		vRestarts(rt, plan)
		c.Count("excluded_known", vQuiet(rt, s, plan, open[vFindingStaleSplit]))
		c.Render(func() any {
			st := s.Stats()
			caps := []string{}
			for _, cp := range s.Captures {
				caps = append(caps, fmt.Sprintf("%s: %d packets", cp.Name, len(cp.Packets)))
			}
			return map[string]any{"stats": st, "captures": caps, "plan": plan}
		})
		st := s.Stats()
		c.Count("packets", st.Packets)
		c.Count("conversations", st.Conversations)
		chrono := sort.IntsAreSorted(plan.Arrival)
		c.LabelIf(!chrono, "arrival-out-of-order")
		c.Labelf("captures:%d", len(s.Captures))
		c.LabelIf(s.Overlapping, "layout:captures-overlap-in-time")
		out := vRunC08(s, plan, c)
		if out.msg != "" {
			rt.Fatalf("%s", out.msg)
		}
		c.LabelIf(out.snapshotCreated, "snapshot-created")
		c.LabelIf(out.snapshotUsed, "snapshot-used")
		c.LabelIf(out.restarts > 0, "restart-between-batches")
		c.LabelIf(out.continued, "flow-continues-in-later-import")
		if out.continued && (out.snapshotUsed || !chrono) {
			c.NonTrivial(s.Fingerprint() + fmt.Sprint(plan))
		}
	})
}

func TestVerifC08Fixed(t *testing.T) {
	vSetup()
	vlib.Fixed(t, "C08", vC08FixedNames, vFixedCase)
}

// ---------------------------------------------------------------------------------------------
// fixed cases (probes of open findings / regression cases of repaired ones)

var vC05FixedNames = []string{vFindingSeqWrap, vFindingFragDropped, vFindingFragDecode}
var vC08FixedNames = []string{vFindingSnapComplete, vFindingStaleSplit, vFindingQuietCapture, vFindingFragSnapshot}

func vEP(ip string, port uint16) vtraffic.Endpoint {
	a := net.ParseIP(ip)
	if v4 := a.To4(); v4 != nil {
		a = v4
	}
	return vtraffic.Endpoint{IP: a, Port: port}
}

// vFixedCase runs the minimal reproducer of a finding through the same oracle
// as the generated cases; "" = the oracle holds (finding repaired).
func vFixedCase(name string) (string, any) {
	const base = int64(1600000000) * 1000000
	var s *vtraffic.Scenario
	var plan *vPlan
	c08 := false
	switch name {
	case vFindingSeqWrap:
		// the client's only payload byte has sequence number 2^32-1 and is retransmitted once
		m := vtraffic.NewManual(base)
		c := m.TCP(vEP("10.0.0.1", 40000), vEP("10.0.0.2", 80), 0xfffffffe, 1000, 1)
		c.Syn()
		c.SynAck()
		c.Ack(vtraffic.C2S)
		b := c.Flight(vtraffic.C2S, 1)
		c.Seg(vtraffic.C2S, b, 1)
		c.Rexmit(vtraffic.C2S, b, 1)
		s = m.Finish()
		plan = &vPlan{Arrival: []int{0}, Batches: [][]int{{0}}, Restart: []bool{false}, Cached: []bool{false}, Interval: 100_000}
	case vFindingSnapComplete:
		// a connection is closed by FIN/FIN in the first capture, a snapshot is taken at the
		// next packet, the final ACK of the close arrives in the second capture
		m := vtraffic.NewManual(base)
		c := m.TCP(vEP("10.0.0.1", 40000), vEP("10.0.0.2", 80), 1000, 5000, 1)
		u := m.UDP(vEP("10.0.0.1", 5353), vEP("10.0.0.2", 53), 2)
		c.Syn()
		c.SynAck()
		c.Ack(vtraffic.C2S)
		c.Fin(vtraffic.S2C)
		c.Fin(vtraffic.C2S)
		u.Datagram(vtraffic.C2S, 4)
		m.Cut()
		c.Ack(vtraffic.S2C)
		s = m.Finish()
		plan = &vPlan{Arrival: []int{0, 1}, Batches: [][]int{{0}, {1}}, Restart: []bool{false, false}, Cached: []bool{false, false}, Interval: 1}
		c08 = true
	case vFindingStaleSplit:
		// one UDP flow, datagrams 3 minutes apart in three captures; the middle capture arrives last
		m := vtraffic.NewManual(base)
		u := m.UDP(vEP("10.0.0.1", 5353), vEP("10.0.0.2", 53), 3)
		m.Gap(3 * 60 * 1000000)
		u.Datagram(vtraffic.C2S, 4)
		m.Cut()
		u.Datagram(vtraffic.S2C, 5)
		m.Cut()
		u.Datagram(vtraffic.C2S, 6)
		s = m.Finish()
		plan = &vPlan{Arrival: []int{0, 2, 1}, Batches: [][]int{{0}, {2}, {1}}, Restart: []bool{false, false, false}, Cached: []bool{false, false, false}, Interval: 100_000}
		c08 = true
	case vFindingFragDropped, vFindingFragDecode:
		// a UDP flow to port 53 whose first datagram (not DNS) arrives as two IPv4 fragments, and a TCP connection
		// with a fragmented data segment
		m := vtraffic.NewManual(base)
		u := m.UDP(vEP("10.0.0.1", 5353), vEP("10.0.0.2", 53), 3)
		c := m.TCP(vEP("10.0.0.1", 40000), vEP("10.0.0.2", 80), 1000, 5000, 1)
		u.Datagram(vtraffic.C2S, 100)
		u.Datagram(vtraffic.S2C, 60)
		c.Syn()
		c.SynAck()
		c.Ack(vtraffic.C2S)
		b := c.Flight(vtraffic.C2S, 200)
		c.Seg(vtraffic.C2S, b, 200)
		s = m.Finish()
		for _, p := range s.Packets {
			if len(p.Payload) >= 100 {
				p.FragCuts = []int{24}
			}
		}
		s.Packets[0].FragReverse = true
		plan = &vPlan{Arrival: []int{0}, Batches: [][]int{{0}}, Restart: []bool{false}, Cached: []bool{false}, Interval: 100_000}
	case vFindingFragSnapshot:
		// a UDP flow whose first datagram arrives as two fragments; a snapshot is taken right behind it; the flow
		// continues in a second capture, whose import starts from the snapshot
		m := vtraffic.NewManual(base)
		u := m.UDP(vEP("10.0.0.1", 5353), vEP("10.0.0.2", 5454), 3)
		w := m.UDP(vEP("10.0.0.3", 6000), vEP("10.0.0.2", 6001), 4)
		u.Datagram(vtraffic.C2S, 100)
		w.Datagram(vtraffic.C2S, 10)
		w.Datagram(vtraffic.S2C, 10)
		m.Cut()
		u.Datagram(vtraffic.S2C, 60)
		s = m.Finish()
		s.Packets[0].FragCuts = []int{24}
		plan = &vPlan{Arrival: []int{0, 1}, Batches: [][]int{{0}, {1}}, Restart: []bool{false, false}, Cached: []bool{false, false}, Interval: 1}
		c08 = true
	case vFindingQuietCapture:
		// one UDP flow in two captures; a capture without packets is uploaded with the first one, then the service restarts
		m := vtraffic.NewManual(base)
		u := m.UDP(vEP("10.0.0.1", 5353), vEP("10.0.0.2", 53), 3)
		u.Datagram(vtraffic.C2S, 4)
		m.Cut()
		u.Datagram(vtraffic.S2C, 5)
		s = m.Finish()
		plan = &vPlan{Arrival: []int{0, 1}, Batches: [][]int{{0}, {1}}, Restart: []bool{false, true}, Cached: []bool{false, true}, Interval: 100_000, Quiet: []int{2, 0}}
		c08 = true
	default:
		return "unknown fixed case " + name, name
	}
	rendering := map[string]any{"traffic": s.Render(), "plan": plan}
	if c08 {
		out := vRunC08(s, plan, nil)
		if out.msg == "" && plan.Interval < 100_000 && !out.rewriteActive {
			return "", rendering // threshold rewrite not applied: the reproducer cannot reach a snapshot
		}
		return out.msg, rendering
	}
	return vRunC05(s, plan, nil), rendering
}
