// convbin is the deterministic converter executable of the verification
// harness. It speaks pkappa2's converter protocol (JSON lines on stdin/stdout)
// and emits a pure function of its input: for every input chunk one output
// chunk of the same direction and time whose content is
// "<name>:" + upper(content). It appends one line per conversion to the file
// named by VERIF_CONV_LOG: "<name> <streamID> <sha256 of the input chunks>".
// A stream with "x5" somewhere in its payload is answered with one line that is
// no chunk (a converter with a stray debug print): the service gives up on it.
// A stream with "x7" in its payload makes the converter exit as soon as it reads that chunk.
package main

import (
	"bufio"
	"bytes"
	"crypto/sha256"
	"encoding/base64"
	"encoding/json"
	"fmt"
	"os"
	"path/filepath"
	"strings"
)

type chunk struct {
	Direction string
	Content   string
	Time      string
}

type meta struct {
	StreamID uint64
}

func main() {
	name := strings.TrimSuffix(filepath.Base(os.Args[0]), filepath.Ext(os.Args[0]))
	in := bufio.NewReaderSize(os.Stdin, 1<<20)
	out := bufio.NewWriter(os.Stdout)
	for {
		line, err := in.ReadBytes('\n')
		if err != nil {
			return
		}
		var m meta
		if err := json.Unmarshal(bytes.TrimSpace(line), &m); err != nil {
			fmt.Fprintf(os.Stderr, "bad metadata: %v\n", err)
			os.Exit(1)
		}
		h := sha256.New()
		bad := false
		var lines [][]byte
		for {
			line, err := in.ReadBytes('\n')
			if err != nil {
				return
			}
			line = bytes.TrimSpace(line)
			if len(line) == 0 {
				break
			}
			var c chunk
			if err := json.Unmarshal(line, &c); err != nil {
				fmt.Fprintf(os.Stderr, "bad chunk: %v\n", err)
				os.Exit(1)
			}
			raw, _ := base64.StdEncoding.DecodeString(c.Content)
			// a stream whose payload holds "x7" kills the converter on the spot, while the service may still be sending
			if bytes.Contains(raw, []byte("x7")) && os.Getenv("VERIF_CONV_NOFAIL") == "" {
				os.Exit(3)
			}
			fmt.Fprintf(h, "%s %d ", c.Direction, len(raw))
			h.Write(raw)
			o := chunk{Direction: c.Direction, Time: c.Time, Content: base64.StdEncoding.EncodeToString([]byte(name + ":" + strings.ToUpper(string(raw))))}
			b, _ := json.Marshal(o)
			lines = append(lines, b)
			// a stream whose payload holds "x5" makes the converter misbehave: it answers with a line that is no chunk
			bad = bad || bytes.Contains(raw, []byte("x5"))
		}
		if bad && os.Getenv("VERIF_CONV_NOFAIL") == "" {
			// a stray debug print in front of an otherwise complete answer
			out.WriteString("this is no chunk\n")
		}
		for _, b := range lines {
			out.Write(b)
			out.WriteByte('\n')
		}
		// the side log is written before the answer leaves: whoever has seen the answer finds the line
		if p := os.Getenv("VERIF_CONV_LOG"); p != "" {
			if f, err := os.OpenFile(p, os.O_APPEND|os.O_CREATE|os.O_WRONLY, 0o644); err == nil {
				fmt.Fprintf(f, "%s %d %x\n", name, m.StreamID, h.Sum(nil))
				f.Close()
			}
		}
		out.WriteString("\n{}\n")
		out.Flush()
	}
}
