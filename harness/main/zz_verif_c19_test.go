package main

// C19 — file endpoints stay inside the capture directory and never overwrite.
//
// Every case builds a private sandbox
//
//	root/l0/l1/l2/data/{pcap,index,state,snapshot,converters}
//
// with canary files on every level, starts a real manager + the router of
// main.go behind a loopback listener and talks to it with hand-written request
// lines over raw TCP (the request target bytes are exactly the generated ones).
// The import pipeline is wedged for the duration of the request sequence by a
// FIFO that is queued first (an import that takes long), which makes
// Status().ImportJobCount an exact, synchronously readable count of queued
// captures and keeps the manager from writing while requests are judged; at
// the end the wedge is released, the manager settles, and the imported set is
// compared with the set of successful uploads.  See DESIGN.md §5 C19.

import (
	"bufio"
	"bytes"
	"crypto/sha256"
	"encoding/binary"
	"encoding/hex"
	"fmt"
	"io"
	"io/fs"
	"log"
	"net"
	"net/http"
	"os"
	"path"
	"path/filepath"
	"regexp"
	"sort"
	"strings"
	"sync"
	"sync/atomic"
	"syscall"
	"testing"
	"time"

	"github.com/spq/pkappa2/internal/index/manager"
	"github.com/spq/pkappa2/internal/verif/vlib"
	"pgregory.net/rapid"
)

const (
	c19Wedge       = "zz-c19-wedge.pcap"
	c19OutsideMark = "C19-OUTSIDE-"
	c19InsideMark  = "C19-INSIDE-"
	c19RootMark    = "{ROOT}"
	c19DataRel     = "l0/l1/l2/data"
	c19CapRel      = c19DataRel + "/pcap"
)

// ---------------------------------------------------------------------------
// generated case

type c19Op struct {
	Kind     string `json:"kind"` // up | down | pair
	Method   string `json:"method"`
	Target   string `json:"target"` // may contain {ROOT}
	Mode     string `json:"mode,omitempty"`
	BodyKind string `json:"body_kind,omitempty"`
	Body     []byte `json:"-"`
	Body2    []byte `json:"-"`
	BodyLen  int    `json:"body_len"`
	Body2Len int    `json:"body2_len,omitempty"`
	Packets  int    `json:"packets,omitempty"`
	Packets2 int    `json:"packets2,omitempty"`
	Post     bool   `json:"post_import,omitempty"`
}

func c19Pick(rt *rapid.T, label string, weights ...int) int {
	sum := 0
	for _, w := range weights {
		sum += w
	}
	v := rapid.IntRange(0, sum-1).Draw(rt, label)
	for i, w := range weights {
		if v < w {
			return i
		}
		v -= w
	}
	return len(weights) - 1
}

var (
	c19PlainNames = []string{"a", "b", "cap1", "old", "dir", "sub", "secret", "x-1", "A", "new"}
	c19DirNames   = []string{"index", "state", "snapshot", "pcap", "data", "l2", "l1", "l0", "converters", "sub", "dir.pcap", "etc", "tmp", "upload", "api"}
	c19DotDots    = []string{"..", "..", "..", "..", "%2e%2e", "%2E%2E", ".%2e", "%2e.", "%252e%252e", "%25252e%25252e", "..%00", "%c0%ae%c0%ae", "%c0%2e", "...", "....", "..;", ". .", "%2e%2e%2f", "..%2f..", "\xc0\xae\xc0\xae", "．．"}
	c19OddSegs    = []string{".", "", "%2e", "%00", "%20", "+", "~", "*", "é", "%C3%A9", "%c3%a9", "日本", "%E6%97%A5", "\xff", "%ff", "%FF", "a%00b", "con", "a:b", "%25", "%2525", "%41", "%5c", "\\", "%5C..", "{ROOT}", "etc/passwd", "%2fetc%2fpasswd", "a.pcap", "a.pcapng", "x.pcap%2f.."}
	c19Seps       = []string{"/", "/", "/", "/", "/", "%2f", "%2F", "\\", "%5c", "%5C", "%252f", "%255c", "//", "/./", "%2f%2f", "/%2f"}
	c19GoodSuffix = []string{".pcap", ".pcap", ".pcapng"}
	c19OddSuffix  = []string{".pcap.gz", ".PCAP", ".Pcapng", "", ".pcap/", ".pcapng/", ".pcap%00.txt", ".pcap%00", "%00.pcap", ".pcap?x=y.pcap", ".pcap?", ".pcap#f", ".pcap/..", ".pcap/.", ".pcap%2f", ".pcap%2f..", ".pcap%2f..%2f..%2fsecret.pcap", ".pcap\\", ".pcap%5c..", ".pcap.", ".pcap ", ".pcapx", ".pcapngng", ".txt", ".pcap%0a", ".pcap;x", "..pcap", ".pcap/inner.pcap"}
	c19UpPrefix   = []string{"/upload", "//upload/", "/./upload/", "/upload/../upload/", "/api/download/pcap/../../../upload/", "/UPLOAD/", "http://c19.test/upload/", "/upload/%2e%2e/upload/", "/upload/./", "/%75pload/", "upload/", "/api/../upload/"}
	c19DownPrefix = []string{"/api/download/pcap", "/api/download/", "//api/download/pcap/", "/api/download/pcap/../pcap/", "http://c19.test/api/download/pcap/", "/api/download/pcap/%2e%2e/", "/api/download/pcap/./", "/API/download/pcap/", "/api/download/pcap//", "/", "/api/download/pcap/../../../"}
	c19Planted    = []string{"secret.pcap", "secret.pcap", "secret.pcap", "canary.txt", "new.pcap", "old.pcap", "secret.pcapng", "new.pcapng", "a.pcap"}
)

func c19GenTail(rt *rapid.T, prev []string) string {
	if len(prev) > 0 && rapid.IntRange(0, 3).Draw(rt, "reuse") == 0 {
		return rapid.SampledFrom(prev).Draw(rt, "prevTail")
	}
	switch c19Pick(rt, "tailShape", 38, 24, 26, 12) {
	case 0: // plain name
		return rapid.SampledFrom(c19PlainNames).Draw(rt, "name") + rapid.SampledFrom(c19GoodSuffix).Draw(rt, "suffix")
	case 1: // directed traversal towards a planted file or a fresh name outside
		ups := rapid.IntRange(1, 5).Draw(rt, "ups")
		var sb strings.Builder
		if rapid.IntRange(0, 5).Draw(rt, "lead") == 0 {
			sb.WriteString(rapid.SampledFrom([]string{"a", "sub", "dir.pcap", "old.pcap", "."}).Draw(rt, "leadSeg"))
			sb.WriteString(rapid.SampledFrom(c19Seps).Draw(rt, "sep"))
		}
		for i := 0; i < ups; i++ {
			sb.WriteString(rapid.SampledFrom(c19DotDots).Draw(rt, "dd"))
			sb.WriteString(rapid.SampledFrom(c19Seps).Draw(rt, "sep"))
		}
		if d := rapid.SampledFrom([]string{"", "", "", "index", "state", "snapshot", "pcap", "converters", "data", "l2"}).Draw(rt, "dir"); d != "" {
			sb.WriteString(d)
			sb.WriteString(rapid.SampledFrom(c19Seps).Draw(rt, "sep"))
		}
		sb.WriteString(rapid.SampledFrom(c19Planted).Draw(rt, "file"))
		return sb.String()
	case 2: // assembled from arbitrary segments
		n := rapid.IntRange(1, 4).Draw(rt, "nseg")
		var sb strings.Builder
		if rapid.IntRange(0, 7).Draw(rt, "abs") == 0 {
			sb.WriteString(rapid.SampledFrom([]string{"/", "{ROOT}/", "/{ROOT}/l0/", "%2f", "\\", "/etc/"}).Draw(rt, "absLead"))
		}
		for i := 0; i < n; i++ {
			if i > 0 {
				sb.WriteString(rapid.SampledFrom(c19Seps).Draw(rt, "sep"))
			}
			switch c19Pick(rt, "segKind", 4, 3, 3, 3) {
			case 0:
				sb.WriteString(rapid.SampledFrom(c19PlainNames).Draw(rt, "name"))
			case 1:
				sb.WriteString(rapid.SampledFrom(c19DirNames).Draw(rt, "dirName"))
			case 2:
				sb.WriteString(rapid.SampledFrom(c19DotDots).Draw(rt, "dd"))
			default:
				sb.WriteString(rapid.SampledFrom(c19OddSegs).Draw(rt, "odd"))
			}
		}
		if rapid.IntRange(0, 2).Draw(rt, "goodSuffix") != 0 {
			sb.WriteString(rapid.SampledFrom(c19GoodSuffix).Draw(rt, "suffix"))
		} else {
			sb.WriteString(rapid.SampledFrom(c19OddSuffix).Draw(rt, "oddSuffix"))
		}
		return sb.String()
	default: // plain name, odd suffix
		return rapid.SampledFrom(c19PlainNames).Draw(rt, "name") + rapid.SampledFrom(c19OddSuffix).Draw(rt, "oddSuffix")
	}
}

// c19Pcap builds a classic little-endian pcap file (Ethernet) with n small
// well-formed IPv4/UDP packets.
func c19Pcap(n int, seed []byte) []byte {
	var b bytes.Buffer
	le := binary.LittleEndian
	hdr := make([]byte, 24)
	le.PutUint32(hdr[0:], 0xa1b2c3d4)
	le.PutUint16(hdr[4:], 2)
	le.PutUint16(hdr[6:], 4)
	le.PutUint32(hdr[16:], 65535)
	le.PutUint32(hdr[20:], 1)
	b.Write(hdr)
	for i := 0; i < n; i++ {
		payload := append([]byte(fmt.Sprintf("c19 packet %d ", i)), seed...)
		udpLen := 8 + len(payload)
		ip := make([]byte, 20)
		ip[0] = 0x45
		binary.BigEndian.PutUint16(ip[2:], uint16(20+udpLen))
		binary.BigEndian.PutUint16(ip[4:], uint16(i+1))
		ip[8] = 64
		ip[9] = 17
		copy(ip[12:], []byte{10, 0, 0, 1})
		copy(ip[16:], []byte{10, 0, 0, 2})
		sum := uint32(0)
		for k := 0; k < 20; k += 2 {
			sum += uint32(binary.BigEndian.Uint16(ip[k:]))
		}
		for sum>>16 != 0 {
			sum = sum&0xffff + sum>>16
		}
		binary.BigEndian.PutUint16(ip[10:], ^uint16(sum))
		udp := make([]byte, 8)
		binary.BigEndian.PutUint16(udp[0:], uint16(40000+i))
		binary.BigEndian.PutUint16(udp[2:], 53)
		binary.BigEndian.PutUint16(udp[4:], uint16(udpLen))
		frame := append([]byte{2, 0, 0, 0, 0, 2, 2, 0, 0, 0, 0, 1, 0x08, 0x00}, ip...)
		frame = append(frame, udp...)
		frame = append(frame, payload...)
		rec := make([]byte, 16)
		le.PutUint32(rec[0:], uint32(1600000000+i))
		le.PutUint32(rec[4:], uint32(1000*i))
		le.PutUint32(rec[8:], uint32(len(frame)))
		le.PutUint32(rec[12:], uint32(len(frame)))
		b.Write(rec)
		b.Write(frame)
	}
	return b.Bytes()
}

// c19GenBody returns body, kind, number of packets (only for kind "pcap").
func c19GenBody(rt *rapid.T, label string) ([]byte, string, int) {
	seed := rapid.SliceOfN(rapid.Byte(), 0, 24).Draw(rt, label+"Seed")
	switch c19Pick(rt, label+"Kind", 55, 20, 10, 15) {
	case 0:
		n := rapid.IntRange(1, 3).Draw(rt, label+"Packets")
		return c19Pcap(n, seed), "pcap", n
	case 1:
		return append([]byte("G-garbage "), seed...), "garbage", 0
	case 2:
		return []byte{}, "empty", 0
	default:
		full := c19Pcap(2, seed)
		cut := rapid.IntRange(1, 30).Draw(rt, label+"Cut")
		return full[:len(full)-cut], "truncated", 0
	}
}

func c19GenOps(rt *rapid.T) []c19Op {
	n := rapid.IntRange(2, 10).Draw(rt, "nops")
	var ops []c19Op
	var prev []string
	for i := 0; i < n; i++ {
		op := c19Op{}
		tail := c19GenTail(rt, prev)
		prev = append(prev, tail)
		switch c19Pick(rt, "kind", 52, 30, 18) {
		case 0:
			op.Kind = "up"
		case 1:
			op.Kind = "down"
		default:
			op.Kind = "pair"
		}
		if op.Kind == "down" {
			prefix := "/api/download/pcap/"
			if rapid.IntRange(0, 6).Draw(rt, "oddPrefix") == 0 {
				prefix = rapid.SampledFrom(c19DownPrefix).Draw(rt, "prefix")
			}
			op.Target = prefix + tail
			op.Method = "GET"
			if rapid.IntRange(0, 11).Draw(rt, "oddMethod") == 0 {
				op.Method = rapid.SampledFrom([]string{"HEAD", "POST", "PUT", "DELETE"}).Draw(rt, "method")
			}
		} else {
			prefix := "/upload/"
			if rapid.IntRange(0, 7).Draw(rt, "oddPrefix") == 0 {
				prefix = rapid.SampledFrom(c19UpPrefix).Draw(rt, "prefix")
			}
			op.Target = prefix + tail
			op.Method = "POST"
			if op.Kind == "up" && rapid.IntRange(0, 13).Draw(rt, "oddMethod") == 0 {
				op.Method = rapid.SampledFrom([]string{"PUT", "GET", "HEAD", "DELETE", "PATCH"}).Draw(rt, "method")
			}
			op.Body, op.BodyKind, op.Packets = c19GenBody(rt, "body")
			op.BodyLen = len(op.Body)
			if op.Kind == "pair" {
				op.Body2, _, op.Packets2 = c19GenBody(rt, "body2")
				if bytes.Equal(op.Body, op.Body2) {
					op.Body2 = append(append([]byte{}, op.Body2...), '2')
					op.Packets2 = -1 // not a clean capture any more
				}
				op.Body2Len = len(op.Body2)
				op.Mode = "pair"
			} else {
				op.Mode = []string{"plain", "slow", "chunked", "abort"}[c19Pick(rt, "mode", 60, 20, 10, 10)]
				if (op.Mode == "abort" || op.Mode == "slow") && len(op.Body) < 2 {
					op.Mode = "plain" // nothing left to hold back
				}
			}
		}
		ops = append(ops, op)
	}
	// after the imports have run: downloads only (file route and stream route)
	np := rapid.IntRange(0, 3).Draw(rt, "npost")
	for i := 0; i < np; i++ {
		op := c19Op{Kind: "down", Method: "GET", Post: true}
		if rapid.IntRange(0, 1).Draw(rt, "postStream") == 0 {
			op.Target = fmt.Sprintf("/api/download/%d.pcap", rapid.IntRange(0, 3).Draw(rt, "stream"))
		} else {
			op.Target = "/api/download/pcap/" + c19GenTail(rt, prev)
		}
		ops = append(ops, op)
	}
	return ops
}

// ---------------------------------------------------------------------------
// target analysis (independent of net/url and chi)

// c19PathOf strips scheme://authority and the query from a request target.
func c19PathOf(target string) string {
	p := target
	if strings.HasPrefix(p, "http://") {
		p = p[len("http://"):]
		if i := strings.IndexByte(p, '/'); i >= 0 {
			p = p[i:]
		} else {
			p = "/"
		}
	}
	if i := strings.IndexByte(p, '?'); i >= 0 {
		p = p[:i]
	}
	return p
}

func c19Unescape(s string) (string, bool) {
	var b strings.Builder
	for i := 0; i < len(s); i++ {
		if s[i] != '%' {
			b.WriteByte(s[i])
			continue
		}
		if i+2 >= len(s) {
			return "", false
		}
		v, err := hex.DecodeString(s[i+1 : i+3])
		if err != nil {
			return "", false
		}
		b.WriteByte(v[0])
		i += 2
	}
	return b.String(), true
}

// c19Candidates: the names a request may legitimately be routed to: the text
// after the route prefix, as written or percent-decoded once, or the last
// element of either after dot-segment normalisation; always a single path
// element (never empty, "." or "..", never containing "/" or NUL).
func c19Candidates(target, prefix string) []string {
	p := c19PathOf(target)
	if !strings.HasPrefix(p, prefix) {
		return nil
	}
	raw := p[len(prefix):]
	var out []string
	ok := func(s string) bool {
		return s != "" && s != "." && s != ".." && !strings.ContainsRune(s, '/') && !strings.ContainsRune(s, 0)
	}
	add := func(v string) {
		if !ok(v) {
			return
		}
		for _, o := range out {
			if o == v {
				return
			}
		}
		out = append(out, v)
	}
	add(raw)
	dec, valid := c19Unescape(raw)
	if valid {
		add(dec)
	}
	// a router that normalises dot segments would route to the last element
	add(path.Base(path.Clean("/" + raw)))
	if valid {
		add(path.Base(path.Clean("/" + dec)))
	}
	return out
}

var c19PlainRe = regexp.MustCompile(`^/upload/[A-Za-z0-9_-]+\.(pcap|pcapng)$`)
var c19PlainDownRe = regexp.MustCompile(`^/api/download/pcap/[^/\\?]+$`)

// c19Shapes classifies a target; traversal reports whether it is
// traversal-shaped (anything but a plain single name under the plain prefix).
func c19Shapes(kind, target string) (labels []string, traversal bool) {
	t := strings.ToLower(target)
	prefix := "/upload/"
	if kind == "down" {
		prefix = "/api/download/pcap/"
	}
	tail := t
	if strings.HasPrefix(t, prefix) {
		tail = t[len(prefix):]
	} else {
		labels = append(labels, "odd-prefix")
		traversal = true
	}
	add := func(cond bool, l string) {
		if cond {
			labels = append(labels, l)
			traversal = true
		}
	}
	add(strings.Contains(tail, ".."), "dotdot")
	add(strings.Contains(tail, "%2e") || strings.Contains(tail, "%c0%ae") || strings.Contains(tail, "\xc0\xae") || strings.Contains(tail, "．"), "encoded-dot")
	add(strings.Contains(tail, "%252") || strings.Contains(tail, "%255") || strings.Contains(tail, "%2525"), "double-encoded")
	add(strings.Contains(tail, "/"), "slash")
	add(strings.Contains(tail, "%2f"), "encoded-slash")
	add(strings.Contains(tail, "\\") || strings.Contains(tail, "%5c"), "backslash")
	add(strings.Contains(tail, "%00"), "nul")
	add(strings.Contains(tail, c19RootMark) || strings.HasPrefix(tail, "/") || strings.HasPrefix(tail, "%2f"), "absolute")
	nonASCII := false
	for i := 0; i < len(tail); i++ {
		if tail[i] >= 0x80 {
			nonASCII = true
		}
	}
	add(nonASCII || strings.Contains(tail, "%c3") || strings.Contains(tail, "%e6") || strings.Contains(tail, "%ff"), "utf8")
	if !(strings.HasSuffix(tail, ".pcap") || strings.HasSuffix(tail, ".pcapng")) || strings.HasSuffix(target, ".PCAP") || strings.HasSuffix(target, ".Pcapng") {
		labels = append(labels, "odd-suffix")
	}
	if !traversal {
		labels = append(labels, "plain-target")
	}
	return labels, traversal
}

// ---------------------------------------------------------------------------
// sandbox

type c19Ent struct {
	Mode string // d f p l ?
	Perm fs.FileMode
	Size int64
	Sum  [32]byte
}

type c19Tree map[string]c19Ent

func c19Snap(root string) (c19Tree, error) {
	t := c19Tree{}
	err := filepath.WalkDir(root, func(p string, d fs.DirEntry, err error) error {
		if err != nil {
			if os.IsNotExist(err) {
				return nil // raced with a legitimate removal (manager replacing its state file)
			}
			return err
		}
		rel, _ := filepath.Rel(root, p)
		if rel == "." {
			return nil
		}
		info, err := os.Lstat(p)
		if err != nil {
			if os.IsNotExist(err) {
				return nil
			}
			return err
		}
		e := c19Ent{Perm: info.Mode().Perm()}
		switch {
		case info.Mode().IsDir():
			e.Mode = "d"
		case info.Mode().IsRegular():
			e.Mode = "f"
			b, err := os.ReadFile(p)
			if err != nil {
				if os.IsNotExist(err) {
					return nil
				}
				return err
			}
			e.Size = int64(len(b))
			e.Sum = sha256.Sum256(b)
		case info.Mode()&fs.ModeNamedPipe != 0:
			e.Mode = "p"
		case info.Mode()&fs.ModeSymlink != 0:
			e.Mode = "l"
		default:
			e.Mode = "?"
		}
		t[rel] = e
		return nil
	})
	return t, err
}

func c19Diff(a, b c19Tree) (added, removed, modified []string) {
	for k, eb := range b {
		ea, ok := a[k]
		if !ok {
			added = append(added, k)
		} else if ea != eb {
			modified = append(modified, k)
		}
	}
	for k := range a {
		if _, ok := b[k]; !ok {
			removed = append(removed, k)
		}
	}
	sort.Strings(added)
	sort.Strings(removed)
	sort.Strings(modified)
	return
}

// files the manager itself creates in its index/state/snapshot directories
var c19MgrFileRe = regexp.MustCompile(`^` + regexp.QuoteMeta(c19DataRel) + `/(index/[0-9_.-]+(\.m[0-9]*)*\.idx|state/[0-9_.-]+\.state\.json|snapshot/[0-9_.-]+\.snap)$`)

type c19Sandbox struct {
	root, data, capDir string
	mgr                *manager.Manager
	srv                *http.Server
	addr               string
	tree               c19Tree
	jobs               int // expected Status().ImportJobCount
	arrived            atomic.Int64
	recvDone           chan struct{}
	wedged             bool
	closed             bool
}

// c19Harness reports a harness-internal error: the process exits without a
// report, which the driver classifies as inconclusive (exit 2), never as a violation.
func c19Harness(msg string) {
	fmt.Fprintln(os.Stderr, "C19 HARNESS ERROR: "+msg)
	os.Exit(3)
}

func c19MustWrite(path, content string) {
	if err := os.WriteFile(path, []byte(content), 0o644); err != nil {
		c19Harness(fmt.Sprintf("%v", err))
	}
}

var c19Once sync.Once

func c19NewSandbox() *c19Sandbox {
	c19Once.Do(func() { log.SetOutput(io.Discard) })
	root, err := os.MkdirTemp("", "c19-")
	if err != nil {
		c19Harness(fmt.Sprintf("%v", err))
	}
	sb := &c19Sandbox{root: root, data: filepath.Join(root, c19DataRel)}
	sb.capDir = filepath.Join(sb.data, "pcap")
	for _, d := range []string{"pcap", "index", "state", "snapshot", "converters", "pcap/sub", "pcap/dir.pcap"} {
		if err := os.MkdirAll(filepath.Join(sb.data, d), 0o755); err != nil {
			c19Harness(fmt.Sprintf("%v", err))
		}
	}
	i := 0
	for _, d := range []string{"", "l0", "l0/l1", "l0/l1/l2", c19DataRel, c19DataRel + "/index", c19DataRel + "/state", c19DataRel + "/snapshot"} {
		for _, f := range []string{"secret.pcap", "secret.pcapng", "canary.txt"} {
			i++
			c19MustWrite(filepath.Join(root, d, f), fmt.Sprintf("%s%02d-%s-%s", c19OutsideMark, i, strings.ReplaceAll(d, "/", "_"), f))
		}
	}
	c19MustWrite(filepath.Join(sb.capDir, "old.pcap"), c19InsideMark+"old.pcap planted before the server started")
	c19MustWrite(filepath.Join(sb.capDir, "old.pcapng"), c19InsideMark+"old.pcapng planted before the server started")
	c19MustWrite(filepath.Join(sb.capDir, "sub", "inner.pcap"), c19InsideMark+"sub/inner.pcap")
	c19MustWrite(filepath.Join(sb.capDir, "dir.pcap", "inner.pcap"), c19InsideMark+"dir.pcap/inner.pcap")

	*baseDir = sb.data
	*pcapDir = "pcap"
	*userPassword = ""
	*pcapPassword = ""
	mgr, err := manager.New(filepath.Join(*baseDir, *pcapDir), filepath.Join(sb.data, "index"), filepath.Join(sb.data, "snapshot"), filepath.Join(sb.data, "state"), filepath.Join(sb.data, "converters"), "")
	if err != nil {
		os.RemoveAll(root)
		c19Harness(fmt.Sprintf("manager.New: %v", err))
	}
	sb.mgr = mgr
	ch, _ := mgr.Listen()
	sb.recvDone = make(chan struct{})
	go func() {
		defer close(sb.recvDone)
		for e := range ch {
			if e.Type == "pcapArrived" {
				sb.arrived.Add(1)
			}
		}
	}()
	// same construction as main(): a plain http.Server around the router
	// (httptest.Server.Close would wait 500ms for net/http's lingering close)
	ln, err := net.Listen("tcp", "127.0.0.1:0")
	if err != nil {
		c19Harness(fmt.Sprintf("listen: %v", err))
	}
	sb.srv = &http.Server{Handler: setupRouter(mgr, nil, nil), ErrorLog: log.New(io.Discard, "", 0)}
	go func() { _ = sb.srv.Serve(ln) }()
	sb.addr = ln.Addr().String()

	// wedge the import pipeline: the first queued capture is a FIFO nobody writes to
	// (created after manager.New, which reads every capture already present)
	if err := syscall.Mkfifo(filepath.Join(sb.capDir, c19Wedge), 0o644); err != nil {
		c19Harness(fmt.Sprintf("mkfifo: %v", err))
	}
	mgr.ImportPcaps([]string{c19Wedge})
	sb.wedged = true
	sb.jobs = mgr.Status().ImportJobCount
	if sb.jobs != 1 {
		sb.Close()
		c19Harness(fmt.Sprintf("ImportJobCount after wedge = %d", sb.jobs))
	}
	sb.tree, err = c19Snap(root)
	if err != nil {
		sb.Close()
		c19Harness(fmt.Sprintf("%v", err))
	}
	return sb
}

// unwedge lets the blocked import job see EOF on the FIFO.
func (sb *c19Sandbox) unwedge() error {
	if !sb.wedged {
		return nil
	}
	sb.wedged = false
	deadline := time.Now().Add(20 * time.Second)
	for {
		fd, err := syscall.Open(filepath.Join(sb.capDir, c19Wedge), syscall.O_WRONLY|syscall.O_NONBLOCK, 0)
		if err == nil {
			syscall.Close(fd)
			return nil
		}
		if time.Now().After(deadline) {
			return fmt.Errorf("could not release the import wedge: %v", err)
		}
		time.Sleep(200 * time.Microsecond)
	}
}

func (sb *c19Sandbox) waitIdle() (manager.Statistics, bool) {
	deadline := time.Now().Add(60 * time.Second)
	for {
		st := sb.mgr.Status()
		if st.ImportJobCount == 0 && !st.MergeJobRunning && !st.TaggingJobRunning && !st.ConverterJobRunning {
			return st, true
		}
		if time.Now().After(deadline) {
			return st, false
		}
		time.Sleep(200 * time.Microsecond)
	}
}

func (sb *c19Sandbox) Close() {
	if sb.closed {
		return
	}
	sb.closed = true
	if sb.unwedge() == nil {
		sb.waitIdle()
	}
	sb.srv.Close()
	sb.mgr.Close()
	select {
	case <-sb.recvDone:
	case <-time.After(5 * time.Second):
	}
	os.RemoveAll(sb.root)
}

// ---------------------------------------------------------------------------
// raw HTTP client

type c19Resp struct {
	Status int // 0: no parseable response
	Body   []byte
	Raw    []byte
	Note   string
}

// c19Do writes the request by hand. For the modes that hold back the second
// half of the body (slow, chunked, abort, pair) it first waits (bounded) until
// the server visibly reacted: either started(), reported by the caller, turns
// true (the handler created its file and sits in io.Copy) or response bytes
// arrive (the request was answered without reading the body); then mid runs.
func c19Do(addr, method, target string, body []byte, mode string, started func() bool, mid func()) c19Resp {
	conn, err := net.DialTimeout("tcp", addr, 5*time.Second)
	if err != nil {
		return c19Resp{Note: "dial: " + err.Error()}
	}
	defer conn.Close()
	_ = conn.SetDeadline(time.Now().Add(20 * time.Second))
	hasBody := method != "GET" && method != "HEAD"
	var head bytes.Buffer
	fmt.Fprintf(&head, "%s %s HTTP/1.1\r\nHost: c19.test\r\nConnection: close\r\n", method, target)
	if hasBody {
		if mode == "chunked" {
			head.WriteString("Transfer-Encoding: chunked\r\n")
		} else {
			fmt.Fprintf(&head, "Content-Length: %d\r\n", len(body))
		}
	}
	head.WriteString("\r\n")
	half := len(body) / 2
	chunk := func(b []byte) []byte {
		if len(b) == 0 {
			return nil
		}
		return append(append([]byte(fmt.Sprintf("%x\r\n", len(b))), b...), '\r', '\n')
	}
	var early []byte // response bytes that arrived before the body was complete
	hold := func() {
		deadline := time.Now().Add(15 * time.Millisecond)
		buf := make([]byte, 4096)
		for time.Now().Before(deadline) {
			if started != nil && started() {
				time.Sleep(500 * time.Microsecond) // let a premature ImportPcaps call land
				break
			}
			_ = conn.SetReadDeadline(time.Now().Add(150 * time.Microsecond))
			if n, _ := conn.Read(buf); n > 0 {
				early = append(early, buf[:n]...)
				break
			}
		}
		_ = conn.SetReadDeadline(time.Now().Add(20 * time.Second))
		if mid != nil {
			mid()
		}
	}
	switch {
	case !hasBody:
		_, _ = conn.Write(head.Bytes())
	case mode == "plain":
		_, _ = conn.Write(append(head.Bytes(), body...))
	case mode == "chunked":
		_, _ = conn.Write(append(head.Bytes(), chunk(body[:half])...))
		hold()
		_, _ = conn.Write(append(chunk(body[half:]), []byte("0\r\n\r\n")...))
	case mode == "abort":
		// send half of the announced body, then FIN: the handler sees an unexpected
		// EOF. The (small) answer is flushed when the handler returns, so reading up
		// to EOF below also tells that the handler is done with the file system.
		_, _ = conn.Write(append(head.Bytes(), body[:half]...))
		hold()
		if tc, ok := conn.(*net.TCPConn); ok {
			_ = tc.CloseWrite()
		}
	default: // slow, pair
		_, _ = conn.Write(append(head.Bytes(), body[:half]...))
		hold()
		_, _ = conn.Write(body[half:])
	}
	raw, _ := io.ReadAll(conn)
	return c19Parse(method, append(early, raw...))
}

func c19Parse(method string, raw []byte) c19Resp {
	r := c19Resp{Raw: raw}
	resp, err := http.ReadResponse(bufio.NewReader(bytes.NewReader(raw)), &http.Request{Method: method})
	if err != nil {
		// e.g. a redirect whose Location header carries a NUL byte: take the status line by hand
		r.Note = "unparseable response: " + err.Error()
		var code int
		if _, e := fmt.Sscanf(string(raw), "HTTP/1.1 %d ", &code); e == nil && code >= 100 && code <= 599 {
			r.Status = code
			if i := bytes.Index(raw, []byte("\r\n\r\n")); i >= 0 {
				r.Body = raw[i+4:]
			}
		}
		return r
	}
	r.Status = resp.StatusCode
	r.Body, _ = io.ReadAll(resp.Body)
	resp.Body.Close()
	return r
}

// ---------------------------------------------------------------------------
// the property

type c19Expect struct {
	name    string
	size    int
	packets int
}

// c19T is what the oracle needs from its runner (rapid.T or the fixed runner).
type c19T interface {
	Fatalf(format string, args ...any)
}

func c19Property(rt c19T, c *vlib.Case, ops []c19Op) {
	// wall-clock readings below only feed cost counters of the evidence file, never a verdict
	t0 := time.Now()
	sb := c19NewSandbox()
	defer func() {
		t := time.Now()
		sb.Close()
		c.Count("us_close", int(time.Since(t).Microseconds()))
	}()
	c.Count("us_setup", int(time.Since(t0).Microseconds()))
	tOps := time.Now()
	capPrefix := c19CapRel + "/"

	nontrivial := false
	requests := 0
	var imported []c19Expect // successful uploads of clean captures, in order
	successes := 0

	// files inside the capture directory by digest (for the download rule)
	insideSums := func(t c19Tree) map[[32]byte]bool {
		m := map[[32]byte]bool{}
		for k, e := range t {
			if e.Mode == "f" && strings.HasPrefix(k, capPrefix) {
				m[e.Sum] = true
			}
		}
		return m
	}
	// negative rule for every response: no byte sequence that only exists outside the capture directory
	checkLeak := func(op c19Op, target string, r c19Resp, withMgrFiles bool) {
		if bytes.Contains(r.Raw, []byte(c19OutsideMark)) {
			rt.Fatalf("%s %q: response contains the bytes of a file outside the capture directory: %q", op.Method, target, c19Trunc(r.Raw))
		}
		if !withMgrFiles {
			return
		}
		for _, d := range []string{"index", "state", "snapshot"} {
			ents, _ := os.ReadDir(filepath.Join(sb.data, d))
			for _, e := range ents {
				b, err := os.ReadFile(filepath.Join(sb.data, d, e.Name()))
				if err == nil && len(b) >= 16 && bytes.Contains(r.Raw, b) {
					rt.Fatalf("%s %q: response contains the bytes of %s/%s", op.Method, target, d, e.Name())
				}
			}
		}
	}
	snap := func() c19Tree {
		t, err := c19Snap(sb.root)
		if err != nil {
			c19Harness(fmt.Sprintf("snapshot: %v", err))
		}
		return t
	}
	// strict rule: nothing removed or modified anywhere; additions only as listed
	strict := func(what string, before, after c19Tree, allowed map[string][]byte) {
		added, removed, modified := c19Diff(before, after)
		if len(removed) != 0 || len(modified) != 0 {
			rt.Fatalf("%s: existing entries changed: removed=%q modified=%q", what, removed, modified)
		}
		for _, a := range added {
			want, ok := allowed[a]
			if !ok {
				where := "outside the capture directory"
				if strings.HasPrefix(a, capPrefix) {
					where = "inside the capture directory"
				}
				rt.Fatalf("%s: unexpected new entry %q (%s)", what, a, where)
			}
			e := after[a]
			if e.Mode != "f" || e.Sum != sha256.Sum256(want) {
				rt.Fatalf("%s: new file %q does not hold exactly the uploaded body (mode %s, %d bytes, want %d bytes)", what, a, e.Mode, e.Size, len(want))
			}
		}
	}
	capCount := func() int {
		ents, _ := os.ReadDir(sb.capDir)
		return len(ents)
	}
	phasePost := false
	for i, op := range ops {
		target := strings.ReplaceAll(op.Target, c19RootMark, sb.root)
		what := fmt.Sprintf("op %d (%s %s %q)", i, op.Kind, op.Method, op.Target)
		shapes, trav := c19Shapes(op.Kind, op.Target)
		for _, s := range shapes {
			c.Label(op.Kind + ":" + s)
		}
		if trav {
			nontrivial = true
		}

		if op.Post && !phasePost {
			phasePost = true
			c19Settle(rt, c, sb, snap, imported, successes)
		}

		before := sb.tree
		switch op.Kind {
		case "down":
			r := c19Do(sb.addr, op.Method, target, nil, "plain", nil, nil)
			requests++
			after := snap()
			strict(what, before, after, nil)
			sb.tree = after
			if st := sb.mgr.Status(); st.ImportJobCount != sb.jobs {
				rt.Fatalf("%s: ImportJobCount changed from %d to %d", what, sb.jobs, st.ImportJobCount)
			}
			checkLeak(op, target, r, phasePost)
			c.Labelf("down:status-%d", r.Status)
			if r.Status == 0 && os.Getenv("C19_DEBUG") != "" {
				fmt.Fprintf(os.Stderr, "C19 DEBUG no response: %s %q note=%q raw=%q\n", op.Method, target, r.Note, c19Trunc(r.Raw))
			}
			if r.Status == 200 && op.Method == "GET" && c19PlainDownRe.MatchString(c19PathOf(target)) {
				// routed to the file download handler (or to the SPA fallback)
				if bytes.Contains(r.Body, []byte("verif stub")) {
					c.Label("down:spa-fallback")
				} else if !insideSums(after)[sha256.Sum256(r.Body)] {
					rt.Fatalf("%s: 200 response body (%d bytes, %q) is not the content of a file inside the capture directory", what, len(r.Body), c19Trunc(r.Body))
				} else {
					c.Label("down:served-capture-file")
					cands := c19Candidates(target, "/api/download/pcap/")
					ok := false
					for _, cand := range cands {
						if e, has := after[capPrefix+cand]; has && e.Mode == "f" && e.Sum == sha256.Sum256(r.Body) {
							ok = true
						}
					}
					if !ok {
						rt.Fatalf("%s: served a capture file that is not the one named by the request (candidates %q)", what, cands)
					}
				}
			}

		case "up":
			cands := c19Candidates(target, "/upload/")
			dup := false
			for _, cand := range cands {
				if _, has := before[capPrefix+cand]; has {
					dup = true
				}
			}
			if dup && op.Method == "POST" {
				nontrivial = true
				c.Label("up:duplicate-name")
			}
			base := capCount()
			var mid func()
			if op.Mode == "slow" || op.Mode == "chunked" || op.Mode == "abort" {
				mid = func() {
					if st := sb.mgr.Status(); st.ImportJobCount != sb.jobs {
						rt.Fatalf("%s: an import was queued before the request body was complete (ImportJobCount %d -> %d)", what, sb.jobs, st.ImportJobCount)
					}
				}
			}
			c.Label("up:mode-" + op.Mode)
			c.Label("up:body-" + op.BodyKind)
			r := c19Do(sb.addr, op.Method, target, op.Body, op.Mode, func() bool { return capCount() != base }, mid)
			requests++
			st := sb.mgr.Status()
			after := snap()
			delta := st.ImportJobCount - sb.jobs
			checkLeak(op, target, r, false)
			c.Labelf("up:status-%d", r.Status)
			switch {
			case op.Method != "POST":
				strict(what, before, after, nil)
				if delta != 0 {
					rt.Fatalf("%s: ImportJobCount changed by %d on a non-POST request", what, delta)
				}
			case r.Status == 200:
				added, _, _ := c19Diff(before, after)
				allowed := map[string][]byte{}
				for _, cand := range cands {
					allowed[capPrefix+cand] = op.Body
				}
				strict(what, before, after, allowed)
				if len(added) != 1 {
					rt.Fatalf("%s: status 200 but %d new entries %q (want exactly the uploaded file; candidates %q)", what, len(added), added, cands)
				}
				if delta != 1 {
					rt.Fatalf("%s: status 200 but ImportJobCount changed by %d, want 1", what, delta)
				}
				successes++
				name := strings.TrimPrefix(added[0], capPrefix)
				c.Label("up:created")
				if rawTail := strings.TrimPrefix(c19PathOf(target), "/upload/"); true {
					dec, valid := c19Unescape(rawTail)
					c.LabelIf(valid && dec != rawTail && name == rawTail, "up:stored-under-raw-name")
					c.LabelIf(valid && dec != rawTail && name == dec, "up:stored-under-decoded-name")
				}
				if op.BodyKind == "pcap" {
					imported = append(imported, c19Expect{name, len(op.Body), op.Packets})
				} else if op.BodyKind == "truncated" {
					imported = append(imported, c19Expect{name, len(op.Body), -1})
				}
			case r.Status == 0:
				c19Harness(fmt.Sprintf("%s: no response: %s", what, r.Note))
			case op.Mode == "abort":
				// incomplete upload (answered with a status other than 200): never queued;
				// a left-over partial file is not excluded by the property, but it may only be the routed one
				added, removed, modified := c19Diff(before, after)
				if len(removed) != 0 || len(modified) != 0 {
					rt.Fatalf("%s: existing entries changed: removed=%q modified=%q", what, removed, modified)
				}
				allowedNames := map[string]bool{}
				for _, cand := range cands {
					allowedNames[capPrefix+cand] = true
				}
				for _, a := range added {
					if !allowedNames[a] {
						rt.Fatalf("%s: unexpected new entry %q after an aborted upload", what, a)
					}
					c.Label("up:abort-left-partial-file")
				}
				if delta != 0 {
					rt.Fatalf("%s: aborted upload but ImportJobCount changed by %d", what, delta)
				}
				c.Label("up:aborted")
			default:
				strict(what, before, after, nil)
				if delta != 0 {
					rt.Fatalf("%s: status %d but ImportJobCount changed by %d", what, r.Status, delta)
				}
				c.LabelIf(dup, "up:duplicate-refused")
				// not a claim of the property, but a vacuity guard worth seeing in the evidence (expected: never)
				c.LabelIf(!dup && c19PlainRe.MatchString(target), "up:new-plain-name-refused")
			}
			sb.jobs = st.ImportJobCount
			sb.tree = after

		case "pair":
			nontrivial = true
			cands := c19Candidates(target, "/upload/")
			dup := false
			for _, cand := range cands {
				if _, has := before[capPrefix+cand]; has {
					dup = true
				}
			}
			c.LabelIf(dup, "pair:duplicate-name")
			var rs [2]c19Resp
			base := capCount()
			bodies := [2][]byte{op.Body, op.Body2}
			var wg, barrier sync.WaitGroup
			barrier.Add(2)
			for k := 0; k < 2; k++ {
				wg.Add(1)
				go func(k int) {
					defer wg.Done()
					rs[k] = c19Do(sb.addr, "POST", target, bodies[k], "pair", func() bool { return capCount() != base }, func() {
						barrier.Done()
						done := make(chan struct{})
						go func() { barrier.Wait(); close(done) }()
						select {
						case <-done:
						case <-time.After(2 * time.Second):
						}
					})
				}(k)
			}
			wg.Wait()
			requests += 2
			st := sb.mgr.Status()
			after := snap()
			delta := st.ImportJobCount - sb.jobs
			wins := 0
			winner := -1
			for k := 0; k < 2; k++ {
				checkLeak(op, target, rs[k], false)
				if rs[k].Status == 0 {
					c19Harness(fmt.Sprintf("%s: no response: %s", what, rs[k].Note))
				}
				if rs[k].Status == 200 {
					wins++
					winner = k
				}
			}
			c.Labelf("pair:wins-%d", wins)
			switch wins {
			case 2:
				rt.Fatalf("%s: both concurrent uploads of one name succeeded", what)
			case 1:
				allowed := map[string][]byte{}
				for _, cand := range cands {
					allowed[capPrefix+cand] = bodies[winner]
				}
				strict(what, before, after, allowed)
				added, _, _ := c19Diff(before, after)
				if len(added) != 1 {
					rt.Fatalf("%s: one upload succeeded but %d new entries %q", what, len(added), added)
				}
				if delta != 1 {
					rt.Fatalf("%s: one upload succeeded but ImportJobCount changed by %d, want 1", what, delta)
				}
				successes++
				name := strings.TrimPrefix(added[0], capPrefix)
				pk := op.Packets
				if winner == 1 {
					pk = op.Packets2
				}
				if pk > 0 {
					imported = append(imported, c19Expect{name, len(bodies[winner]), pk})
				} else if pk < 0 || bytes.HasPrefix(bodies[winner], []byte{0xd4, 0xc3, 0xb2, 0xa1}) {
					imported = append(imported, c19Expect{name, len(bodies[winner]), -1})
				}
				c.Labelf("pair:winner-%d", winner)
			default:
				strict(what, before, after, nil)
				if delta != 0 {
					rt.Fatalf("%s: no upload succeeded but ImportJobCount changed by %d", what, delta)
				}
				if !dup && c19PlainRe.MatchString(target) {
					rt.Fatalf("%s: both concurrent uploads of a new plain name were refused (%d, %d)", what, rs[0].Status, rs[1].Status)
				}
			}
			sb.jobs = st.ImportJobCount
			sb.tree = after
		}
	}
	if !phasePost {
		c19Settle(rt, c, sb, snap, imported, successes)
	}
	c.Count("us_requests_and_settle", int(time.Since(tOps).Microseconds()))
	c.Count("requests", requests)
	c.Count("successful_uploads", successes)
	if nontrivial {
		var key strings.Builder
		for _, op := range ops {
			fmt.Fprintf(&key, "%s %s %s %s %d %d|", op.Kind, op.Method, op.Target, op.Mode, len(op.Body), len(op.Body2))
		}
		c.NonTrivial(key.String())
	}
}

// c19Settle releases the import wedge, waits until the manager is idle and
// compares what it imported with the successful uploads.
func c19Settle(rt c19T, c *vlib.Case, sb *c19Sandbox, snap func() c19Tree, imported []c19Expect, successes int) {
	tSettle := time.Now()
	defer func() { c.Count("us_settle", int(time.Since(tSettle).Microseconds())) }()
	before := sb.tree
	if err := sb.unwedge(); err != nil {
		c19Harness(err.Error())
	}
	st, ok := sb.waitIdle()
	if !ok {
		// liveness of the manager is C09's claim; this check cannot decide anything without it
		c19Harness(fmt.Sprintf("manager did not become idle within 60s after the uploads: %+v", st))
	}
	sb.jobs = 0
	after := snap()
	added, removed, modified := c19Diff(before, after)
	for _, list := range [][]string{added, removed, modified} {
		for _, p := range list {
			if !c19MgrFileRe.MatchString(p) {
				rt.Fatalf("while importing: entry %q was added/removed/modified (added=%q removed=%q modified=%q); only the manager's own index/state/snapshot files may change", p, added, removed, modified)
			}
		}
	}
	sb.tree = after
	c.LabelIf(len(added) > 0, "settle:manager-wrote-files")

	// exactly one pcapArrived per successful upload (+1 for the wedge itself)
	want := int64(successes + 1)
	deadline := time.Now().Add(10 * time.Second)
	for sb.arrived.Load() < want && time.Now().Before(deadline) {
		time.Sleep(200 * time.Microsecond)
	}
	if got := sb.arrived.Load(); got != want {
		rt.Fatalf("%d successful uploads but %d pcapArrived events (wedge excluded)", successes, got-1)
	}

	known := map[string][]int{} // name -> indexes into KnownPcaps
	kp := sb.mgr.KnownPcaps()
	for i, p := range kp {
		known[p.Filename] = append(known[p.Filename], i)
	}
	expected := map[string]c19Expect{}
	for _, e := range imported {
		expected[e.name] = e
	}
	for name, idxs := range known {
		if len(idxs) != 1 {
			rt.Fatalf("capture %q was imported %d times", name, len(idxs))
		}
		if _, ok := expected[name]; !ok {
			rt.Fatalf("manager imported %q which is not a successfully uploaded capture (expected %v)", name, imported)
		}
	}
	for name, e := range expected {
		if e.packets < 0 {
			continue // truncated capture: may or may not be importable
		}
		idxs := known[name]
		if len(idxs) != 1 {
			rt.Fatalf("successfully uploaded capture %q (%d packets) was not imported; known: %v", name, e.packets, kp)
		}
		p := kp[idxs[0]]
		if int(p.PacketCount) != e.packets || int(p.Filesize) != e.size {
			rt.Fatalf("capture %q was imported with %d packets / %d bytes, uploaded %d packets / %d bytes (imported before the upload was complete?)", name, p.PacketCount, p.Filesize, e.packets, e.size)
		}
	}
	c.Labelf("settle:imported-%d", min(len(known), 4))
}

func c19Trunc(b []byte) string {
	if len(b) > 200 {
		return string(b[:200]) + "..."
	}
	return string(b)
}

func TestVerifC19(t *testing.T) {
	_ = vlib.OpenFindings()
	vlib.Check(t, "C19", func(rt *rapid.T, c *vlib.Case) {
		ops := c19GenOps(rt)
		c.Render(func() any { return ops })
		c.Trace(t)
		c19Property(rt, c, ops)
	})
}

// ---------------------------------------------------------------------------
// fixed request lists: textbook spellings of the attack, independent of the seed

type c19FixedT struct{}

type c19FixedFailure string

func (c19FixedT) Fatalf(format string, args ...any) {
	panic(c19FixedFailure(fmt.Sprintf(format, args...)))
}

func c19FixedOps(name string) []c19Op {
	body := func(n int, tag string) []byte { return c19Pcap(n, []byte(tag)) }
	up := func(target string, b []byte, packets int, mode string) c19Op {
		return c19Op{Kind: "up", Method: "POST", Target: target, Mode: mode, BodyKind: "pcap", Body: b, BodyLen: len(b), Packets: packets}
	}
	down := func(target string) c19Op { return c19Op{Kind: "down", Method: "GET", Target: target} }
	switch name {
	case "C19-explicit-traversal":
		var ops []c19Op
		for _, tail := range []string{
			"../x.pcap", "../../x.pcap", "../index/x.pcap", "../state/secret.pcap", "..%2fx.pcap", "..%2Fstate%2Fx.pcap",
			"%2e%2e/x.pcap", "%2e%2e%2fx.pcap", "%252e%252e%252fx.pcap", "..\\x.pcap", "..%5cx.pcap", "..%00/x.pcap",
			"/etc/x.pcap", "{ROOT}/x.pcap", "/{ROOT}/l0/x.pcap", "sub/x.pcap", "dir.pcap/x.pcap", "./x.pcap", "x.pcap/", "x.pcap/..",
			"x.pcap%00.txt", "x.pcap%2f..%2f..%2fsecret.pcap", "\xc0\xae\xc0\xae/x.pcap", "..;/x.pcap", "....//x.pcap",
		} {
			ops = append(ops, up("/upload/"+tail, body(1, tail), 1, "plain"))
			ops = append(ops, down("/api/download/pcap/"+tail))
		}
		for _, tail := range []string{"../secret.pcap", "../canary.txt", "..%2fsecret.pcap", "%2e%2e/secret.pcap", "../state/secret.pcap",
			"../../../../secret.pcap", "sub/inner.pcap", "dir.pcap/inner.pcap", "dir.pcap", "old.pcap", "old.pcapng", "{ROOT}/secret.pcap"} {
			ops = append(ops, down("/api/download/pcap/"+tail))
		}
		for _, target := range []string{"/upload/../api/download/pcap/../secret.pcap", "http://c19.test/upload/../x.pcap", "//upload/../x.pcap", "/upload"} {
			ops = append(ops, up(target, body(1, target), 1, "plain"))
		}
		return ops
	case "C19-explicit-duplicates-and-pairs":
		b1, b2, b3 := body(1, "first"), body(2, "second"), body(3, "third")
		return []c19Op{
			up("/upload/a.pcap", b1, 1, "plain"),
			up("/upload/a.pcap", b2, 2, "plain"), // refused
			up("/upload/a.pcap", b3, 3, "slow"),  // refused
			up("/upload/old.pcap", b2, 2, "chunked"),
			up("/upload/dir.pcap", b2, 2, "plain"),
			up("/upload/b.pcapng", b3, 3, "abort"),
			up("/upload/b.pcapng", b3, 3, "chunked"),
			down("/api/download/pcap/a.pcap"),
			down("/api/download/pcap/b.pcapng"),
			{Kind: "pair", Method: "POST", Target: "/upload/c.pcap", Mode: "pair", BodyKind: "pcap", Body: b1, Body2: b2, BodyLen: len(b1), Body2Len: len(b2), Packets: 1, Packets2: 2},
			{Kind: "pair", Method: "POST", Target: "/upload/c.pcap", Mode: "pair", BodyKind: "pcap", Body: b3, Body2: b2, BodyLen: len(b3), Body2Len: len(b2), Packets: 3, Packets2: 2},
			{Kind: "pair", Method: "POST", Target: "/upload/%C3%A9.pcap", Mode: "pair", BodyKind: "pcap", Body: b3, Body2: b2, BodyLen: len(b3), Body2Len: len(b2), Packets: 3, Packets2: 2},
			up("/upload/\xc3\xa9.pcap", b1, 1, "plain"), // same stored name as the pair above: refused
			down("/api/download/pcap/c.pcap"),
			{Kind: "down", Method: "GET", Target: "/api/download/0.pcap", Post: true},
			{Kind: "down", Method: "GET", Target: "/api/download/pcap/c.pcap", Post: true},
			{Kind: "down", Method: "GET", Target: "/api/download/pcap/../state/secret.pcap", Post: true},
		}
	}
	return nil
}

func TestVerifC19Fixed(t *testing.T) {
	vlib.Fixed(t, "C19", []string{"C19-explicit-traversal", "C19-explicit-duplicates-and-pairs"}, func(name string) (msg string, rendering any) {
		ops := c19FixedOps(name)
		defer func() {
			if r := recover(); r != nil {
				f, ok := r.(c19FixedFailure)
				if !ok {
					panic(r)
				}
				msg, rendering = string(f), ops
			}
		}()
		c19Property(c19FixedT{}, &vlib.Case{}, ops)
		return "", nil
	})
}
