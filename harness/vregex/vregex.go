// Package vregex is a generator of regular-expression syntax trees for the
// payload-filter dialect of pkappa2 (rsc.io/binaryregexp, Perl flags: the
// pattern text is UTF-8, every rune <= 0xFF denotes the byte of that value, the
// haystack is a byte string). It is part of the verification harness (virtual
// package internal/verif/vregex, never present in /repo) and imports nothing
// from the repository.
//
// API (used by C18 in internal/tools/regexAnalysis and by C04):
//
//	Gen(cfg Config) *rapid.Generator[*Regex]   random syntax tree (shrinks through rapid)
//	(*Regex).Render() string                   concrete syntax
//	(*Regex).Anchored() string                 `\A(?:` + Render() + `)\z`
//	(*Regex).MinLen() int                      exact minimal member length   (assertion-free trees only)
//	(*Regex).MaxLen() (n int, finite bool)     exact maximal member length   (assertion-free trees only)
//	(*Regex).Shortest() []byte                 a member of length MinLen()
//	(*Regex).Longest() ([]byte, bool)          a member of length MaxLen() when finite
//	(*Regex).Longer(n) ([]byte, bool)          a member longer than n bytes when MaxLen() is infinite
//	(*Regex).Sample(t, label) []byte           random member, drawn through rapid
//	(*Regex).HasAssertion() bool               contains ^ $ \A \z \b \B
//	(*Regex).HasFold() bool                    some leaf is matched case-insensitively
//	(*Regex).Features() []string               labels for evidence histograms
//	(*Regex).Paths() int                       bound on the number of program paths (see Config.MaxPaths)
//	Uniform(t, n, label) int                   uniformly distributed draw (rapid's integer generators are biased)
//	Parse-free: the tree is its own semantics; nothing here calls a regexp engine.
//
// Semantics. "Member" means: a byte string in the language of the tree when
// every empty-width assertion is read as the empty string. For an
// assertion-free tree the members are exactly the strings the anchored
// expression accepts; with assertions the accepted strings are a subset of the
// members (users must filter samples through the real engine).
//
// Flags are modelled the way the parser scopes them: `(?i)`/`(?s)`/`(?-i)` set
// flags up to the end of the enclosing group (alternation does not reset
// them), `(?i:...)` scopes them to the group. Case folding of a literal or a
// class is the closure under unicode.SimpleFold restricted to 0..255 (so
// (?i)\xe9 also matches \xc9, and (?i)k does not gain a byte for U+212A);
// negation of a class (or of \D, [[:^alpha:]]) is applied after folding, as
// the parser does. `.` excludes \n unless (?s). Negated classes contain \n
// (Perl flags include ClassNL). Classes that would match no byte at all are
// never generated.
package vregex

import (
	"fmt"
	"sort"
	"strings"
	"unicode"

	"pgregory.net/rapid"
)

// Kind of a syntax tree node.
type Kind uint8

const (
	KEmpty    Kind = iota // matches only the empty string; renders as nothing
	KLit                  // one byte
	KClass                // bracket expression or \d \W ...
	KDot                  // .
	KCat                  // concatenation of Sub
	KAlt                  // alternation of Sub
	KRepeat               // Sub[0] repeated Min..Max times (Max < 0: unbounded)
	KGroup                // ( ) (?: ) (?P<n> ) (?flags: )
	KSetFlags             // (?flags) without body
	KAssert               // ^ $ \A \z \b \B
)

// Group kinds.
const (
	GCapture = iota
	GNonCapture
	GNamed
	GFlags
)

// ClassItem is one element of a bracket expression.
type ClassItem struct {
	Lo, Hi  byte   // byte range (Lo==Hi: single byte) when Named == ""
	LoEsc   uint8  // rendering style of Lo
	HiEsc   uint8  // rendering style of Hi
	Named   string // `\d` `\W` `[:alpha:]` `[:^digit:]` ...
	namedOK *[256]bool
	namedNg bool
}

// Node is a syntax tree node. Only the fields of its Kind are meaningful.
type Node struct {
	Kind Kind
	Sub  []*Node

	Byte byte  // KLit
	Esc  uint8 // KLit: rendering style

	Items []ClassItem // KClass
	Neg   bool        // KClass: [^...]
	Bare  bool        // KClass: a single perl class rendered without brackets (\d)

	Min, Max int   // KRepeat
	Lazy     bool  // KRepeat
	RStyle   uint8 // KRepeat: 0 = shortest notation (* + ?), 1 = braces

	GKind int    // KGroup
	Name  string // KGroup GNamed
	Flags string // KGroup GFlags / KSetFlags: e.g. "i", "s", "is", "-i", "i-s", "m", "U"

	Assert string // KAssert: one of ^ $ \A \z \b \B

	// resolved by finish()
	fold, dotall bool
	set          *[256]bool // KLit KClass KDot: bytes matched
	minLen       int
	maxLen       int // -1 infinite
	paths        int
}

// Regex is a finished tree.
type Regex struct {
	Root *Node
	cfg  Config
}

// Config steers the generator. The zero value is usable.
type Config struct {
	MaxDepth   int    // nesting depth of groups (default 4)
	Assertions bool   // generate ^ $ \A \z \b \B
	NoFold     bool   // never generate (?i)
	MaxCount   int    // largest number in {n,m} (default 6)
	MaxPaths   int    // bound on Paths() (default 3000); keeps analyses that enumerate program paths cheap
	MaxRepProd int    // bound on the product of nested counted repetitions (default 400; the parser rejects > 1000)
	Alphabet   []byte // bytes preferred for literals (default: a small mixed set); about one literal in four is any byte
}

func (c Config) withDefaults() Config {
	if c.MaxDepth <= 0 {
		c.MaxDepth = 4
	}
	if c.MaxCount <= 0 {
		c.MaxCount = 6
	}
	if c.MaxPaths <= 0 {
		c.MaxPaths = 3000
	}
	if c.MaxRepProd <= 0 {
		c.MaxRepProd = 400
	}
	if len(c.Alphabet) == 0 {
		c.Alphabet = []byte("abcABCkKsS019 _-.\n\r\t\x00\x7f\x80\xb5\xdf\xe9\xc9\xff")
	}
	return c
}

// ---------------------------------------------------------------------------------------------
// generation

type gen struct {
	cfg Config
	t   *rapid.T
	n   int // label counter is not needed by rapid, kept for readability of failing draws
}

// intn draws uniformly from lo..hi. rapid's own integer generators are
// deliberately biased towards small values (about half of IntRange(0,99) is
// below 16), which would distort every weight below; single bits are uniform.
func (g *gen) intn(lo, hi int, label string) int {
	return lo + Uniform(g.t, hi-lo+1, label)
}

func (g *gen) chance(percent int, label string) bool {
	return Uniform(g.t, 100, label) < percent
}

var boolGen = rapid.Bool()

// Uniform draws a uniformly distributed integer in [0,n) from single-bit draws
// (shrinks towards 0).
func Uniform(t *rapid.T, n int, label string) int {
	if n <= 1 {
		return 0
	}
	k := 0
	for 1<<k < n {
		k++
	}
	for {
		v := 0
		for i := 0; i < k; i++ {
			v <<= 1
			if boolGen.Draw(t, label) {
				v |= 1
			}
		}
		if v < n {
			return v
		}
	}
}

// Gen returns a generator of finished trees.
func Gen(cfg Config) *rapid.Generator[*Regex] {
	cfg = cfg.withDefaults()
	return rapid.Custom(func(t *rapid.T) *Regex {
		g := &gen{cfg: cfg, t: t}
		root := g.alt(cfg.MaxDepth)
		// the shapes people write: a global flag prefix, a literal tail
		var pre, post []*Node
		if k := g.intn(0, 19, "globalflags"); k < 3 && !cfg.NoFold {
			pre = append(pre, &Node{Kind: KSetFlags, Flags: "i"})
		} else if k == 3 {
			pre = append(pre, &Node{Kind: KSetFlags, Flags: "s"})
		}
		if g.chance(30, "tail") {
			post = g.litRun(1, 3)
		}
		if len(pre)+len(post) > 0 {
			root = &Node{Kind: KCat, Sub: append(append(pre, root), post...)}
		}
		r := &Regex{Root: root, cfg: cfg}
		r.finish()
		return r
	})
}

func (g *gen) alt(d int) *Node {
	n := 1
	switch k := g.intn(0, 9, "nalt"); {
	case k >= 9:
		n = 4
	case k >= 8:
		n = 3
	case k >= 5:
		n = 2
	}
	if n == 1 {
		return g.branch(d)
	}
	a := &Node{Kind: KAlt}
	for i := 0; i < n; i++ {
		a.Sub = append(a.Sub, g.branch(d))
	}
	if g.chance(25, "sharedtail") {
		// branches with a common literal ending (abc|xbc)
		tail := g.litRun(1, 2)
		for i, b := range a.Sub {
			cp := make([]*Node, 0, len(tail))
			for _, l := range tail {
				c := *l
				cp = append(cp, &c)
			}
			if i > 0 && g.chance(15, "tailvariant") {
				cp[0].Byte = g.byteval("tv") // an almost-common ending
			}
			if b.Kind == KCat {
				b.Sub = append(b.Sub, cp...)
			} else {
				a.Sub[i] = &Node{Kind: KCat, Sub: append([]*Node{b}, cp...)}
			}
		}
	}
	return a
}

func (g *gen) litRun(lo, hi int) []*Node {
	n := g.intn(lo, hi, "runlen")
	out := make([]*Node, 0, n)
	for i := 0; i < n; i++ {
		out = append(out, g.lit())
	}
	return out
}

func (g *gen) branch(d int) *Node {
	k := g.intn(0, 11, "nitems")
	var n int
	switch {
	case k == 0:
		return &Node{Kind: KEmpty}
	case k <= 4:
		n = 1
	case k <= 7:
		n = 2
	case k <= 9:
		n = 3
	default:
		n = g.intn(4, 6, "nitems2")
	}
	if n == 1 {
		return g.item(d)
	}
	c := &Node{Kind: KCat}
	for i := 0; i < n; i++ {
		c.Sub = append(c.Sub, g.item(d))
	}
	return c
}

func (g *gen) item(d int) *Node {
	a := g.atom(d)
	if a.Kind == KSetFlags {
		return a
	}
	if !g.chance(35, "quant") {
		return a
	}
	if a.Kind == KAssert {
		a = &Node{Kind: KGroup, GKind: GNonCapture, Sub: []*Node{a}}
	}
	r := &Node{Kind: KRepeat, Sub: []*Node{a}}
	mc := g.cfg.MaxCount
	switch g.intn(0, 11, "qkind") {
	case 0, 1:
		r.Min, r.Max = 0, -1 // *
	case 2, 3:
		r.Min, r.Max = 1, -1 // +
	case 4, 5, 10, 11:
		r.Min, r.Max = 0, 1 // ?
	case 6, 9:
		r.Min = g.intn(0, mc, "n")
		r.Max = r.Min // {n}
		r.RStyle = 1
	case 7:
		r.Min = g.intn(0, mc, "n")
		r.Max = -1 // {n,}
		r.RStyle = 1
	default:
		r.Min = g.intn(0, mc, "n")
		r.Max = g.intn(r.Min, mc, "m") // {n,m}
		r.RStyle = 1
	}
	if r.Max == 0 && g.chance(80, "no{0}") {
		// {0} and {0,0} are legal but make everything below irrelevant; keep them rare
		r.Max = 1 + g.intn(0, mc-1, "m2")
	}
	if r.RStyle == 0 && g.chance(15, "braces") {
		r.RStyle = 1
	}
	r.Lazy = g.chance(20, "lazy")
	return r
}

func (g *gen) atom(d int) *Node {
	if g.cfg.Assertions && g.chance(12, "assertatom") {
		return &Node{Kind: KAssert, Assert: g.pick([]string{"^", "$", `\A`, `\z`, `\b`, `\B`}, "assert")}
	}
	k := g.intn(0, 99, "atom")
	switch {
	case k < 50:
		return g.lit()
	case k < 63:
		return g.class()
	case k < 70:
		return &Node{Kind: KDot}
	case k < 90:
		if d <= 0 {
			return g.lit()
		}
		return g.group(d - 1)
	case k < 95:
		return g.lit()
	default:
		return &Node{Kind: KSetFlags, Flags: g.flags()}
	}
}

func (g *gen) pick(xs []string, label string) string {
	return xs[Uniform(g.t, len(xs), label)]
}

func (g *gen) flags() string {
	fl := []string{"s", "-s", "m", "U", "s-m", "ms"}
	if !g.cfg.NoFold {
		fl = append(fl, "i", "i", "i", "-i", "is", "i-s", "s-i", "im")
	}
	return g.pick(fl, "flags")
}

func (g *gen) group(d int) *Node {
	n := &Node{Kind: KGroup, Sub: []*Node{g.alt(d)}}
	switch k := g.intn(0, 9, "gkind"); {
	case k < 3:
		n.GKind = GCapture
	case k < 6:
		n.GKind = GNonCapture
	case k < 7:
		n.GKind = GNamed
		n.Name = g.pick([]string{"n", "name", "x1", "_a", "N"}, "gname")
	default:
		n.GKind = GFlags
		n.Flags = g.flags()
	}
	return n
}

func (g *gen) byteval(label string) byte {
	if g.chance(75, label+"alpha") {
		return g.cfg.Alphabet[Uniform(g.t, len(g.cfg.Alphabet), label)]
	}
	return byte(Uniform(g.t, 256, label))
}

func (g *gen) lit() *Node {
	return &Node{Kind: KLit, Byte: g.byteval("lit"), Esc: uint8(g.intn(0, 6, "esc"))}
}

var perlNames = []string{`\d`, `\D`, `\s`, `\S`, `\w`, `\W`}
var posixNames = []string{"[:alnum:]", "[:alpha:]", "[:ascii:]", "[:blank:]", "[:cntrl:]", "[:digit:]", "[:graph:]", "[:lower:]",
	"[:print:]", "[:punct:]", "[:space:]", "[:upper:]", "[:word:]", "[:xdigit:]",
	"[:^alpha:]", "[:^digit:]", "[:^upper:]", "[:^ascii:]", "[:^space:]", "[:^lower:]"}

func (g *gen) class() *Node {
	n := &Node{Kind: KClass}
	if g.chance(20, "bareperl") {
		n.Bare = true
		n.Items = []ClassItem{{Named: g.pick(perlNames, "perl")}}
		return n
	}
	n.Neg = g.chance(30, "neg")
	cnt := g.intn(1, 4, "nclass")
	for i := 0; i < cnt; i++ {
		switch k := g.intn(0, 9, "citem"); {
		case k < 4:
			b := g.byteval("cb")
			n.Items = append(n.Items, ClassItem{Lo: b, Hi: b, LoEsc: uint8(g.intn(0, 5, "cesc"))})
		case k < 7:
			a, b := g.byteval("clo"), g.byteval("chi")
			if a > b {
				a, b = b, a
			}
			n.Items = append(n.Items, ClassItem{Lo: a, Hi: b, LoEsc: uint8(g.intn(0, 5, "cesc")), HiEsc: uint8(g.intn(0, 5, "cesc2"))})
		case k < 8:
			n.Items = append(n.Items, ClassItem{Named: g.pick(perlNames, "perl")})
		default:
			n.Items = append(n.Items, ClassItem{Named: g.pick(posixNames, "posix")})
		}
	}
	return n
}

// ---------------------------------------------------------------------------------------------
// rendering

const metaChars = `\.+*?()|[]{}^$`

func isAlnum(b byte) bool {
	return b >= '0' && b <= '9' || b >= 'a' && b <= 'z' || b >= 'A' && b <= 'Z'
}

func cEscape(b byte) string {
	switch b {
	case 7:
		return `\a`
	case 12:
		return `\f`
	case 9:
		return `\t`
	case 10:
		return `\n`
	case 13:
		return `\r`
	case 11:
		return `\v`
	}
	return ""
}

// renderByte renders one literal byte. inClass selects the escaping rules of a
// bracket expression. Every style falls back to \xHH when it does not apply.
func renderByte(b byte, esc uint8, inClass bool) string {
	hex := fmt.Sprintf(`\x%02x`, b)
	switch esc {
	case 0: // raw
		if b >= 0x80 {
			return string(rune(b)) // UTF-8 encoding of U+0080..U+00FF denotes the byte
		}
		if b < 0x20 || b == 0x7f {
			return hex
		}
		if inClass {
			if strings.IndexByte(`]\^-[:`, b) >= 0 {
				return `\` + string(rune(b))
			}
			return string(rune(b))
		}
		if strings.IndexByte(metaChars, b) >= 0 {
			return `\` + string(rune(b))
		}
		return string(rune(b))
	case 1: // backslash + punctuation
		if b < 0x80 && b >= 0x20 && b != 0x7f && !isAlnum(b) && b != '_' {
			return `\` + string(rune(b))
		}
		if b < 0x80 && b >= 0x20 && b != 0x7f && !inClass {
			return string(rune(b)) // alnum, '_'
		}
		return hex
	case 2:
		return hex
	case 3:
		return fmt.Sprintf(`\x{%X}`, b)
	case 4: // octal, always three digits so that a following digit is not swallowed
		return fmt.Sprintf(`\%03o`, b)
	case 5:
		if s := cEscape(b); s != "" {
			return s
		}
		return fmt.Sprintf(`\x{0%x}`, b)
	default: // \Q..\E outside classes
		if !inClass && b >= 0x20 && b < 0x7f && b != '\\' {
			return `\Q` + string(rune(b)) + `\E`
		}
		return hex
	}
}

func (n *Node) render(sb *strings.Builder) {
	switch n.Kind {
	case KEmpty:
	case KLit:
		sb.WriteString(renderByte(n.Byte, n.Esc, false))
	case KClass:
		if n.Bare {
			sb.WriteString(n.Items[0].Named)
			return
		}
		sb.WriteByte('[')
		if n.Neg {
			sb.WriteByte('^')
		}
		for _, it := range n.Items {
			if it.Named != "" {
				sb.WriteString(it.Named)
				continue
			}
			sb.WriteString(renderByte(it.Lo, it.LoEsc, true))
			if it.Hi != it.Lo {
				sb.WriteByte('-')
				sb.WriteString(renderByte(it.Hi, it.HiEsc, true))
			}
		}
		sb.WriteByte(']')
	case KDot:
		sb.WriteByte('.')
	case KCat:
		for _, s := range n.Sub {
			s.render(sb)
		}
	case KAlt:
		for i, s := range n.Sub {
			if i > 0 {
				sb.WriteByte('|')
			}
			s.render(sb)
		}
	case KRepeat:
		n.Sub[0].render(sb)
		switch {
		case n.RStyle == 0 && n.Min == 0 && n.Max < 0:
			sb.WriteByte('*')
		case n.RStyle == 0 && n.Min == 1 && n.Max < 0:
			sb.WriteByte('+')
		case n.RStyle == 0 && n.Min == 0 && n.Max == 1:
			sb.WriteByte('?')
		case n.Max < 0:
			fmt.Fprintf(sb, "{%d,}", n.Min)
		case n.Max == n.Min && n.RStyle == 1:
			fmt.Fprintf(sb, "{%d}", n.Min)
		default:
			fmt.Fprintf(sb, "{%d,%d}", n.Min, n.Max)
		}
		if n.Lazy {
			sb.WriteByte('?')
		}
	case KGroup:
		switch n.GKind {
		case GCapture:
			sb.WriteByte('(')
		case GNonCapture:
			sb.WriteString("(?:")
		case GNamed:
			sb.WriteString("(?P<" + n.Name + ">")
		default:
			sb.WriteString("(?" + n.Flags + ":")
		}
		n.Sub[0].render(sb)
		sb.WriteByte(')')
	case KSetFlags:
		sb.WriteString("(?" + n.Flags + ")")
	case KAssert:
		sb.WriteString(n.Assert)
	}
}

// Render returns the concrete syntax of the tree.
func (r *Regex) Render() string {
	var sb strings.Builder
	r.Root.render(&sb)
	return sb.String()
}

// Anchored returns the expression that accepts exactly the whole-string matches.
func (r *Regex) Anchored() string { return `\A(?:` + r.Render() + `)\z` }

// ---------------------------------------------------------------------------------------------
// finishing: structural fixes, flag resolution, byte sets, lengths

func (r *Regex) finish() {
	r.Root = fixStructure(r.Root, false)
	uniqueNames(r.Root, new(int))
	limitRepeats(r.Root, r.cfg.MaxRepProd, 1)
	st := flagState{}
	resolveFlags(r.Root, &st)
	measure(r.Root)
	for i := 0; r.Root.paths > r.cfg.MaxPaths && i < 64; i++ {
		if !reducePaths(r.Root) {
			break
		}
		measure(r.Root)
	}
}

// fixStructure wraps operands so that the rendering parses back to this tree:
// an alternation inside a concatenation and anything but an atom under a
// repetition are put into a non-capturing group.
func fixStructure(n *Node, inCat bool) *Node {
	switch n.Kind {
	case KCat:
		for i, s := range n.Sub {
			n.Sub[i] = fixStructure(s, true)
		}
	case KAlt:
		for i, s := range n.Sub {
			n.Sub[i] = fixStructure(s, false)
		}
		if inCat {
			return &Node{Kind: KGroup, GKind: GNonCapture, Sub: []*Node{n}}
		}
	case KGroup:
		n.Sub[0] = fixStructure(n.Sub[0], false)
	case KRepeat:
		s := fixStructure(n.Sub[0], false)
		switch s.Kind {
		case KLit, KClass, KDot, KGroup:
		default:
			s = &Node{Kind: KGroup, GKind: GNonCapture, Sub: []*Node{s}}
		}
		n.Sub[0] = s
	}
	return n
}

// uniqueNames makes capture names distinct (newer parsers reject duplicates).
func uniqueNames(n *Node, ctr *int) {
	if n.Kind == KGroup && n.GKind == GNamed {
		*ctr++
		n.Name = fmt.Sprintf("%s%d", n.Name, *ctr)
	}
	for _, s := range n.Sub {
		uniqueNames(s, ctr)
	}
}

// limitRepeats keeps the product of nested counted repetitions under limit
// (the parser rejects a product above 1000).
func limitRepeats(n *Node, limit, outer int) {
	if n.Kind == KRepeat {
		c := n.Max
		if c < n.Min {
			c = n.Min
		}
		if c < 1 {
			c = 1
		}
		for outer*c > limit && c > 1 {
			c--
		}
		if n.Min > c {
			n.Min = c
		}
		if n.Max > c {
			n.Max = c
		}
		outer *= c
	}
	for _, s := range n.Sub {
		limitRepeats(s, limit, outer)
	}
}

type flagState struct{ fold, dotall bool }

func applyFlags(st *flagState, flags string) {
	on := true
	for _, c := range flags {
		switch c {
		case '-':
			on = false
		case 'i':
			st.fold = on
		case 's':
			st.dotall = on
		}
	}
}

// resolveFlags walks the tree in textual order, the way the parser scopes flags.
func resolveFlags(n *Node, st *flagState) {
	switch n.Kind {
	case KLit, KClass, KDot:
		n.fold, n.dotall = st.fold, st.dotall
		n.set = leafSet(n)
		if n.Kind == KClass && !n.Bare && isEmptySet(n.set) {
			n.Neg = !n.Neg
			n.set = leafSet(n)
		}
	case KSetFlags:
		applyFlags(st, n.Flags)
	case KGroup:
		saved := *st
		if n.GKind == GFlags {
			applyFlags(st, n.Flags)
		}
		resolveFlags(n.Sub[0], st)
		*st = saved
	default:
		for _, s := range n.Sub {
			resolveFlags(s, st)
		}
	}
}

func isEmptySet(s *[256]bool) bool {
	for _, v := range s {
		if v {
			return false
		}
	}
	return true
}

// foldOrbit adds to dst every byte that is case-fold equivalent to b.
func foldOrbit(dst *[256]bool, b byte) {
	dst[b] = true
	for r := unicode.SimpleFold(rune(b)); r != rune(b); r = unicode.SimpleFold(r) {
		if r <= 0xff {
			dst[r] = true
		}
	}
}

func foldClosure(s *[256]bool) *[256]bool {
	out := &[256]bool{}
	for b := 0; b < 256; b++ {
		if s[b] {
			foldOrbit(out, byte(b))
		}
	}
	return out
}

func rangeSet(lo, hi int) *[256]bool {
	s := &[256]bool{}
	for b := lo; b <= hi; b++ {
		s[b] = true
	}
	return s
}

func union(sets ...*[256]bool) *[256]bool {
	s := &[256]bool{}
	for _, x := range sets {
		for b := range x {
			if x[b] {
				s[b] = true
			}
		}
	}
	return s
}

func fromString(str string) *[256]bool {
	s := &[256]bool{}
	for i := 0; i < len(str); i++ {
		s[str[i]] = true
	}
	return s
}

func complement(x *[256]bool) *[256]bool {
	s := &[256]bool{}
	for b := range x {
		s[b] = !x[b]
	}
	return s
}

// namedSet returns the (un-negated, un-folded) byte set of a perl or POSIX
// class name and whether the name denotes its negation.
func namedSet(name string) (*[256]bool, bool) {
	digit := rangeSet('0', '9')
	lower := rangeSet('a', 'z')
	upper := rangeSet('A', 'Z')
	alpha := union(lower, upper)
	word := union(alpha, digit, fromString("_"))
	switch name {
	case `\d`:
		return digit, false
	case `\D`:
		return digit, true
	case `\s`:
		return fromString("\t\n\f\r "), false
	case `\S`:
		return fromString("\t\n\f\r "), true
	case `\w`:
		return word, false
	case `\W`:
		return word, true
	}
	neg := strings.HasPrefix(name, "[:^")
	base := strings.TrimSuffix(strings.TrimPrefix(strings.TrimPrefix(name, "[:"), "^"), ":]")
	var s *[256]bool
	switch base {
	case "alnum":
		s = union(alpha, digit)
	case "alpha":
		s = alpha
	case "ascii":
		s = rangeSet(0, 0x7f)
	case "blank":
		s = fromString("\t ")
	case "cntrl":
		s = union(rangeSet(0, 0x1f), rangeSet(0x7f, 0x7f))
	case "digit":
		s = digit
	case "graph":
		s = rangeSet('!', '~')
	case "lower":
		s = lower
	case "print":
		s = rangeSet(' ', '~')
	case "punct":
		s = union(rangeSet('!', '/'), rangeSet(':', '@'), rangeSet('[', '`'), rangeSet('{', '~'))
	case "space":
		s = fromString("\t\n\v\f\r ")
	case "upper":
		s = upper
	case "word":
		s = word
	case "xdigit":
		s = union(digit, rangeSet('a', 'f'), rangeSet('A', 'F'))
	default:
		panic("vregex: unknown class name " + name)
	}
	return s, neg
}

func leafSet(n *Node) *[256]bool {
	switch n.Kind {
	case KLit:
		s := &[256]bool{}
		if n.fold {
			foldOrbit(s, n.Byte)
		} else {
			s[n.Byte] = true
		}
		return s
	case KDot:
		s := rangeSet(0, 255)
		if !n.dotall {
			s['\n'] = false
		}
		return s
	case KClass:
		acc := &[256]bool{}
		for _, it := range n.Items {
			var s *[256]bool
			neg := false
			if it.Named != "" {
				s, neg = namedSet(it.Named)
			} else {
				s = rangeSet(int(it.Lo), int(it.Hi))
			}
			if n.fold {
				s = foldClosure(s)
			}
			if neg {
				s = complement(s)
			}
			acc = union(acc, s)
		}
		if n.Neg {
			acc = complement(acc)
		}
		return acc
	}
	return nil
}

const pathCap = 1 << 40

func mulCap(a, b int) int {
	if a == 0 || b == 0 {
		return 0
	}
	if a > pathCap/b {
		return pathCap
	}
	return a * b
}

func addCap(a, b int) int {
	if a+b > pathCap {
		return pathCap
	}
	return a + b
}

func powCap(a, e int) int {
	r := 1
	for i := 0; i < e; i++ {
		r = mulCap(r, a)
		if r >= pathCap {
			return pathCap
		}
	}
	return r
}

// measure computes exact min/max member length and the path bound bottom-up.
func measure(n *Node) {
	for _, s := range n.Sub {
		measure(s)
	}
	switch n.Kind {
	case KEmpty, KSetFlags, KAssert:
		n.minLen, n.maxLen, n.paths = 0, 0, 1
	case KLit, KClass, KDot:
		n.minLen, n.maxLen, n.paths = 1, 1, 1
	case KCat:
		n.minLen, n.maxLen, n.paths = 0, 0, 1
		for _, s := range n.Sub {
			n.minLen += s.minLen
			if n.maxLen >= 0 {
				if s.maxLen < 0 {
					n.maxLen = -1
				} else {
					n.maxLen += s.maxLen
				}
			}
			n.paths = mulCap(n.paths, s.paths)
		}
	case KAlt:
		n.minLen, n.maxLen, n.paths = n.Sub[0].minLen, n.Sub[0].maxLen, 0
		for _, s := range n.Sub {
			if s.minLen < n.minLen {
				n.minLen = s.minLen
			}
			if n.maxLen >= 0 && (s.maxLen < 0 || s.maxLen > n.maxLen) {
				n.maxLen = s.maxLen
			}
			n.paths = addCap(n.paths, s.paths)
		}
	case KGroup:
		s := n.Sub[0]
		n.minLen, n.maxLen, n.paths = s.minLen, s.maxLen, s.paths
	case KRepeat:
		s := n.Sub[0]
		n.minLen = s.minLen * n.Min
		switch {
		case s.maxLen == 0:
			n.maxLen = 0
		case n.Max < 0:
			n.maxLen = -1
		case s.maxLen < 0:
			if n.Max == 0 {
				n.maxLen = 0
			} else {
				n.maxLen = -1
			}
		default:
			n.maxLen = s.maxLen * n.Max
		}
		// x{n,m} is expanded to n copies followed by m-n nested optional copies
		// (or by a loop); every optional level and the loop exit add one path
		p1 := addCap(s.paths, 1)
		if n.Max < 0 {
			n.paths = mulCap(powCap(s.paths, n.Min), p1)
		} else {
			n.paths = mulCap(powCap(s.paths, n.Min), powCap(p1, n.Max-n.Min))
		}
	}
}

// reducePaths lowers the counted repetition (or drops the alternation) that
// contributes most to the path bound; reports whether something changed.
func reducePaths(root *Node) bool {
	var best *Node
	bestGain := 1
	var walk func(n *Node)
	walk = func(n *Node) {
		switch n.Kind {
		case KRepeat:
			c := n.Max
			if c < n.Min {
				c = n.Min
			}
			if c >= 2 && n.Sub[0].paths >= 1 {
				gain := powCap(addCap(n.Sub[0].paths, 1), c-1)
				if gain > bestGain {
					best, bestGain = n, gain
				}
			}
		case KAlt:
			if len(n.Sub) > 2 && len(n.Sub) > bestGain {
				best, bestGain = n, len(n.Sub)
			}
		}
		for _, s := range n.Sub {
			walk(s)
		}
	}
	walk(root)
	if best == nil {
		return false
	}
	if best.Kind == KAlt {
		best.Sub = best.Sub[:2]
		return true
	}
	if best.Max > 1 {
		best.Max = (best.Max + 1) / 2
	}
	if best.Min > best.Max && best.Max >= 0 {
		best.Min = best.Max
	}
	if best.Max < 0 && best.Min > 1 {
		best.Min = (best.Min + 1) / 2
	}
	return true
}

// ---------------------------------------------------------------------------------------------
// queries

// MinLen is the exact minimal member length.
func (r *Regex) MinLen() int { return r.Root.minLen }

// MaxLen is the exact maximal member length; finite is false when members of
// unbounded length exist.
func (r *Regex) MaxLen() (n int, finite bool) {
	if r.Root.maxLen < 0 {
		return 0, false
	}
	return r.Root.maxLen, true
}

// Paths bounds the number of distinct paths through the compiled program.
func (r *Regex) Paths() int { return r.Root.paths }

func (n *Node) any(f func(*Node) bool) bool {
	if f(n) {
		return true
	}
	for _, s := range n.Sub {
		if s.any(f) {
			return true
		}
	}
	return false
}

// HasAssertion reports whether the tree contains an empty-width assertion.
func (r *Regex) HasAssertion() bool {
	return r.Root.any(func(n *Node) bool { return n.Kind == KAssert })
}

// HasFold reports whether some literal or class is matched case-insensitively.
func (r *Regex) HasFold() bool {
	return r.Root.any(func(n *Node) bool { return (n.Kind == KLit || n.Kind == KClass) && n.fold })
}

// Features returns labels describing the tree (sorted, without duplicates).
func (r *Regex) Features() []string {
	m := map[string]bool{}
	var walk func(n *Node, inRepeat int)
	walk = func(n *Node, inRepeat int) {
		switch n.Kind {
		case KEmpty:
			m["empty"] = true
		case KLit:
			m["lit"] = true
			if n.Byte >= 0x80 {
				m["lit-high"] = true
			}
			if n.fold {
				cnt := 0
				for _, v := range n.set {
					if v {
						cnt++
					}
				}
				if cnt > 1 {
					m["fold-cased-lit"] = true
				} else {
					m["fold-caseless-lit"] = true
				}
			}
		case KClass:
			m["class"] = true
			if n.Neg {
				m["class-neg"] = true
			}
			if n.fold {
				m["fold-class"] = true
			}
			cnt := 0
			for _, v := range n.set {
				if v {
					cnt++
				}
			}
			if cnt == 1 {
				m["class-single"] = true
			}
			if cnt == 2 {
				// the parser turns [Bb] into a case-folded literal
				mem := setMembers(n.set)
				if unicode.SimpleFold(rune(mem[0])) == rune(mem[1]) && unicode.SimpleFold(rune(mem[1])) == rune(mem[0]) {
					m["class-fold-pair"] = true
				}
			}
		case KDot:
			m["dot"] = true
			if n.dotall {
				m["dotall"] = true
			}
		case KAlt:
			m["alt"] = true
			for _, s := range n.Sub {
				if s.maxLen == 0 {
					m["alt-empty-branch"] = true
				}
			}
		case KRepeat:
			switch {
			case n.Max < 0 && n.Min == 0:
				m["star"] = true
			case n.Max < 0 && n.Min == 1:
				m["plus"] = true
			case n.Max < 0:
				m["{n,}"] = true
			case n.Min == 0 && n.Max == 1:
				m["quest"] = true
			case n.Min == n.Max:
				m["{n}"] = true
			default:
				m["{n,m}"] = true
			}
			if n.Lazy {
				m["lazy"] = true
			}
			if inRepeat > 0 {
				m["nested-repeat"] = true
			}
			if n.Max < 0 && n.Sub[0].minLen == 0 {
				m["loop-of-nullable"] = true
			}
			if n.Max < 0 && n.Sub[0].maxLen == 0 {
				m["loop-of-empty-only"] = true
			}
			inRepeat++
		case KGroup:
			m[[]string{"capture", "noncapture", "named", "flag-group"}[n.GKind]] = true
		case KSetFlags:
			m["setflags"] = true
		case KAssert:
			m["assert"] = true
		}
		for _, s := range n.Sub {
			walk(s, inRepeat)
		}
	}
	walk(r.Root, 0)
	out := make([]string, 0, len(m))
	for k := range m {
		out = append(out, k)
	}
	sort.Strings(out)
	return out
}

// ---------------------------------------------------------------------------------------------
// members

func setMembers(s *[256]bool) []byte {
	var out []byte
	for b := 0; b < 256; b++ {
		if s[b] {
			out = append(out, byte(b))
		}
	}
	return out
}

func (n *Node) extreme(longest bool, out []byte) []byte {
	switch n.Kind {
	case KLit, KClass, KDot:
		m := setMembers(n.set)
		if longest {
			return append(out, m[len(m)-1])
		}
		return append(out, m[0])
	case KCat:
		for _, s := range n.Sub {
			out = s.extreme(longest, out)
		}
	case KAlt:
		best := n.Sub[0]
		for _, s := range n.Sub[1:] {
			if longest && s.maxLen > best.maxLen || !longest && s.minLen < best.minLen {
				best = s
			}
		}
		return best.extreme(longest, out)
	case KGroup:
		return n.Sub[0].extreme(longest, out)
	case KRepeat:
		c := n.Min
		if longest {
			c = n.Max
		}
		for i := 0; i < c; i++ {
			out = n.Sub[0].extreme(longest, out)
		}
	}
	return out
}

// Shortest returns a member of length MinLen().
func (r *Regex) Shortest() []byte { return r.Root.extreme(false, []byte{}) }

// Longest returns a member of length MaxLen() when that is finite.
func (r *Regex) Longest() ([]byte, bool) {
	if r.Root.maxLen < 0 {
		return nil, false
	}
	return r.Root.extreme(true, []byte{}), true
}

// pump appends a member of n that is longer than target bytes; n must have
// unbounded members (maxLen < 0).
func (n *Node) pump(target int, out []byte) []byte {
	switch n.Kind {
	case KCat:
		done := false
		for _, s := range n.Sub {
			if !done && s.maxLen < 0 {
				out = s.pump(target, out)
				done = true
			} else {
				out = s.extreme(false, out)
			}
		}
	case KAlt:
		for _, s := range n.Sub {
			if s.maxLen < 0 {
				return s.pump(target, out)
			}
		}
	case KGroup:
		return n.Sub[0].pump(target, out)
	case KRepeat:
		s := n.Sub[0]
		if s.maxLen < 0 {
			out = s.pump(target, out)
			for i := 1; i < n.Min; i++ {
				out = s.extreme(false, out)
			}
			return out
		}
		c := n.Min + target/s.maxLen + 1
		for i := 0; i < c; i++ {
			out = s.extreme(true, out)
		}
	}
	return out
}

// Longer returns a member with more than n bytes; ok is false when the member
// lengths are bounded.
func (r *Regex) Longer(n int) (member []byte, ok bool) {
	if r.Root.maxLen >= 0 {
		return nil, false
	}
	return r.Root.pump(n, []byte{}), true
}

const sampleCap = 4096

func (n *Node) sample(t *rapid.T, label string, out []byte) []byte {
	if len(out) > sampleCap {
		// keep samples bounded: finish with the shortest continuation
		return n.extreme(false, out)
	}
	switch n.Kind {
	case KLit, KClass, KDot:
		m := setMembers(n.set)
		if len(m) == 1 {
			return append(out, m[0])
		}
		return append(out, m[Uniform(t, len(m), label+".b")])
	case KCat:
		for _, s := range n.Sub {
			out = s.sample(t, label, out)
		}
	case KAlt:
		return n.Sub[Uniform(t, len(n.Sub), label+".alt")].sample(t, label, out)
	case KGroup:
		return n.Sub[0].sample(t, label, out)
	case KRepeat:
		hi := n.Max
		if hi < 0 {
			hi = n.Min + 3
		}
		c := n.Min
		if hi > n.Min {
			c = n.Min + Uniform(t, hi-n.Min+1, label+".rep")
		}
		for i := 0; i < c; i++ {
			out = n.Sub[0].sample(t, label, out)
		}
	}
	return out
}

// Sample draws a random member through rapid.
func (r *Regex) Sample(t *rapid.T, label string) []byte {
	return r.Root.sample(t, label, []byte{})
}
