package bitmask

// C17 — bitmask containers behave like sets of integers.
// Model-based state machine: three registers, each holding the three
// representations next to a plain set model. See DESIGN.md §5 C17.

import (
	"fmt"
	"sort"
	"strings"
	"testing"

	"github.com/spq/pkappa2/internal/verif/vlib"
	"pgregory.net/rapid"
)

const c17MaxBit = 200
const c17Probe = 270

type c17Reg struct {
	model map[uint]bool
	conn  ConnectedBitmask
	long  LongBitmask
	short ShortBitmask
}

func c17NewReg() *c17Reg {
	return &c17Reg{model: map[uint]bool{}, short: MakeShortBitmask(0)}
}

func (r *c17Reg) sorted() []uint {
	s := make([]uint, 0, len(r.model))
	for b := range r.model {
		s = append(s, b)
	}
	sort.Slice(s, func(i, j int) bool { return s[i] < s[j] })
	return s
}

func (r *c17Reg) String() string {
	return fmt.Sprint(r.sorted())
}

func c17ModelCopy(m map[uint]bool) map[uint]bool {
	n := make(map[uint]bool, len(m))
	for k := range m {
		n[k] = true
	}
	return n
}

// c17Canon builds the run-list mask of a model bit by bit with Set, which is
// how the set would be built by a caller; Equal between it and any other
// run-list mask holding the same set must be true (observable behaviour, no
// peeking at the entries).
func c17Canon(sorted []uint) ConnectedBitmask {
	bm := ConnectedBitmask{}
	for _, b := range sorted {
		bm.Set(b)
	}
	return bm
}

func c17BitGen(regs []*c17Reg) *rapid.Generator[uint] {
	return rapid.Custom(func(t *rapid.T) uint {
		switch rapid.IntRange(0, 9).Draw(t, "bitkind") {
		case 0, 1:
			return uint(rapid.SampledFrom([]int{0, 1, 62, 63, 64, 65, 126, 127, 128, 129, 191, 192, 193}).Draw(t, "edge"))
		case 2, 3, 4:
			// next to an existing bit of some register
			r := regs[rapid.IntRange(0, len(regs)-1).Draw(t, "nreg")]
			s := r.sorted()
			if len(s) == 0 {
				return uint(rapid.IntRange(0, 8).Draw(t, "low"))
			}
			b := int(s[rapid.IntRange(0, len(s)-1).Draw(t, "idx")]) + rapid.IntRange(-2, 2).Draw(t, "delta")
			if b < 0 {
				b = 0
			}
			if b > c17MaxBit {
				b = c17MaxBit
			}
			return uint(b)
		case 5, 6:
			return uint(rapid.IntRange(0, 8).Draw(t, "low"))
		default:
			return uint(rapid.IntRange(0, c17MaxBit).Draw(t, "any"))
		}
	})
}

func c17CheckReg(name string, r *c17Reg) string {
	s := r.sorted()
	canon := c17Canon(s)
	if !r.conn.Equal(canon) || !canon.Equal(r.conn) {
		return fmt.Sprintf("%s connected: Equal with a mask holding the same set %v built by Set is false (runs %v vs %v)", name, s, r.conn.entries, canon.entries)
	}
	wantLen := 0
	if len(s) > 0 {
		wantLen = int(s[len(s)-1]) + 1
	}
	type rep struct {
		n     string
		isSet func(uint) bool
		ones  int
		ln    int
		zero  bool
	}
	reps := []rep{
		{"connected", r.conn.IsSet, r.conn.OnesCount(), r.conn.Len(), r.conn.IsZero()},
		{"long", r.long.IsSet, r.long.OnesCount(), r.long.Len(), r.long.IsZero()},
		{"short", r.short.IsSet, r.short.OnesCount(), r.short.Len(), r.short.IsZero()},
	}
	for _, p := range reps {
		for b := uint(0); b < c17Probe; b++ {
			if p.isSet(b) != r.model[b] {
				return fmt.Sprintf("%s %s: IsSet(%d)=%v, model %v (model set %v)", name, p.n, b, p.isSet(b), r.model[b], r)
			}
		}
		if p.ones != len(s) {
			return fmt.Sprintf("%s %s: OnesCount=%d, model %d (model set %v)", name, p.n, p.ones, len(s), r)
		}
		if p.ln != wantLen {
			return fmt.Sprintf("%s %s: Len=%d, model %d (model set %v)", name, p.n, p.ln, wantLen, r)
		}
		if p.zero != (len(s) == 0) {
			return fmt.Sprintf("%s %s: IsZero=%v, model set %v", name, p.n, p.zero, r)
		}
	}
	// Next enumeration of the word-array mask
	var got []uint
	for b := uint(0); r.long.Next(&b); b++ {
		got = append(got, b)
		if len(got) > len(s)+2 {
			break
		}
	}
	if fmt.Sprint(got) != fmt.Sprint(s) {
		return fmt.Sprintf("%s long: Next enumerates %v, model %v", name, got, s)
	}
	return ""
}

// c17XorTouches reports whether the symmetric difference has two neighbouring
// set bits x, x+1 that stem from different operands or from a cancelled
// overlap boundary, i.e. whether the result has runs that the run-list Xor
// would have to merge.
func c17XorTouches(a, b map[uint]bool) bool {
	for x := uint(0); x <= c17Probe; x++ {
		rx := a[x] != b[x]
		ry := a[x+1] != b[x+1]
		if rx && ry && !(a[x] && a[x+1] && !b[x] && !b[x+1]) && !(b[x] && b[x+1] && !a[x] && !a[x+1]) {
			return true
		}
	}
	return false
}

func c17ModelEqual(a, b map[uint]bool) bool {
	if len(a) != len(b) {
		return false
	}
	for k := range a {
		if !b[k] {
			return false
		}
	}
	return true
}

func c17Prop(rt *rapid.T, c *vlib.Case, exclude map[string]bool) {
	regs := []*c17Reg{c17NewReg(), c17NewReg(), c17NewReg()}
	var hist []string
	kinds := map[string]bool{}
	c.Render(func() any { return hist })
	log := func(f string, a ...any) {
		s := fmt.Sprintf(f, a...)
		hist = append(hist, s)
		kinds[strings.SplitN(s, " ", 2)[0]] = true
	}
	regIdx := rapid.IntRange(0, 2)
	bit := c17BitGen(regs)
	excluded := 0

	actions := map[string]func(*rapid.T){
		"set": func(t *rapid.T) {
			i, b := regIdx.Draw(t, "r"), bit.Draw(t, "b")
			r := regs[i]
			log("set r%d %d", i, b)
			r.model[b] = true
			r.conn.Set(b)
			r.long.Set(b)
			r.short.Set(b)
		},
		"setrun": func(t *rapid.T) {
			i, b := regIdx.Draw(t, "r"), bit.Draw(t, "b")
			n := uint(rapid.IntRange(2, 70).Draw(t, "n"))
			r := regs[i]
			log("setrun r%d %d+%d", i, b, n)
			for x := b; x < b+n && x <= c17MaxBit; x++ {
				r.model[x] = true
				r.conn.Set(x)
				r.long.Set(x)
				r.short.Set(x)
			}
		},
		"unset": func(t *rapid.T) {
			i, b := regIdx.Draw(t, "r"), bit.Draw(t, "b")
			r := regs[i]
			log("unset r%d %d", i, b)
			delete(r.model, b)
			r.conn.Unset(b)
			r.long.Unset(b)
			r.short.Unset(b)
		},
		"flip": func(t *rapid.T) {
			i, b := regIdx.Draw(t, "r"), bit.Draw(t, "b")
			r := regs[i]
			log("flip r%d %d", i, b)
			if r.model[b] {
				delete(r.model, b)
			} else {
				r.model[b] = true
			}
			r.conn.Flip(b)
			r.long.Flip(b)
			r.short.Flip(b)
		},
		"binop": func(t *rapid.T) {
			op := rapid.SampledFrom([]string{"or", "and", "sub", "xor"}).Draw(t, "op")
			i, j := regIdx.Draw(t, "dst"), regIdx.Draw(t, "src")
			if i == j {
				// x op x through the in-place methods aliases both operands;
				// callers in pkappa2 never do that with the same object, use a copy
				j = (i + 1) % 3
			}
			inplace := rapid.Bool().Draw(t, "inplace")
			a, b := regs[i], regs[j]
			m := map[uint]bool{}
			for x := uint(0); x <= c17Probe; x++ {
				var v bool
				switch op {
				case "or":
					v = a.model[x] || b.model[x]
				case "and":
					v = a.model[x] && b.model[x]
				case "sub":
					v = a.model[x] && !b.model[x]
				case "xor":
					v = a.model[x] != b.model[x]
				}
				if v {
					m[x] = true
				}
			}
			if op == "xor" && exclude["F-C17-xor-adjacent-runs"] && c17XorTouches(a.model, b.model) {
				excluded++
				t.Skip("open finding: xor leaves touching runs unmerged")
			}
			log("%s r%d r%d inplace=%v", op, i, j, inplace)
			if inplace {
				switch op {
				case "or":
					a.conn.Or(b.conn)
					a.long.Or(b.long)
					a.short.Or(b.short)
				case "and":
					a.conn.And(b.conn)
					a.long.And(b.long)
					a.short.And(b.short)
				case "sub":
					a.conn.Sub(b.conn)
					a.long.Sub(b.long)
					a.short.Sub(b.short)
				case "xor":
					a.conn.Xor(b.conn)
					a.long.Xor(b.long)
					a.short.Xor(b.short)
				}
				a.model = m
			} else {
				// result goes to the third register; operands must stay intact
				k := 3 - i - j
				d := regs[k]
				switch op {
				case "or":
					d.conn, d.long, d.short = a.conn.OrCopy(b.conn), a.long.OrCopy(b.long), a.short.OrCopy(b.short)
				case "and":
					d.conn, d.long, d.short = a.conn.AndCopy(b.conn), a.long.AndCopy(b.long), a.short.AndCopy(b.short)
				case "sub":
					d.conn, d.long, d.short = a.conn.SubCopy(b.conn), a.long.SubCopy(b.long), a.short.SubCopy(b.short)
				case "xor":
					d.conn, d.long, d.short = a.conn.XorCopy(b.conn), a.long.XorCopy(b.long), a.short.XorCopy(b.short)
				}
				d.model = m
			}
		},
		"copy": func(t *rapid.T) {
			i, j := regIdx.Draw(t, "dst"), regIdx.Draw(t, "src")
			if i == j {
				t.Skip("same register")
			}
			log("copy r%d r%d", i, j)
			regs[i].model = c17ModelCopy(regs[j].model)
			regs[i].conn = regs[j].conn.Copy()
			regs[i].long = regs[j].long.Copy()
			regs[i].short = regs[j].short.Copy()
		},
		"shrink": func(t *rapid.T) {
			i := regIdx.Draw(t, "r")
			log("shrink r%d", i)
			regs[i].long.Shrink()
			regs[i].short.Shrink()
		},
		"inject": func(t *rapid.T) {
			i, b, v := regIdx.Draw(t, "r"), bit.Draw(t, "b"), rapid.Bool().Draw(t, "v")
			r := regs[i]
			log("inject r%d %d %v", i, b, v)
			m := map[uint]bool{}
			for x := range r.model {
				if x >= b {
					m[x+1] = true
				} else {
					m[x] = true
				}
			}
			if v {
				m[b] = true
			}
			r.model = m
			r.conn.Inject(b, v)
			r.long.Inject(b, v)
			r.short.Inject(b, v)
		},
		"extract": func(t *rapid.T) {
			i, b := regIdx.Draw(t, "r"), bit.Draw(t, "b")
			r := regs[i]
			if exclude["F-C17-extract-run-ending-at-0"] && b == 0 && r.model[0] && !r.model[1] {
				excluded++
				t.Skip("open finding: Extract(0) on a run ending at bit 0")
			}
			log("extract r%d %d", i, b)
			want := r.model[b]
			m := map[uint]bool{}
			for x := range r.model {
				if x > b {
					m[x-1] = true
				} else if x < b {
					m[x] = true
				}
			}
			r.model = m
			gc := r.conn.Extract(b)
			gs := r.short.Extract(b)
			if gc != want {
				t.Fatalf("connected Extract(%d) returned %v, model %v", b, gc, want)
			}
			if gs != want {
				t.Fatalf("short Extract(%d) returned %v, model %v", b, gs, want)
			}
			// the word-array type has no Extract: rebuild it from the model
			r.long = LongBitmask{}
			for x := range m {
				r.long.Set(x)
			}
		},
		"": func(t *rapid.T) {
			for i, r := range regs {
				if msg := c17CheckReg(fmt.Sprintf("r%d", i), r); msg != "" {
					t.Fatalf("%s", msg)
				}
			}
			for i := 0; i < 3; i++ {
				for j := 0; j < 3; j++ {
					want := c17ModelEqual(regs[i].model, regs[j].model)
					if got := regs[i].conn.Equal(regs[j].conn); got != want {
						t.Fatalf("connected Equal(r%d,r%d)=%v, model %v: %v vs %v", i, j, got, want, regs[i], regs[j])
					}
					if got := regs[i].long.Equal(regs[j].long); got != want {
						t.Fatalf("long Equal(r%d,r%d)=%v, model %v: %v vs %v", i, j, got, want, regs[i], regs[j])
					}
					if got := regs[i].short.Equal(regs[j].short); got != want {
						t.Fatalf("short Equal(r%d,r%d)=%v, model %v: %v vs %v", i, j, got, want, regs[i], regs[j])
					}
				}
			}
		},
	}
	rt.Repeat(actions)
	c.Count("operations", len(hist))
	c.Count("excluded_known", excluded)
	for k := range kinds {
		c.Label("op:" + k)
	}
	chained := kinds["inject"] || kinds["extract"] || kinds["or"] || kinds["and"] || kinds["sub"] || kinds["xor"]
	if len(hist) >= 4 && chained {
		c.NonTrivial(strings.Join(hist, ";"))
	}
}

func TestVerifC17(t *testing.T) {
	ex := vlib.OpenFindings()
	vlib.Check(t, "C17", func(rt *rapid.T, c *vlib.Case) { c17Prop(rt, c, ex) })
}

// Known-finding probe / regression: Extract on a run that ends at bit 0.
func TestVerifC17Fixed(t *testing.T) {
	vlib.Fixed(t, "C17", []string{"F-C17-extract-run-ending-at-0", "F-C17-xor-adjacent-runs"}, func(name string) (string, any) {
		switch name {
		case "F-C17-extract-run-ending-at-0":
			bm := MakeConnectedBitmask(0, 0)
			got := bm.Extract(0)
			if !got {
				return "Extract(0) on {0} returned false", "connected {0}.Extract(0)"
			}
			if !bm.IsZero() || bm.OnesCount() != 0 || bm.IsSet(5) {
				return fmt.Sprintf("after Extract(0) on {0} the mask is %v, want empty", bm.entries), "connected {0}.Extract(0)"
			}
			bm = MakeConnectedBitmask(0, 0)
			bm.Set(2)
			bm.Extract(0)
			if bm.Len() != 2 || bm.OnesCount() != 1 {
				return fmt.Sprintf("after Extract(0) on {0,2} the mask is %v, want {1}", bm.entries), "connected {0,2}.Extract(0)"
			}
		case "F-C17-xor-adjacent-runs":
			x := MakeConnectedBitmask(0, 0).XorCopy(MakeConnectedBitmask(1, 1))
			if !x.Equal(MakeConnectedBitmask(0, 1)) {
				return fmt.Sprintf("{0} xor {1} = runs %v, not Equal to {0,1}", x.entries), "connected {0} xor {1}"
			}
			// overlap that cancels the middle: {0..5} xor {2..3} = {0,1},{4,5}; then xor {2..3} again = {0..5}
			y := MakeConnectedBitmask(0, 5).XorCopy(MakeConnectedBitmask(2, 3)).XorCopy(MakeConnectedBitmask(2, 3))
			if !y.Equal(MakeConnectedBitmask(0, 5)) {
				return fmt.Sprintf("{0..5} xor {2,3} xor {2,3} = runs %v, not Equal to {0..5}", y.entries), "connected xor twice"
			}
		}
		return "", nil
	})
}
