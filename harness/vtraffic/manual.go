package vtraffic

// manual.go: hand-written scenarios (fixed reproducers). Packets are captured
// in the order of the calls; the caller is responsible for well-formedness.
//
//	m := vtraffic.NewManual(1600000000000000)
//	c := m.TCP(vtraffic.Endpoint{IP: net.IPv4(10,0,0,1).To4(), Port: 40000}, vtraffic.Endpoint{...}, 1000, 5000, 1)
//	c.Syn(); c.SynAck(); c.Ack(vtraffic.C2S)
//	b := c.Flight(vtraffic.C2S, 10)   // declares 10 bytes of ground truth, returns their offset
//	m.Cut()                            // next packet starts a new capture file
//	c.Seg(vtraffic.C2S, b, 10)
//	s := m.Finish()

import (
	"fmt"

	"github.com/gopacket/gopacket/layers"
)

// Manual builds a Scenario call by call.
type Manual struct {
	s      *Scenario
	now    int64
	gap    int64
	cuts   []int
	names  []string
	seeds  []*prng
	first  bool
	LinkTy layers.LinkType
}

// NewManual starts a scenario whose first packet is captured at baseUS.
func NewManual(baseUS int64) *Manual {
	return &Manual{s: &Scenario{}, now: baseUS, gap: 1000, first: true, LinkTy: layers.LinkTypeEthernet}
}

// Gap sets the time between the previous and the next packet (sticky; default 1000 us).
func (m *Manual) Gap(us int64) { m.gap = us }

// Cut makes the next packet the first one of a new capture file.
func (m *Manual) Cut() {
	if n := len(m.s.Packets); n > 0 && (len(m.cuts) == 0 || m.cuts[len(m.cuts)-1] != n) {
		m.cuts = append(m.cuts, n)
	}
}

// Names sets the capture file names (chronological order); default capa_0.pcap, capb_1.pcap, ...
func (m *Manual) Names(names ...string) { m.names = names }

func (m *Manual) emit(p *Packet) *Packet {
	if !m.first {
		m.now += m.gap
	}
	m.first = false
	p.TimeUS = m.now
	m.s.Packets = append(m.s.Packets, p)
	return p
}

func (m *Manual) conv(proto string, client, server Endpoint, seed uint64) *Conversation {
	c := &Conversation{Index: len(m.s.Conversations), Proto: proto, IPv6: client.IP.To4() == nil, Client: client, Server: server}
	m.s.Conversations = append(m.s.Conversations, c)
	m.seeds = append(m.seeds, newPrng(seed))
	return c
}

// ManualTCP is one hand-written TCP connection.
type ManualTCP struct {
	m *Manual
	f *tcpFlow
}

// TCP adds a TCP connection.
func (m *Manual) TCP(client, server Endpoint, isnC, isnS uint32, seed uint64) *ManualTCP {
	c := m.conv("TCP", client, server, seed)
	c.ISN = [2]uint32{isnC, isnS}
	return &ManualTCP{m, &tcpFlow{c: c}}
}

func (c *ManualTCP) Syn() *Packet        { return c.m.emit(c.f.syn()) }
func (c *ManualTCP) SynAck() *Packet     { return c.m.emit(c.f.synack()) }
func (c *ManualTCP) Ack(dir int) *Packet { return c.m.emit(c.f.ack(dir, -1)) }
func (c *ManualTCP) Fin(dir int) *Packet { return c.m.emit(c.f.finPkt(dir)) }
func (c *ManualTCP) Rst(dir int) *Packet { return c.m.emit(c.f.rst(dir, true)) }

// Flight declares n bytes of payload sent by dir and returns their offset.
func (c *ManualTCP) Flight(dir, n int) int {
	return c.f.addFlight(dir, c.m.seeds[c.f.c.Index].bytes(n))
}

// Seg captures an original segment carrying bytes [off, off+n) of dir.
func (c *ManualTCP) Seg(dir, off, n int) *Packet { return c.m.emit(c.f.seg(dir, off, n, "data")) }

// Rexmit captures a retransmission of bytes [off, off+n) of dir.
func (c *ManualTCP) Rexmit(dir, off, n int) *Packet {
	return c.m.emit(c.f.seg(dir, off, n, "rexmit"))
}

// Conversation returns the ground truth record.
func (c *ManualTCP) Conversation() *Conversation { return c.f.c }

// ManualUDP is one hand-written UDP flow.
type ManualUDP struct {
	m *Manual
	u *udpFlow
}

// UDP adds a UDP flow.
func (m *Manual) UDP(client, server Endpoint, seed uint64) *ManualUDP {
	return &ManualUDP{m, &udpFlow{c: m.conv("UDP", client, server, seed)}}
}

// Datagram captures a datagram of n payload bytes.
func (u *ManualUDP) Datagram(dir, n int) *Packet {
	return u.m.emit(u.u.datagram(dir, u.m.seeds[u.u.c.Index].bytes(n)))
}

// Finish cuts the packet sequence into capture files and returns the scenario.
func (m *Manual) Finish() *Scenario {
	s := m.s
	for _, c := range s.Conversations {
		if c.Proto == "TCP" {
			(&tcpFlow{c: c}).finishFeatures()
		}
	}
	pos := append(append([]int{0}, m.cuts...), len(s.Packets))
	s.Captures = nil
	for ci := 0; ci+1 < len(pos); ci++ {
		if pos[ci] == pos[ci+1] {
			continue
		}
		cp := &Capture{Packets: s.Packets[pos[ci]:pos[ci+1]], LinkType: m.LinkTy}
		idx := len(s.Captures)
		for i, p := range cp.Packets {
			p.Capture, p.Index = idx, i
		}
		if idx < len(m.names) {
			cp.Name = m.names[idx]
		} else {
			cp.Name = fmt.Sprintf("cap%c_%d.pcap", 'a'+idx, idx)
		}
		s.Captures = append(s.Captures, cp)
	}
	return s
}

func (f *tcpFlow) finishFeatures() {
	for _, p := range f.c.flow {
		if p.FIN {
			f.fin[p.Dir] = true
		}
	}
	f.finish()
}
