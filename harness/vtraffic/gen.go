package vtraffic

// gen.go: the rapid generator. Every choice is drawn from rapid (payload bytes
// are expanded from a drawn 64-bit seed).

import (
	"fmt"
	"net"
	"sort"

	"github.com/gopacket/gopacket/layers"
	"pgregory.net/rapid"
)

// Config bounds the generated space.
type Config struct {
	MinConversations int
	MaxConversations int
	MaxFlights       int  // per TCP connection
	MaxFlightBytes   int  // largest flight
	MaxDatagrams     int  // per UDP flow
	MaxCaptures      int  // capture files per scenario
	MinCaptures      int  // at least this many capture files (if there are that many packets)
	LongGaps         bool // allow gaps of seconds to minutes between packets (scenarios longer than the importer's 5 min idle timeout)
	MinPackets       int  // keep adding conversations (beyond MaxConversations) until the scenario has this many packets
	OverlapPercent   int  // share of scenarios whose capture files overlap in time (several sensors), see layoutSensors
	EqualStampPercent int // share of packet pairs of different conversations that get the same timestamp
	FragmentPercent   int // share of IPv4 packets with at least 16 bytes behind the IP header that are captured as IP fragments
	SlowPercent      int  // share of scenarios in which about a quarter of the gaps between packets are 1-4 minutes (flows lasting longer than the importer's 5 min timeouts without ever idling that long); needs LongGaps

	// AvoidSeqWrapDisorder steers away from TCP connections that combine sequence
	// numbers wrapping around 2^32 with reordered or retransmitted segments (the
	// initial sequence numbers of such a connection are moved below the wrap;
	// Scenario.Steered counts them). Used while a finding about that shape is open.
	AvoidSeqWrapDisorder bool

	// AvoidCutAfterSecondFin never cuts the packet sequence between the second FIN
	// (or the RST answering a FIN) of a TCP connection and the packets of that
	// connection that follow it (Scenario.SteeredCuts counts moved cuts).
	AvoidCutAfterSecondFin bool
}

// DefaultConfig is the space of DESIGN.md §4.2 / C05.
func DefaultConfig() Config {
	return Config{MinConversations: 1, MaxConversations: 8, MaxFlights: 6, MaxFlightBytes: 30000, MaxDatagrams: 10, MaxCaptures: 5, LongGaps: true, OverlapPercent: 38, SlowPercent: 30, EqualStampPercent: 6, FragmentPercent: 4}
}

// LargeConfig yields scenarios of at least minPackets packets (real-size captures).
func LargeConfig(minPackets int) Config {
	return Config{MinConversations: 40, MaxConversations: 80, MaxFlights: 60, MaxFlightBytes: 60000, MaxDatagrams: 200, MinCaptures: 2, MaxCaptures: 3, LongGaps: false, MinPackets: minPackets, OverlapPercent: 30}
}

const (
	// two consecutive packets of one conversation are at most this far apart
	maxFlowGapUS = 4*60*1000000 - 2000000
	maxSegment   = 9000
)

var v4Pool = []net.IP{net.IPv4(10, 0, 0, 1).To4(), net.IPv4(10, 0, 0, 2).To4(), net.IPv4(192, 168, 1, 10).To4(), net.IPv4(172, 16, 5, 4).To4(), net.IPv4(8, 8, 8, 8).To4(), net.IPv4(255, 255, 255, 254).To4()}
var v6Pool = []net.IP{net.ParseIP("fd00::1"), net.ParseIP("fd00::2"), net.ParseIP("2001:db8::10"), net.ParseIP("2001:db8:ffff::1"), net.ParseIP("fe80::1:2:3:4")}
var serverPorts = []int{80, 443, 53, 8080, 22, 1, 65535}

// percent is true with probability p/100 (in steps of 1/64). rapid's integer
// generators favour small values, so the decision is assembled from fair bits.
func percent(t *rapid.T, label string, p int) bool {
	v := 0
	for i := 0; i < 6; i++ {
		v <<= 1
		if rapid.Bool().Draw(t, label) {
			v |= 1
		}
	}
	return v*100 < p*64
}

// Gen returns the scenario generator.
func Gen(cfg Config) *rapid.Generator[*Scenario] {
	return rapid.Custom(func(t *rapid.T) *Scenario { return gen(t, cfg) })
}

// GenFromSeed draws one seed and expands it with Gen(cfg).Example(seed): the
// same generator and distribution, but the test's own recorded draw sequence
// stays short. For real-size scenarios (millions of draws), where rapid's
// shrinker would spend minutes pruning the draw log before its first attempt.
func GenFromSeed(cfg Config) *rapid.Generator[*Scenario] {
	return rapid.Custom(func(t *rapid.T) *Scenario {
		seed := rapid.IntRange(1, 1<<40).Draw(t, "scenario seed")
		return Gen(cfg).Example(seed)
	})
}

func gen(t *rapid.T, cfg Config) *Scenario {
	s := &Scenario{}
	n := rapid.IntRange(cfg.MinConversations, cfg.MaxConversations).Draw(t, "conversations")
	keys := map[string]bool{}
	total := 0
	for i := 0; i < n || total < cfg.MinPackets; i++ {
		c := &Conversation{Index: i}
		if rapid.IntRange(0, 99).Draw(t, "proto") < 65 {
			c.Proto = "TCP"
		} else {
			c.Proto = "UDP"
		}
		c.IPv6 = rapid.IntRange(0, 99).Draw(t, "family") < 35
		pool := v4Pool
		if c.IPv6 {
			pool = v6Pool
		}
		ci := rapid.IntRange(0, len(pool)-1).Draw(t, "client host")
		si := ci // both endpoints on one host (1 of 20)
		if rapid.IntRange(0, 19).Draw(t, "same host") != 0 {
			si = rapid.IntRange(0, len(pool)-2).Draw(t, "server host")
			if si >= ci {
				si++
			}
		}
		c.Client.IP, c.Server.IP = pool[ci], pool[si]
		if rapid.Bool().Draw(t, "well known port") {
			c.Server.Port = uint16(rapid.SampledFrom(serverPorts).Draw(t, "server port"))
		} else {
			c.Server.Port = uint16(rapid.IntRange(1, 65535).Draw(t, "server port"))
		}
		if rapid.IntRange(0, 3).Draw(t, "client port pool") == 0 {
			c.Client.Port = uint16(40000 + rapid.IntRange(0, 2).Draw(t, "client port"))
		} else {
			c.Client.Port = uint16(rapid.IntRange(1024, 65535).Draw(t, "client port"))
		}
		// UDP flows between the same two hosts whose port pairs have the same XOR share a bucket of the flow table
		if c.Proto == "UDP" && percent(t, "udp bucket mate", 50) {
			for _, prev := range s.Conversations {
				if prev.Proto == "UDP" && prev.IPv6 == c.IPv6 {
					k := uint16(rapid.IntRange(1, 3).Draw(t, "bucket mate xor"))
					c.Client.IP, c.Server.IP = prev.Client.IP, prev.Server.IP
					c.Client.Port, c.Server.Port = prev.Client.Port^k, prev.Server.Port^k
					if rapid.Bool().Draw(t, "bucket mate swapped") {
						c.Client, c.Server = c.Server, c.Client
					}
					c.Feat.BucketMate = true
					break
				}
			}
		}
		// unique 5-tuples, also when orientation is ignored (by construction)
		for keys[c.Key()] || (c.Client.IP.Equal(c.Server.IP) && c.Client.Port == c.Server.Port) {
			c.Client.Port++
			if c.Client.Port < 1024 {
				c.Client.Port = 1024
			}
		}
		keys[c.Key()] = true
		if c.Proto == "TCP" {
			genTCP(t, c, cfg)
		} else {
			genUDP(t, c, cfg)
		}
		total += len(c.flow)
		if c.steered {
			s.Steered++
		}
		s.Conversations = append(s.Conversations, c)
	}
	s.Packets = interleave(t, s.Conversations, total)
	stamp(t, s, cfg)
	if len(s.Packets) >= 2 && percent(t, "capture layout", cfg.OverlapPercent) {
		layoutSensors(t, s, cfg)
	} else {
		cut(t, s, cfg)
	}
	return s
}

func drawISN(t *rapid.T, label string) uint32 {
	switch k := rapid.IntRange(0, 19).Draw(t, label+" class"); {
	case k < 11:
		return rapid.Uint32().Draw(t, label)
	case k < 17:
		return 0xffffffff - uint32(rapid.IntRange(0, 20000).Draw(t, label+" below wrap"))
	case k < 18:
		return 0xffffffff
	case k < 19:
		return 0xfffffffe
	default:
		return 0
	}
}

func drawFlightSize(t *rapid.T, cfg Config) int {
	switch k := rapid.IntRange(0, 19).Draw(t, "flight size class"); {
	case k < 7:
		return rapid.IntRange(1, 16).Draw(t, "flight size")
	case k < 14:
		return rapid.IntRange(17, 300).Draw(t, "flight size")
	case k < 18:
		return rapid.IntRange(301, 3000).Draw(t, "flight size")
	default:
		return rapid.IntRange(3001, max(3001, cfg.MaxFlightBytes)).Draw(t, "flight size")
	}
}

type piece struct{ off, n int }

// cutSegments cuts [base, base+size) into segments of 1..9000 bytes.
func cutSegments(t *rapid.T, base, size int) []piece {
	var mss int
	switch k := rapid.IntRange(0, 9).Draw(t, "mss class"); {
	case k < 2 && size <= 64:
		mss = rapid.IntRange(1, 8).Draw(t, "mss")
	case k < 4:
		mss = rapid.IntRange(9, 100).Draw(t, "mss")
	case k < 6:
		mss = 536
	case k < 9:
		mss = 1460
	default:
		mss = maxSegment
	}
	if size/mss > 40 {
		mss = (size + 39) / 40
	}
	if mss > maxSegment {
		mss = maxSegment
	}
	uniform := rapid.IntRange(0, 2).Draw(t, "uniform segments") != 0
	var out []piece
	for off := 0; off < size; {
		n := mss
		if !uniform {
			n = rapid.IntRange(1, mss).Draw(t, "segment size")
		}
		if n > size-off {
			n = size - off
		}
		out = append(out, piece{base + off, n})
		off += n
	}
	return out
}

// covered returns the maximal interval of bytes containing [off, off+n) that is
// covered by the given pieces.
func covered(pieces []piece, off, n int) (int, int) {
	ps := append([]piece(nil), pieces...)
	sort.Slice(ps, func(i, j int) bool { return ps[i].off < ps[j].off })
	a, b := -1, -1
	for _, p := range ps {
		if a < 0 || p.off > b {
			if a >= 0 && a <= off && off+n <= b {
				return a, b
			}
			a, b = p.off, p.off+p.n
		} else if p.off+p.n > b {
			b = p.off + p.n
		}
	}
	if a >= 0 && a <= off && off+n <= b {
		return a, b
	}
	return off, off + n
}

// prefixEnd returns the end of the contiguous run of covered bytes starting at base.
func prefixEnd(pieces []piece, base int) int {
	_, b := covered(append([]piece{{base, 0}}, pieces...), base, 0)
	return b
}

type wireItem struct {
	kind string // data, rexmit, ack
	dir  int
	piece
}

func genTCP(t *rapid.T, c *Conversation, cfg Config) {
	f := &tcpFlow{c: c}
	c.ISN[C2S] = drawISN(t, "client isn")
	c.ISN[S2C] = drawISN(t, "server isn")
	pr := newPrng(rapid.Uint64().Draw(t, "payload seed"))
	nfl := 0
	switch k := rapid.IntRange(0, 9).Draw(t, "flights class"); {
	case k == 0:
		nfl = 0
	case k < 7:
		nfl = rapid.IntRange(1, min(4, cfg.MaxFlights)).Draw(t, "flights")
	default:
		nfl = rapid.IntRange(1, cfg.MaxFlights).Draw(t, "flights")
	}
	dir := C2S
	if rapid.IntRange(0, 3).Draw(t, "server speaks first") == 0 {
		dir = S2C
	}
	hs := rapid.IntRange(0, 19).Draw(t, "handshake variant")
	f.syn()
	if hs == 0 {
		f.syn()
		c.Feat.HsRexmit = true
	}
	f.synack()
	if hs == 1 {
		f.synack()
		c.Feat.HsRexmit = true
	}
	if (hs == 2 || hs == 3) && nfl > 0 && dir == C2S {
		c.Feat.NoThirdAck = true
	} else {
		f.ack(C2S, -1)
	}

	var late []wireItem // retransmissions captured after the peer has answered
	lastDataOrigIsFinal := false
	for i := 0; i < nfl; i++ {
		if i > 0 && rapid.IntRange(0, 9).Draw(t, "same direction again") != 0 {
			dir = 1 - dir
		}
		size := drawFlightSize(t, cfg)
		// now and then one flight of a connection is captured as hundreds of tiny segments with one of the first
		// segments far behind its place (several hundred segments wait for it)
		deep := !c.Feat.DeepReorder && percent(t, "deep reorder", 2)
		if deep {
			size = rapid.IntRange(270, 640).Draw(t, "deep flight size")
		}
		base := f.addFlight(dir, pr.bytes(size))
		segs := cutSegments(t, base, size)
		if deep {
			segs = segs[:0]
			for off := 0; off < size; off++ {
				segs = append(segs, piece{base + off, 1})
			}
			from := rapid.IntRange(0, 3).Draw(t, "deep displaced segment")
			to := rapid.IntRange(from+257, size-1).Draw(t, "deep displaced to")
			moved := segs[from]
			copy(segs[from:to], segs[from+1:to+1])
			segs[to] = moved
			c.Feat.Reordered, c.Feat.DeepReorder = true, true
		}
		// bounded reordering inside the flight
		if !deep && len(segs) >= 2 && rapid.IntRange(0, 9).Draw(t, "reorder") < 4 {
			type ks struct {
				key int
				p   piece
			}
			tmp := make([]ks, len(segs))
			for j, p := range segs {
				tmp[j] = ks{j + rapid.IntRange(0, 3).Draw(t, "displacement"), p}
			}
			sort.SliceStable(tmp, func(a, b int) bool { return tmp[a].key < tmp[b].key })
			for j := range tmp {
				if tmp[j].p != segs[j] {
					c.Feat.Reordered = true
				}
				segs[j] = tmp[j].p
			}
		}
		items := make([]wireItem, 0, len(segs)+4)
		for _, p := range segs {
			items = append(items, wireItem{"data", dir, p})
		}
		// retransmissions: after the original, only bytes already captured
		nrex := 0
		switch k := rapid.IntRange(0, 19).Draw(t, "retransmissions class"); {
		case k < 13:
		case k < 17:
			nrex = 1
		default:
			nrex = rapid.IntRange(2, 3).Draw(t, "retransmissions")
		}
		type ins struct {
			before int // index into segs the retransmission is captured before (len(segs) = after all)
			it     wireItem
		}
		var inserts []ins
		for r := 0; r < nrex; r++ {
			j := rapid.IntRange(0, len(segs)-1).Draw(t, "retransmitted segment")
			before := j + 1 + rapid.IntRange(0, 3).Draw(t, "retransmission distance")
			isLate := i+1 < nfl && rapid.IntRange(0, 5).Draw(t, "late retransmission") == 0
			if before > len(segs) || isLate {
				before = len(segs)
			}
			a, b := covered(segs[:before], segs[j].off, segs[j].n)
			x, y := segs[j].off, segs[j].off+segs[j].n
			switch rapid.IntRange(0, 3).Draw(t, "retransmission kind") {
			case 2: // other boundaries, may reach into the neighbours
				x = rapid.IntRange(max(a, x-2000), x).Draw(t, "rexmit start")
				y = rapid.IntRange(y, min(b, y+2000)).Draw(t, "rexmit end")
			case 3: // a part of the segment
				if y-x >= 2 {
					if rapid.Bool().Draw(t, "rexmit head") {
						y = rapid.IntRange(x+1, y-1).Draw(t, "rexmit end")
					} else {
						x = rapid.IntRange(x+1, y-1).Draw(t, "rexmit start")
					}
				}
			}
			if y-x > maxSegment {
				y = x + maxSegment
			}
			if x == segs[j].off && y == segs[j].off+segs[j].n {
				c.Feat.Retransmitted = true
			} else {
				c.Feat.Resegmented = true
			}
			it := wireItem{"rexmit", dir, piece{x, y - x}}
			if isLate {
				late = append(late, it)
				c.Feat.LateRexmit = true
			} else {
				inserts = append(inserts, ins{before, it})
			}
		}
		if len(inserts) > 0 {
			sort.SliceStable(inserts, func(a, b int) bool { return inserts[a].before < inserts[b].before })
			merged := make([]wireItem, 0, len(items)+len(inserts))
			k := 0
			for j := 0; j <= len(segs); j++ {
				for k < len(inserts) && inserts[k].before == j {
					merged = append(merged, inserts[k].it)
					k++
				}
				if j < len(segs) {
					merged = append(merged, items[j])
				}
			}
			items = merged
		}
		// late retransmissions of earlier flights land somewhere in this one
		if len(late) > 0 && i > 0 {
			keep := late[:0]
			for _, it := range late {
				if it.off >= base && it.dir == dir {
					keep = append(keep, it) // belongs to this very flight: wait for the next one
					continue
				}
				pos := rapid.IntRange(0, len(items)).Draw(t, "late position")
				items = append(items[:pos], append([]wireItem{it}, items[pos:]...)...)
			}
			late = keep
		}
		// payload-less ACKs of the receiver
		for a := rapid.IntRange(0, 8).Draw(t, "pure acks"); a > 5; a-- {
			pos := rapid.IntRange(1, len(items)).Draw(t, "ack position")
			items = append(items[:pos], append([]wireItem{{kind: "ack", dir: 1 - dir}}, items[pos:]...)...)
		}
		var got []piece
		for _, it := range items {
			switch it.kind {
			case "ack":
				f.ack(it.dir, prefixEnd(got, base))
			default:
				f.seg(it.dir, it.off, it.n, it.kind)
				if it.dir == dir && it.kind == "data" {
					got = append(got, it.piece)
				}
			}
		}
		last := items[len(items)-1]
		lastDataOrigIsFinal = last.kind == "data" && last.off+last.n == len(c.stream[dir])
	}
	for _, it := range late {
		f.seg(it.dir, it.off, it.n, it.kind)
		lastDataOrigIsFinal = false
	}

	// end of the connection
	switch k := rapid.IntRange(0, 19).Draw(t, "close"); {
	case k < 6:
		c.Feat.Close = "open"
	case k < 15:
		a := rapid.IntRange(0, 1).Draw(t, "closing side")
		c.Feat.Close = "fin-" + dirName(a)
		if nfl > 0 && lastDataOrigIsFinal && c.Flights[len(c.Flights)-1].Dir == a && rapid.IntRange(0, 2).Draw(t, "fin with data") == 0 {
			p := c.flow[len(c.flow)-1]
			p.FIN = true
			f.fin[a] = true
			c.Feat.FinWithData = true
		} else {
			f.finPkt(a)
		}
		if rapid.Bool().Draw(t, "ack of fin") {
			f.ack(1-a, -1)
		}
		if rapid.IntRange(0, 5).Draw(t, "half close") == 0 {
			// the other side keeps sending after the first FIN
			size := rapid.IntRange(1, 3000).Draw(t, "half close size")
			base := f.addFlight(1-a, pr.bytes(size))
			for _, p := range cutSegments(t, base, size) {
				f.seg(1-a, p.off, p.n, "data")
			}
			if rapid.Bool().Draw(t, "ack of half close data") {
				f.ack(a, -1)
			}
			c.Feat.HalfClose = true
		}
		f.finPkt(1 - a)
		f.ack(a, -1)
	case k < 19:
		a := rapid.IntRange(0, 1).Draw(t, "resetting side")
		c.Feat.Close = "rst-" + dirName(a)
		f.rst(a, rapid.Bool().Draw(t, "rst with ack"))
	default:
		a := rapid.IntRange(0, 1).Draw(t, "closing side")
		c.Feat.Close = "fin-rst-" + dirName(a)
		f.finPkt(a)
		f.rst(1-a, true)
	}
	f.finish()
	if cfg.AvoidSeqWrapDisorder && c.Feat.SeqWrap && (c.Feat.Reordered || c.Feat.Retransmitted || c.Feat.Resegmented || c.Feat.LateRexmit || c.Feat.HsRexmit) {
		f.rebase()
		c.steered = true
	}
}

func genUDP(t *rapid.T, c *Conversation, cfg Config) {
	u := &udpFlow{c: c}
	pr := newPrng(rapid.Uint64().Draw(t, "payload seed"))
	n := 1
	switch k := rapid.IntRange(0, 9).Draw(t, "datagrams class"); {
	case k < 2:
	case k < 6:
		n = rapid.IntRange(1, cfg.MaxDatagrams).Draw(t, "datagrams")
	default: // longer exchange
		n = rapid.IntRange(min(5, cfg.MaxDatagrams), cfg.MaxDatagrams).Draw(t, "datagrams")
	}
	for i := 0; i < n; i++ {
		dir := C2S
		if i > 0 {
			dir = rapid.IntRange(0, 1).Draw(t, "datagram direction")
		}
		size := 0
		switch k := rapid.IntRange(0, 19).Draw(t, "datagram size class"); {
		case k == 0:
			size = 0
		case k < 10:
			size = rapid.IntRange(1, 50).Draw(t, "datagram size")
		case k < 18:
			size = rapid.IntRange(51, 1472).Draw(t, "datagram size")
		default:
			size = rapid.IntRange(1473, maxSegment).Draw(t, "datagram size")
		}
		u.datagram(dir, pr.bytes(size))
	}
	c.Feat.Close = "udp"
}

// interleave merges the per-conversation packet sequences into the global
// capture order (generated merge, bursts of 1..6 packets, some conversations
// starting late).
func interleave(t *rapid.T, convs []*Conversation, total int) []*Packet {
	out := make([]*Packet, 0, total)
	next := make([]int, len(convs))
	startAfter := make([]int, len(convs))
	for i := range convs {
		if i > 0 && rapid.IntRange(0, 9).Draw(t, "late start") < 3 {
			startAfter[i] = rapid.IntRange(0, total).Draw(t, "start after")
		}
	}
	remaining := make([]int, 0, len(convs))
	for i := range convs {
		remaining = append(remaining, i)
	}
	eligible := make([]int, 0, len(convs))
	for len(out) < total {
		eligible = eligible[:0]
		k := 0
		for _, i := range remaining {
			if next[i] < len(convs[i].flow) {
				remaining[k] = i
				k++
				if startAfter[i] <= len(out) {
					eligible = append(eligible, i)
				}
			}
		}
		remaining = remaining[:k]
		if len(eligible) == 0 {
			best := remaining[0]
			for _, i := range remaining {
				if startAfter[i] < startAfter[best] {
					best = i
				}
			}
			startAfter[best] = 0
			eligible = append(eligible, best)
		}
		i := eligible[0]
		if len(eligible) > 1 {
			i = eligible[rapid.IntRange(0, len(eligible)-1).Draw(t, "next conversation")]
		}
		burst := 1
		if b := rapid.IntRange(0, 9).Draw(t, "burst"); b > 4 {
			burst = b - 3
		}
		for ; burst > 0 && next[i] < len(convs[i].flow); burst-- {
			out = append(out, convs[i].flow[next[i]])
			next[i]++
		}
	}
	return out
}

// holeTracker follows, for one direction of a TCP connection, which captured
// segments are still waiting for earlier bytes (an importer has to buffer them).
type holeTracker struct {
	prefix int
	queued []queuedSeg
}

type queuedSeg struct {
	off, n int
	t      int64
}

func (h *holeTracker) add(off, n int, t int64) {
	if off > h.prefix {
		h.queued = append(h.queued, queuedSeg{off, n, t})
		return
	}
	if off+n > h.prefix {
		h.prefix = off + n
	}
	for again := true; again; {
		again = false
		k := 0
		for _, q := range h.queued {
			if q.off <= h.prefix {
				if q.off+q.n > h.prefix {
					h.prefix = q.off + q.n
				}
				again = true
				continue
			}
			h.queued[k] = q
			k++
		}
		h.queued = h.queued[:k]
	}
}

func (h *holeTracker) oldest() int64 {
	o := int64(-1)
	for _, q := range h.queued {
		if o < 0 || q.t < o {
			o = q.t
		}
	}
	return o
}

// stamp assigns capture times after interleaving: strictly increasing whole
// microseconds; consecutive packets of one conversation are less than 4 minutes
// apart, and a segment captured ahead of earlier bytes sees those bytes arrive
// within 4 minutes (importers give up waiting for a hole after their timeout).
func stamp(t *rapid.T, s *Scenario, cfg Config) {
	now := int64(1600000000)*1000000 + int64(rapid.IntRange(0, 2000000000).Draw(t, "base time"))
	last := make([]int64, len(s.Conversations))
	left := make([]int, len(s.Conversations))
	holes := make([][2]holeTracker, len(s.Conversations))
	for i, c := range s.Conversations {
		last[i] = -1
		left[i] = len(c.flow)
	}
	active := map[int]bool{}
	s.Slow = cfg.LongGaps && percent(t, "pace", cfg.SlowPercent)
	// a quarter of the scenarios come from a sensor with a coarse clock: bursts of packets share a timestamp
	equalPercent := cfg.EqualStampPercent
	if equalPercent > 0 && percent(t, "coarse clock", 25) {
		equalPercent = 45
	}
	for gi, p := range s.Packets {
		if gi > 0 {
			var d int64
			switch k := rapid.IntRange(0, 99).Draw(t, "gap class"); {
			case s.Slow && k >= 45:
				d = int64(rapid.IntRange(60000000, 235000000).Draw(t, "gap us"))
			case k < 15:
				d = 1
			case k < 50:
				d = int64(rapid.IntRange(2, 50).Draw(t, "gap us"))
			case k < 80:
				d = int64(rapid.IntRange(51, 5000).Draw(t, "gap us"))
			case k < 92:
				d = int64(rapid.IntRange(5001, 500000).Draw(t, "gap us"))
			case k < 97 || !cfg.LongGaps:
				d = int64(rapid.IntRange(500001, 20000000).Draw(t, "gap us"))
			default:
				d = int64(rapid.IntRange(20000001, 230000000).Draw(t, "gap us"))
			}
			for c := range active {
				if lim := last[c] + maxFlowGapUS - now; d > lim {
					d = lim
				}
				for dir := 0; dir < 2; dir++ {
					if o := holes[c][dir].oldest(); o >= 0 {
						if lim := o + maxFlowGapUS - now; d > lim {
							d = lim
						}
					}
				}
			}
			if d < 1 {
				d = 1
			}
			// two packets of different conversations may carry the same capture timestamp (a burst below the clock's resolution)
			// (never two packets of one conversation: their order would no longer be defined by the capture)
			if cfg.EqualStampPercent > 0 && s.Packets[gi-1].Conv != p.Conv && last[p.Conv] < now && percent(t, "equal timestamp", equalPercent) {
				d = 0
				s.EqualStamps++
			}
			now += d
		}
		p.TimeUS = now
		last[p.Conv] = now
		if p.Kind == "data" {
			holes[p.Conv][p.Dir].add(p.Off, len(p.Payload), now)
		}
		left[p.Conv]--
		if left[p.Conv] > 0 {
			active[p.Conv] = true
		} else {
			delete(active, p.Conv)
		}
	}
}

// avoidTail moves a cut position out of the tail of any TCP connection (the
// packets following the second FIN): a cut at pos means packet pos starts a new
// file. Returns a position that separates no second FIN from its tail (possibly
// n, meaning "no cut").
func avoidTail(s *Scenario, pos int) int {
	type span struct{ from, to int } // cut positions from..to (inclusive) are inside a tail
	var spans []span
	fins := make([]int, len(s.Conversations))
	second := make([]int, len(s.Conversations))
	lastIdx := make([]int, len(s.Conversations))
	for i := range second {
		second[i] = -1
	}
	for gi, p := range s.Packets {
		if p.FIN || p.RST {
			fins[p.Conv]++
			if fins[p.Conv] == 2 && second[p.Conv] < 0 {
				second[p.Conv] = gi
			}
		}
		lastIdx[p.Conv] = gi
	}
	for i := range s.Conversations {
		if second[i] >= 0 && lastIdx[i] > second[i] {
			spans = append(spans, span{second[i] + 1, lastIdx[i]})
		}
	}
	for moved := true; moved; {
		moved = false
		for _, sp := range spans {
			if pos >= sp.from && pos <= sp.to {
				pos = sp.to + 1
				moved = true
			}
		}
	}
	return pos
}

// cut cuts the packet sequence into capture files.
func cut(t *rapid.T, s *Scenario, cfg Config) {
	n := len(s.Packets)
	k := 1
	switch c := rapid.IntRange(0, 19).Draw(t, "captures class"); {
	case c < 3:
		k = 1
	case c < 9:
		k = 2
	case c < 14:
		k = 3
	default:
		k = rapid.IntRange(2, max(2, cfg.MaxCaptures)).Draw(t, "captures")
	}
	if k > cfg.MaxCaptures {
		k = cfg.MaxCaptures
	}
	if k < cfg.MinCaptures {
		k = cfg.MinCaptures
	}
	if k > n {
		k = n
	}
	cuts := map[int]bool{}
	for i := 0; i < k-1; i++ {
		pos := 0
		switch rapid.IntRange(0, 3).Draw(t, "cut kind") {
		case 0: // inside a TCP handshake
			var cand []int
			for gi, p := range s.Packets {
				if (p.Kind == "syn" || p.Kind == "synack") && gi+1 < n {
					cand = append(cand, gi+1)
				}
			}
			if len(cand) > 0 {
				pos = cand[rapid.IntRange(0, len(cand)-1).Draw(t, "cut in handshake")]
			}
		case 1: // inside a flight: directly after a data segment that is not the last of its direction run
			var cand []int
			for gi, p := range s.Packets {
				if p.Kind == "data" && !p.PSH && gi+1 < n {
					cand = append(cand, gi+1)
				}
			}
			if len(cand) > 0 {
				pos = cand[rapid.IntRange(0, len(cand)-1).Draw(t, "cut in flight")]
			}
		}
		if pos == 0 {
			pos = rapid.IntRange(1, n-1).Draw(t, "cut")
		}
		if cfg.AvoidCutAfterSecondFin {
			if np := avoidTail(s, pos); np != pos {
				s.SteeredCuts++
				pos = np
			}
			if pos <= 0 || pos >= n {
				continue
			}
		}
		cuts[pos] = true
	}
	pos := make([]int, 0, len(cuts)+2)
	pos = append(pos, 0)
	for c := range cuts {
		pos = append(pos, c)
	}
	pos = append(pos, n)
	sort.Ints(pos)
	groups := make([][]*Packet, 0, len(pos)-1)
	for ci := 0; ci+1 < len(pos); ci++ {
		groups = append(groups, s.Packets[pos[ci]:pos[ci+1]])
	}
	finishCaptures(t, s, groups, cfg)
}

// layoutSensors assigns the packets to capture files non-contiguously, the way
// several sensors (or several capture processes on asymmetric routes) see one
// network: the time ranges of the files overlap, every packet is in exactly one
// file, every file is sorted by time. Optionally the sequence is first cut
// once in time, and each part is seen by 1-3 sensors.
func layoutSensors(t *rapid.T, s *Scenario, cfg Config) {
	n := len(s.Packets)
	maxFiles := max(2, cfg.MaxCaptures)
	bounds := []int{0, n}
	if n >= 4 && maxFiles >= 3 && rapid.Bool().Draw(t, "time cut") {
		bounds = []int{0, rapid.IntRange(1, n-1).Draw(t, "time cut position"), n}
	}
	var groups [][]*Packet
	left := maxFiles
	for part := 0; part+1 < len(bounds); part++ {
		pk := s.Packets[bounds[part]:bounds[part+1]]
		partsAfter := len(bounds) - 2 - part
		most := min(3, left-partsAfter)
		sensors := 2
		if len(bounds) == 3 {
			// one of the two parts may be seen by a single sensor
			sensors = rapid.IntRange(1, most).Draw(t, "sensors")
			if part == 1 && len(groups) == 1 && sensors == 1 {
				sensors = 2
			}
		} else if most > 2 {
			sensors = rapid.IntRange(2, most).Draw(t, "sensors")
		}
		left -= sensors
		files := make([][]*Packet, sensors)
		mode := rapid.IntRange(0, 3).Draw(t, "sensor assignment")
		s.Layout = append(s.Layout, []string{"per-flow", "per-direction", "runs", "runs"}[mode])
		cur, run := 0, 0
		offs := rapid.IntRange(0, sensors-1).Draw(t, "sensor offset")
		for _, p := range pk {
			k := 0
			switch mode {
			case 0: // every conversation is seen by one sensor
				k = (p.Conv + offs) % sensors
			case 1: // asymmetric routing: the two directions of a conversation pass different sensors
				k = (p.Conv + p.Dir + offs) % sensors
			default: // load balancing: runs of packets alternate between the sensors
				if run == 0 {
					cur = rapid.IntRange(0, sensors-1).Draw(t, "sensor")
					run = rapid.IntRange(1, 12).Draw(t, "sensor run")
				}
				run--
				k = cur
			}
			files[k] = append(files[k], p)
		}
		for _, f := range files {
			if len(f) > 0 {
				groups = append(groups, f)
			}
		}
	}
	if cfg.AvoidCutAfterSecondFin {
		// keep the packets following the second FIN of a connection in the file of that FIN
		groups = keepTailsTogether(s, groups)
	}
	sort.SliceStable(groups, func(i, j int) bool { return groups[i][0].TimeUS < groups[j][0].TimeUS })
	finishCaptures(t, s, groups, cfg)
	for i, a := range s.Captures {
		for _, b := range s.Captures[i+1:] {
			if b.Packets[0].TimeUS < a.Packets[len(a.Packets)-1].TimeUS {
				s.Overlapping = true
			}
		}
	}
}

func keepTailsTogether(s *Scenario, groups [][]*Packet) [][]*Packet {
	file := map[*Packet]int{}
	for gi, g := range groups {
		for _, p := range g {
			file[p] = gi
		}
	}
	moved := false
	for _, c := range s.Conversations {
		fins, home := 0, -1
		for _, p := range c.flow {
			if home >= 0 && file[p] != home {
				file[p] = home
				moved = true
			}
			if (p.FIN || p.RST) && home < 0 {
				if fins++; fins == 2 {
					home = file[p]
				}
			}
		}
	}
	if !moved {
		return groups
	}
	s.SteeredCuts++
	out := make([][]*Packet, len(groups))
	for _, p := range s.Packets {
		out[file[p]] = append(out[file[p]], p)
	}
	k := 0
	for _, g := range out {
		if len(g) > 0 {
			out[k] = g
			k++
		}
	}
	return out[:k]
}

// finishCaptures turns groups of packets (each sorted by time, ordered by their
// first packet) into capture files: link type, format, padding, file name.
func finishCaptures(t *rapid.T, s *Scenario, groups [][]*Packet, cfg Config) {
	ncap := len(groups)
	order := make([]int, ncap)
	for i := range order {
		order[i] = i
	}
	if ncap > 1 {
		order = rapid.Permutation(order).Draw(t, "name order")
	}
	for ci := 0; ci < ncap; ci++ {
		// a capture file need not list its packets in timestamp order (several queues of one sensor): now and then the
		// first or the last two packets of a file swap places (only packets of different conversations)
		if g := groups[ci]; len(g) >= 3 && percent(t, "unordered capture", 12) {
			i := 0
			if rapid.Bool().Draw(t, "unordered tail") {
				i = len(g) - 2
			}
			if g[i].Conv != g[i+1].Conv && g[i].TimeUS != g[i+1].TimeUS {
				g = append([]*Packet{}, g...)
				g[i], g[i+1] = g[i+1], g[i]
				groups[ci] = g
				s.Unordered++
			}
		}
		cp := &Capture{Packets: groups[ci]}
		all4, all6 := true, true
		for i, p := range cp.Packets {
			p.Capture, p.Index = ci, i
			// the path fragments now and then: an IPv4 datagram arrives in two or three pieces, in order or last first
			if l4 := fragmentable(s, p); cfg.FragmentPercent > 0 && l4 >= 16 && percent(t, "fragmented", cfg.FragmentPercent) {
				n := rapid.IntRange(1, min(2, l4/8-1)).Draw(t, "fragment cuts")
				last := 0
				for k := 0; k < n; k++ {
					hi := (l4-1)/8 - (n - 1 - k)
					c := rapid.IntRange(last/8+1, hi).Draw(t, "fragment cut") * 8
					p.FragCuts = append(p.FragCuts, c)
					last = c
				}
				p.FragReverse = rapid.Bool().Draw(t, "fragments reversed")
				s.Fragmented++
			}
			if s.Conversations[p.Conv].IPv6 {
				all4 = false
			} else {
				all6 = false
			}
		}
		lts := []layers.LinkType{layers.LinkTypeEthernet, layers.LinkTypeEthernet, layers.LinkTypeRaw}
		if all4 {
			lts = append(lts, layers.LinkTypeIPv4)
		}
		if all6 {
			lts = append(lts, layers.LinkTypeIPv6)
		}
		cp.LinkType = lts[rapid.IntRange(0, len(lts)-1).Draw(t, "link type")]
		cp.PcapNG = rapid.IntRange(0, 4).Draw(t, "pcapng") == 0
		cp.Padding = cp.LinkType == layers.LinkTypeEthernet && rapid.IntRange(0, 2).Draw(t, "padding") == 0
		ext := "pcap"
		if cp.PcapNG {
			ext = "pcapng"
		}
		// file names do not sort chronologically
		cp.Name = fmt.Sprintf("cap%c_%d.%s", 'a'+order[ci], ci, ext)
		s.Captures = append(s.Captures, cp)
	}
}

// fragmentable returns the number of bytes behind the IP header of an IPv4 packet (0 for IPv6).
func fragmentable(s *Scenario, p *Packet) int {
	c := s.Conversations[p.Conv]
	if c.IPv6 {
		return 0
	}
	if c.Proto == "UDP" {
		return 8 + len(p.Payload)
	}
	n := 20 + len(p.Payload)
	if p.SYN {
		n += 8
	}
	return n
}
