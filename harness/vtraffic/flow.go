package vtraffic

// flow.go: primitives that append wire packets to a conversation. Both the
// rapid generator (gen.go) and the hand-written scenarios (manual.go) use them.

// prng is a xorshift64* stream; payload bytes are a pure function of a drawn
// seed so that big payloads do not cost one rapid draw per byte. Consecutive
// bytes differ, so misplaced, duplicated or missing bytes change the content.
type prng struct{ s uint64 }

func newPrng(seed uint64) *prng {
	if seed == 0 {
		seed = 0x9e3779b97f4a7c15
	}
	return &prng{seed}
}

func (p *prng) next() uint64 {
	p.s ^= p.s >> 12
	p.s ^= p.s << 25
	p.s ^= p.s >> 27
	return p.s * 2685821657736338717
}

func (p *prng) bytes(n int) []byte {
	b := make([]byte, n)
	for i := 0; i < n; i += 8 {
		v := p.next()
		for j := 0; j < 8 && i+j < n; j++ {
			b[i+j] = byte(v >> (8 * j))
		}
	}
	return b
}

type tcpFlow struct {
	c    *Conversation
	ipid [2]uint16
	fin  [2]bool // FIN of that direction was emitted
}

func (f *tcpFlow) pkt(dir int, kind string) *Packet {
	f.ipid[dir]++
	p := &Packet{Conv: f.c.Index, Dir: dir, Kind: kind, ipid: f.ipid[dir] + uint16(dir)<<15}
	f.c.flow = append(f.c.flow, p)
	return p
}

// seqAt is the sequence number of byte off of direction dir.
func (f *tcpFlow) seqAt(dir, off int) uint32 { return f.c.ISN[dir] + 1 + uint32(off) }

// nextSeq is the sequence number following everything dir has sent so far
// (all flights added so far, plus its FIN).
func (f *tcpFlow) nextSeq(dir int) uint32 {
	s := f.seqAt(dir, len(f.c.stream[dir]))
	if f.fin[dir] {
		s++
	}
	return s
}

func (f *tcpFlow) syn() *Packet {
	p := f.pkt(C2S, "syn")
	p.SYN, p.Seq = true, f.c.ISN[C2S]
	return p
}

func (f *tcpFlow) synack() *Packet {
	p := f.pkt(S2C, "synack")
	p.SYN, p.ACK, p.Seq, p.Ack = true, true, f.c.ISN[S2C], f.c.ISN[C2S]+1
	return p
}

// ack emits a payload-less ACK of dir acknowledging the peer's bytes up to
// offset peerOff (use -1 for "everything the peer has sent").
func (f *tcpFlow) ack(dir int, peerOff int) *Packet {
	p := f.pkt(dir, "ack")
	p.ACK, p.Seq = true, f.nextSeq(dir)
	if peerOff < 0 {
		p.Ack = f.nextSeq(1 - dir)
	} else {
		p.Ack = f.seqAt(1-dir, peerOff)
	}
	f.c.Feat.PureAcks++
	return p
}

// addFlight appends a flight to the ground truth and returns the offset of its
// first byte in the direction's stream.
func (f *tcpFlow) addFlight(dir int, data []byte) int {
	base := len(f.c.stream[dir])
	f.c.stream[dir] = append(f.c.stream[dir], data...)
	f.c.Flights = append(f.c.Flights, Flight{Dir: dir, Data: f.c.stream[dir][base : base+len(data) : base+len(data)]})
	return base
}

// seg emits a segment carrying stream bytes [off, off+n) of dir.
func (f *tcpFlow) seg(dir, off, n int, kind string) *Packet {
	p := f.pkt(dir, kind)
	p.ACK, p.Seq, p.Ack = true, f.seqAt(dir, off), f.nextSeq(1-dir)
	p.Off, p.Payload = off, f.c.stream[dir][off:off+n]
	if off+n == len(f.c.stream[dir]) {
		p.PSH = true
	}
	if kind == "data" {
		f.c.Feat.Segments++
	}
	return p
}

func (f *tcpFlow) finPkt(dir int) *Packet {
	p := f.pkt(dir, "fin")
	p.FIN, p.ACK, p.Seq, p.Ack = true, true, f.nextSeq(dir), f.nextSeq(1-dir)
	f.fin[dir] = true
	return p
}

func (f *tcpFlow) rst(dir int, withAck bool) *Packet {
	p := f.pkt(dir, "rst")
	p.RST, p.Seq = true, f.nextSeq(dir)
	if withAck {
		p.ACK, p.Ack = true, f.nextSeq(1-dir)
	}
	return p
}

// rebase moves both initial sequence numbers so far below 2^32 that no sequence
// number of the connection wraps, and renumbers all packets accordingly.
func (f *tcpFlow) rebase() {
	var delta [2]uint32
	for d := 0; d < 2; d++ {
		span := uint64(len(f.c.stream[d])) + 2
		if uint64(f.c.ISN[d])+span > 0xffffffff {
			n := uint32(0x7fffffff - span)
			delta[d] = n - f.c.ISN[d]
			f.c.ISN[d] = n
		}
	}
	for _, p := range f.c.flow {
		p.Seq += delta[p.Dir]
		if p.ACK {
			p.Ack += delta[1-p.Dir]
		}
	}
	f.c.Feat.SeqWrap = false
}

// finish computes derived features once all packets exist.
func (f *tcpFlow) finish() {
	for d := 0; d < 2; d++ {
		end := uint64(f.c.ISN[d]) + 1 + uint64(len(f.c.stream[d]))
		if f.fin[d] {
			end++
		}
		if end > 0xffffffff {
			f.c.Feat.SeqWrap = true
		}
	}
}

type udpFlow struct {
	c    *Conversation
	ipid [2]uint16
}

// datagram emits one datagram and records it as a flight of the ground truth.
func (u *udpFlow) datagram(dir int, data []byte) *Packet {
	base := len(u.c.stream[dir])
	u.c.stream[dir] = append(u.c.stream[dir], data...)
	d := u.c.stream[dir][base : base+len(data) : base+len(data)]
	u.c.Flights = append(u.c.Flights, Flight{Dir: dir, Data: d})
	u.ipid[dir]++
	p := &Packet{Conv: u.c.Index, Dir: dir, Kind: "udp", Off: base, Payload: d, ipid: u.ipid[dir] + uint16(dir)<<15}
	u.c.flow = append(u.c.flow, p)
	u.c.Feat.Segments++
	return p
}
