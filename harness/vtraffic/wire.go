package vtraffic

// wire.go: serialisation of packets (gopacket layers, checksums and lengths
// computed) and writing of capture files with pcapgo.

import (
	"bufio"
	"fmt"
	"os"
	"path/filepath"
	"time"

	"github.com/gopacket/gopacket"
	"github.com/gopacket/gopacket/layers"
	"github.com/gopacket/gopacket/pcapgo"
)

const snapLen = 262144

// NetworkBytes serialises the packet from the IP header on.
func (s *Scenario) NetworkBytes(p *Packet) ([]byte, error) {
	c := s.Conversations[p.Conv]
	src, dst := c.Client, c.Server
	if p.Dir == S2C {
		src, dst = dst, src
	}
	proto := layers.IPProtocolTCP
	if c.Proto == "UDP" {
		proto = layers.IPProtocolUDP
	}
	var nl gopacket.NetworkLayer
	var nls gopacket.SerializableLayer
	if c.IPv6 {
		ip := &layers.IPv6{Version: 6, NextHeader: proto, HopLimit: 64, SrcIP: src.IP.To16(), DstIP: dst.IP.To16(), FlowLabel: uint32(p.Conv + 1)}
		nl, nls = ip, ip
	} else {
		ip := &layers.IPv4{Version: 4, IHL: 5, TTL: 64, Id: p.ipid, Flags: layers.IPv4DontFragment, Protocol: proto, SrcIP: src.IP.To4(), DstIP: dst.IP.To4()}
		nl, nls = ip, ip
	}
	buf := gopacket.NewSerializeBuffer()
	opts := gopacket.SerializeOptions{FixLengths: true, ComputeChecksums: true}
	if c.Proto == "UDP" {
		udp := &layers.UDP{SrcPort: layers.UDPPort(src.Port), DstPort: layers.UDPPort(dst.Port)}
		if err := udp.SetNetworkLayerForChecksum(nl); err != nil {
			return nil, err
		}
		if err := gopacket.SerializeLayers(buf, opts, nls, udp, gopacket.Payload(p.Payload)); err != nil {
			return nil, err
		}
		return buf.Bytes(), nil
	}
	tcp := &layers.TCP{SrcPort: layers.TCPPort(src.Port), DstPort: layers.TCPPort(dst.Port), Seq: p.Seq, Ack: p.Ack,
		SYN: p.SYN, ACK: p.ACK, FIN: p.FIN, RST: p.RST, PSH: p.PSH, Window: 65535}
	if p.SYN {
		tcp.Options = []layers.TCPOption{
			{OptionType: layers.TCPOptionKindMSS, OptionLength: 4, OptionData: []byte{0x23, 0x28}}, // 9000
			{OptionType: layers.TCPOptionKindNop, OptionLength: 1},
			{OptionType: layers.TCPOptionKindWindowScale, OptionLength: 3, OptionData: []byte{7}},
		}
	}
	if err := tcp.SetNetworkLayerForChecksum(nl); err != nil {
		return nil, err
	}
	if err := gopacket.SerializeLayers(buf, opts, nls, tcp, gopacket.Payload(p.Payload)); err != nil {
		return nil, err
	}
	return buf.Bytes(), nil
}

func macOf(ip []byte) []byte {
	m := []byte{0x02, 0x00, 0, 0, 0, 0}
	n := len(ip)
	copy(m[2:], ip[n-4:])
	return m
}

// Frames are the capture records of the packet: one, or one per IPv4 fragment.
func (s *Scenario) Frames(p *Packet, lt layers.LinkType, padding bool) ([][]byte, error) {
	nb, err := s.NetworkBytes(p)
	if err != nil {
		return nil, err
	}
	if len(p.FragCuts) == 0 || s.Conversations[p.Conv].IPv6 {
		fr, err := s.frame(p, nb, lt, padding)
		return [][]byte{fr}, err
	}
	// IPv4 header without options: 20 bytes
	hdr, body := nb[:20], nb[20:]
	cuts := append(append([]int{0}, p.FragCuts...), len(body))
	var out [][]byte
	for i := 0; i+1 < len(cuts); i++ {
		from, to := cuts[i], cuts[i+1]
		if from%8 != 0 || from >= to || to > len(body) {
			return nil, fmt.Errorf("bad fragment cut %v of a %d byte IP payload", p.FragCuts, len(body))
		}
		fb := append(append([]byte{}, hdr...), body[from:to]...)
		total := len(fb)
		fb[2], fb[3] = byte(total>>8), byte(total)
		fo := uint16(from / 8)
		if to != len(body) {
			fo |= 0x2000 // more fragments
		}
		fb[6], fb[7] = byte(fo>>8), byte(fo)
		fb[10], fb[11] = 0, 0
		sum := uint32(0)
		for j := 0; j < 20; j += 2 {
			sum += uint32(fb[j])<<8 | uint32(fb[j+1])
		}
		for sum>>16 != 0 {
			sum = sum&0xffff + sum>>16
		}
		cs := ^uint16(sum)
		fb[10], fb[11] = byte(cs>>8), byte(cs)
		fr, err := s.frame(p, fb, lt, padding)
		if err != nil {
			return nil, err
		}
		out = append(out, fr)
	}
	if p.FragReverse {
		for i, j := 0, len(out)-1; i < j; i, j = i+1, j-1 {
			out[i], out[j] = out[j], out[i]
		}
	}
	return out, nil
}

// FrameBytes serialises the packet as it appears in a capture of the given
// link type (unfragmented).
func (s *Scenario) FrameBytes(p *Packet, lt layers.LinkType, padding bool) ([]byte, error) {
	nb, err := s.NetworkBytes(p)
	if err != nil {
		return nil, err
	}
	return s.frame(p, nb, lt, padding)
}

func (s *Scenario) frame(p *Packet, nb []byte, lt layers.LinkType, padding bool) ([]byte, error) {
	c := s.Conversations[p.Conv]
	switch lt {
	case layers.LinkTypeEthernet:
		src, dst := c.Client.IP, c.Server.IP
		if p.Dir == S2C {
			src, dst = dst, src
		}
		fr := make([]byte, 0, 14+len(nb)+46)
		fr = append(fr, macOf(dst)...)
		fr = append(fr, macOf(src)...)
		if c.IPv6 {
			fr = append(fr, 0x86, 0xdd)
		} else {
			fr = append(fr, 0x08, 0x00)
		}
		fr = append(fr, nb...)
		if padding {
			for len(fr) < 60 {
				fr = append(fr, 0)
			}
		}
		return fr, nil
	case layers.LinkTypeRaw:
		return nb, nil
	case layers.LinkTypeIPv4:
		if c.IPv6 {
			return nil, fmt.Errorf("IPv6 packet in an IPv4 link type capture")
		}
		return nb, nil
	case layers.LinkTypeIPv6:
		if !c.IPv6 {
			return nil, fmt.Errorf("IPv4 packet in an IPv6 link type capture")
		}
		return nb, nil
	}
	return nil, fmt.Errorf("unsupported link type %v", lt)
}

// WriteCapture writes capture file i into dir under its name.
func (s *Scenario) WriteCapture(dir string, i int) error {
	return s.WriteCaptureAs(filepath.Join(dir, s.Captures[i].Name), i)
}

// WriteCaptureAs writes capture file i to the given path.
func (s *Scenario) WriteCaptureAs(path string, i int) (err error) {
	cp := s.Captures[i]
	f, err := os.OpenFile(path, os.O_WRONLY|os.O_CREATE|os.O_EXCL, 0o644)
	if err != nil {
		return err
	}
	defer func() {
		if cerr := f.Close(); err == nil {
			err = cerr
		}
	}()
	bw := bufio.NewWriterSize(f, 1<<16)
	var write func(ci gopacket.CaptureInfo, data []byte) error
	var flush func() error
	if cp.PcapNG {
		w, err := pcapgo.NewNgWriter(bw, cp.LinkType)
		if err != nil {
			return err
		}
		write, flush = w.WritePacket, w.Flush
	} else {
		w := pcapgo.NewWriter(bw)
		if err := w.WriteFileHeader(snapLen, cp.LinkType); err != nil {
			return err
		}
		write, flush = w.WritePacket, func() error { return nil }
	}
	for _, p := range cp.Packets {
		frames, err := s.Frames(p, cp.LinkType, cp.Padding)
		if err != nil {
			return fmt.Errorf("%s: %v: %w", cp.Name, p, err)
		}
		for _, fr := range frames {
			ci := gopacket.CaptureInfo{Timestamp: time.UnixMicro(p.TimeUS), CaptureLength: len(fr), Length: len(fr)}
			if err := write(ci, fr); err != nil {
				return err
			}
		}
	}
	if err := flush(); err != nil {
		return err
	}
	return bw.Flush()
}
