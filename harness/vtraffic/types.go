// Package vtraffic is the traffic generator of the verification harness
// (DESIGN.md §4.2): well-formed conversations -> wire packets -> capture files,
// together with the ground truth of what the endpoints exchanged.
//
// It is compiled into the pkappa2 module through the build overlay (virtual
// directory internal/verif/vtraffic), depends only on gopacket and rapid and on
// nothing of pkappa2 itself, so every harness package may import it.
//
// Overview of the API
//
//	cfg := vtraffic.DefaultConfig()            // bounds of the generated space
//	s   := vtraffic.Gen(cfg).Draw(rt, "traffic") // *Scenario (all choices drawn from rapid)
//	s   := vtraffic.GenFromSeed(vtraffic.LargeConfig(n)).Draw(rt, "traffic") // real-size: one drawn seed, expanded
//	s.Conversations                            // ground truth, one entry per TCP connection / UDP flow
//	s.Captures[i].Name, .Packets               // the i-th capture file, ordered by first packet time; the files are
//	                                           // either consecutive pieces of the packet sequence or (sensor layout,
//	                                           // Scenario.Overlapping) overlap in time
//	s.WriteCapture(dir, i)                     // writes dir/<Captures[i].Name> with pcapgo
//	s.Truth()                                  // connection key -> *Truth (endpoints, protocol, bytes, runs)
//	s.KeysIn(captureIndexes...)                // keys of the conversations having a packet in those captures
//	vtraffic.ConnKey(proto, ipA, portA, ipB, portB) // stable orientation-insensitive key
//	s.Render()                                 // JSON-able description without payload bytes
//
// A Scenario can also be written by hand (fixed reproducers) with NewManual.
//
// Well-formedness guaranteed by construction (these are the preconditions under
// which the ground truth is what any importer has to show):
//   - TCP: SYN, SYN-ACK, (ACK) precede every payload byte; payload is sent in
//     flights; the segments of a flight may be captured out of order (displacement
//     <= 3) but no segment of a later flight is captured before the last original
//     segment of an earlier one; retransmissions (exact or re-segmented) only
//     repeat bytes whose original was captured earlier; no segment is lost; FIN/RST
//     only after all payload of that direction; nothing after the connection ended.
//   - UDP: client = sender of the first datagram.
//   - every conversation has its own 5-tuple (also when orientation is ignored).
//   - capture time stamps are whole microseconds, strictly increasing over the
//     whole scenario, two consecutive packets of one conversation are less than
//     four minutes apart, and a segment captured ahead of earlier bytes of its
//     flight sees those bytes captured less than four minutes later.
package vtraffic

import (
	"fmt"
	"net"
	"sort"

	"github.com/gopacket/gopacket/layers"
)

// Directions.
const (
	C2S = 0 // client to server
	S2C = 1 // server to client
)

// Endpoint is one side of a conversation.
type Endpoint struct {
	IP   net.IP // 4 or 16 bytes
	Port uint16
}

func (e Endpoint) String() string { return net.JoinHostPort(e.IP.String(), fmt.Sprint(e.Port)) }

// Flight is a maximal piece of payload one endpoint sent before the other one
// answered (TCP), or one datagram (UDP). Data may be empty for UDP.
type Flight struct {
	Dir  int
	Data []byte
}

// Run is one maximal same-direction piece of payload (coalesced flights).
type Run struct {
	Dir int `json:"dir"`
	Len int `json:"len"`
}

// Features of a conversation, for labels and non-triviality rules.
type Features struct {
	Reordered     bool // some flight was captured with segments out of order
	DeepReorder   bool // a segment was captured more than 256 segments behind its place
	BucketMate    bool // UDP flow constructed to share a flow table bucket with an earlier UDP flow
	Retransmitted bool // an exact retransmission was captured
	Resegmented   bool // a retransmission with different boundaries was captured
	LateRexmit    bool // a retransmission was captured after the peer had already answered
	HsRexmit      bool // SYN or SYN-ACK captured twice
	NoThirdAck    bool // the ACK completing the handshake is carried by the first data segment
	PureAcks      int  // number of payload-less ACKs
	SeqWrap       bool // the sequence numbers of some direction wrap around 2^32
	HalfClose     bool // payload after the peer's FIN
	FinWithData   bool // FIN carried by the last data segment
	Close         string
	Segments      int // payload carrying packets
}

// Conversation is the ground truth of one TCP connection or UDP flow.
type Conversation struct {
	Index   int
	Proto   string // "TCP" or "UDP"
	IPv6    bool
	Client  Endpoint
	Server  Endpoint
	Flights []Flight
	ISN     [2]uint32 // TCP initial sequence numbers
	Feat    Features

	stream  [2][]byte // whole per-direction payload
	flow    []*Packet // packets in the order they are captured
	steered bool
}

// Key is the stable orientation-insensitive connection key.
func (c *Conversation) Key() string {
	return ConnKey(c.Proto, c.Client.IP.String(), c.Client.Port, c.Server.IP.String(), c.Server.Port)
}

// Payload returns the bytes sent in direction dir.
func (c *Conversation) Payload(dir int) []byte { return c.stream[dir] }

// Runs returns the coalesced direction runs of the exchanged payload.
func (c *Conversation) Runs() []Run {
	var out []Run
	for _, f := range c.Flights {
		if len(f.Data) == 0 {
			continue
		}
		if n := len(out); n > 0 && out[n-1].Dir == f.Dir {
			out[n-1].Len += len(f.Data)
		} else {
			out = append(out, Run{f.Dir, len(f.Data)})
		}
	}
	return out
}

// Packets returns the packets of the conversation in capture order.
func (c *Conversation) Packets() []*Packet { return c.flow }

// ConnKey builds the connection key from what any observer can see of a stream.
// Addresses are given in the textual form net.IP.String() produces (or anything
// net.ParseIP accepts). The key does not depend on which side is called client.
func ConnKey(proto string, ipA string, portA uint16, ipB string, portB uint16) string {
	a := fmt.Sprintf("%s#%d", normIP(ipA), portA)
	b := fmt.Sprintf("%s#%d", normIP(ipB), portB)
	if b < a {
		a, b = b, a
	}
	return proto + "|" + a + "|" + b
}

func normIP(s string) string {
	if ip := net.ParseIP(s); ip != nil {
		return ip.String()
	}
	return s
}

// Packet is one captured packet.
type Packet struct {
	Conv   int    // index into Scenario.Conversations
	Dir    int    // C2S / S2C
	Kind   string // syn, synack, ack, data, rexmit, fin, rst, udp
	TimeUS int64  // capture time, microseconds since the Unix epoch

	// TCP header fields
	Seq, Ack                uint32
	SYN, ACK, FIN, RST, PSH bool

	Off     int // offset of Payload in the direction's byte stream (data, rexmit, udp: datagram start)
	Payload []byte

	Capture int // index of the capture file holding the packet
	Index   int // index of the packet inside that capture file
	ipid    uint16

	// FragCuts: the IPv4 datagram is captured as len(FragCuts)+1 fragments, cut at these offsets (multiples of 8)
	// of the IP payload; all fragments carry the packet's timestamp and are consecutive records of its capture file
	FragCuts    []int
	FragReverse bool // the fragments were captured last first
}

// Capture is one capture file.
type Capture struct {
	Name     string
	LinkType layers.LinkType // Ethernet, Raw, IPv4 or IPv6
	PcapNG   bool
	Padding  bool // Ethernet frames are padded to 60 bytes like received frames are
	Packets  []*Packet
}

// Scenario is a set of conversations, the global capture order of their
// packets, and the cut of that order into capture files.
type Scenario struct {
	Conversations []*Conversation
	Packets       []*Packet  // all packets in capture order
	Captures      []*Capture // ordered by the time of their first packet; every packet is in exactly one capture, each capture is sorted by time
	Overlapping   bool       // the time ranges of some capture files overlap (sensor layout)
	Layout        []string   // sensor layout only: how packets were assigned to sensors (per time part)
	Slow          bool       // about a quarter of the gaps are 1-4 minutes
	Steered       int        // conversations moved away from a shape excluded by the Config (see Config.Avoid...)
	SteeredCuts   int        // cut positions moved by Config.AvoidCutAfterSecondFin
	Unordered     int        // capture files whose first or last two packets are not in timestamp order
	Fragmented    int        // packets captured as IPv4 fragments
	EqualStamps   int        // pairs of consecutive packets (different conversations) with the same timestamp
}

// Truth is what must be visible of one conversation once all of its packets
// have been imported.
type Truth struct {
	Key     string
	Conv    *Conversation
	Proto   string
	Client  string // net.IP.String()
	Server  string
	CPort   uint16
	SPort   uint16
	Payload [2][]byte
	Runs    []Run
	FirstUS int64 // capture time of the first / last packet of the conversation
	LastUS  int64
}

// Truth returns the ground truth of every conversation by connection key.
func (s *Scenario) Truth() map[string]*Truth {
	out := make(map[string]*Truth, len(s.Conversations))
	for _, c := range s.Conversations {
		t := &Truth{Key: c.Key(), Conv: c, Proto: c.Proto, Client: c.Client.IP.String(), Server: c.Server.IP.String(),
			CPort: c.Client.Port, SPort: c.Server.Port, Payload: [2][]byte{c.stream[0], c.stream[1]}, Runs: c.Runs()}
		if len(c.flow) > 0 {
			t.FirstUS, t.LastUS = c.flow[0].TimeUS, c.flow[len(c.flow)-1].TimeUS
		}
		out[t.Key] = t
	}
	return out
}

// Keys returns the connection keys of all conversations, sorted.
func (s *Scenario) Keys() []string {
	var k []string
	for _, c := range s.Conversations {
		k = append(k, c.Key())
	}
	sort.Strings(k)
	return k
}

// KeysIn returns the sorted keys of the conversations that have at least one
// packet in one of the given capture files.
func (s *Scenario) KeysIn(captures ...int) []string {
	in := map[int]bool{}
	for _, c := range captures {
		in[c] = true
	}
	seen := map[string]bool{}
	for _, p := range s.Packets {
		if in[p.Capture] {
			seen[s.Conversations[p.Conv].Key()] = true
		}
	}
	var k []string
	for key := range seen {
		k = append(k, key)
	}
	sort.Strings(k)
	return k
}

// CapturesOf returns the sorted indexes of the capture files holding packets of
// conversation conv.
func (s *Scenario) CapturesOf(conv int) []int {
	seen := map[int]bool{}
	for _, p := range s.Conversations[conv].flow {
		seen[p.Capture] = true
	}
	var k []int
	for c := range seen {
		k = append(k, c)
	}
	sort.Ints(k)
	return k
}

// Stats summarises a scenario for labels.
type Stats struct {
	Conversations, TCP, UDP, IPv6 int
	Packets                       int
	Reordered, Retransmitted      int // conversations
	DeepReorder                   int
	BucketMates                   int
	Resegmented, LateRexmit       int
	SeqWrap, HalfClose, HsRexmit  int
	SpanningCaptures              int   // conversations with packets in >= 2 capture files
	Interleaved                   int   // conversations whose packets are interleaved with another conversation's
	DurationUS                    int64 // last - first capture time
	MaxFlowUS                     int64 // longest conversation
	LongTCP, LongUDP              int   // conversations lasting longer than 5 minutes
	PayloadBytes                  int
}

// Stats computes the summary.
func (s *Scenario) Stats() Stats {
	var st Stats
	st.Conversations = len(s.Conversations)
	st.Packets = len(s.Packets)
	if n := len(s.Packets); n > 0 {
		st.DurationUS = s.Packets[n-1].TimeUS - s.Packets[0].TimeUS
	}
	first := make([]int, len(s.Conversations))
	last := make([]int, len(s.Conversations))
	for i := range first {
		first[i] = -1
	}
	for gi, p := range s.Packets {
		if first[p.Conv] < 0 {
			first[p.Conv] = gi
		}
		last[p.Conv] = gi
	}
	for i, c := range s.Conversations {
		if c.Proto == "TCP" {
			st.TCP++
		} else {
			st.UDP++
		}
		if c.IPv6 {
			st.IPv6++
		}
		b2i := func(b bool) int {
			if b {
				return 1
			}
			return 0
		}
		st.Reordered += b2i(c.Feat.Reordered)
		st.DeepReorder += b2i(c.Feat.DeepReorder)
		st.BucketMates += b2i(c.Feat.BucketMate)
		st.Retransmitted += b2i(c.Feat.Retransmitted || c.Feat.Resegmented)
		st.Resegmented += b2i(c.Feat.Resegmented)
		st.LateRexmit += b2i(c.Feat.LateRexmit)
		st.SeqWrap += b2i(c.Feat.SeqWrap)
		st.HalfClose += b2i(c.Feat.HalfClose)
		st.HsRexmit += b2i(c.Feat.HsRexmit)
		st.PayloadBytes += len(c.stream[0]) + len(c.stream[1])
		if len(s.CapturesOf(i)) >= 2 {
			st.SpanningCaptures++
		}
		if len(c.flow) > 0 {
			d := c.flow[len(c.flow)-1].TimeUS - c.flow[0].TimeUS
			if d > st.MaxFlowUS {
				st.MaxFlowUS = d
			}
			if d > 5*60*1000000 {
				if c.Proto == "TCP" {
					st.LongTCP++
				} else {
					st.LongUDP++
				}
			}
			// interleaved: some packet of another conversation lies strictly inside
			if last[i]-first[i]+1 > len(c.flow) {
				st.Interleaved++
			}
		}
	}
	return st
}

// Render gives a JSON-able description of the scenario without payload bytes
// (payload is a pure function of the drawn seeds and is reproduced by replay).
func (s *Scenario) Render() map[string]any {
	convs := make([]any, 0, len(s.Conversations))
	for _, c := range s.Conversations {
		fl := make([]string, 0, len(c.Flights))
		for i, f := range c.Flights {
			if i >= 16 {
				fl = append(fl, fmt.Sprintf("... %d more", len(c.Flights)-i))
				break
			}
			fl = append(fl, fmt.Sprintf("%s %d", dirName(f.Dir), len(f.Data)))
		}
		convs = append(convs, map[string]any{
			"index": c.Index, "proto": c.Proto, "client": c.Client.String(), "server": c.Server.String(),
			"isn": fmt.Sprintf("%#x/%#x", c.ISN[0], c.ISN[1]), "flights": fl, "close": c.Feat.Close, "key": c.Key(),
		})
	}
	caps := make([]any, 0, len(s.Captures))
	for _, cp := range s.Captures {
		pk := make([]string, 0, len(cp.Packets))
		for i, p := range cp.Packets {
			if i >= 300 {
				pk = append(pk, fmt.Sprintf("... %d more", len(cp.Packets)-i))
				break
			}
			pk = append(pk, p.String())
		}
		caps = append(caps, map[string]any{"name": cp.Name, "linktype": cp.LinkType.String(), "pcapng": cp.PcapNG, "padding": cp.Padding, "packets": pk})
	}
	return map[string]any{"conversations": convs, "captures": caps}
}

func dirName(d int) string {
	if d == C2S {
		return "c>s"
	}
	return "s>c"
}

// String renders a packet as "t=<us> #conv dir kind seq/ack off+len".
func (p *Packet) String() string {
	switch p.Kind {
	case "udp":
		return fmt.Sprintf("t=%d #%d %s udp off=%d len=%d%s", p.TimeUS, p.Conv, dirName(p.Dir), p.Off, len(p.Payload), p.fragNote())
	default:
		fl := ""
		for _, f := range []struct {
			b bool
			s string
		}{{p.SYN, "S"}, {p.ACK, "A"}, {p.FIN, "F"}, {p.RST, "R"}, {p.PSH, "P"}} {
			if f.b {
				fl += f.s
			}
		}
		return fmt.Sprintf("t=%d #%d %s %s[%s] seq=%d ack=%d off=%d len=%d%s", p.TimeUS, p.Conv, dirName(p.Dir), p.Kind, fl, p.Seq, p.Ack, p.Off, len(p.Payload), p.fragNote())
	}
}

func (p *Packet) fragNote() string {
	if len(p.FragCuts) == 0 {
		return ""
	}
	r := ""
	if p.FragReverse {
		r = " reversed"
	}
	return fmt.Sprintf(" ip-fragments cut at %v%s", p.FragCuts, r)
}

// Fingerprint is a cheap canonical digest of the scenario (conversations,
// capture order, times, cuts, file names) used to count distinct cases.
func (s *Scenario) Fingerprint() string {
	h := uint64(14695981039346656037)
	mix := func(v uint64) {
		for i := 0; i < 8; i++ {
			h ^= (v >> (8 * i)) & 0xff
			h *= 1099511628211
		}
	}
	str := func(x string) {
		for i := 0; i < len(x); i++ {
			h ^= uint64(x[i])
			h *= 1099511628211
		}
	}
	for _, c := range s.Conversations {
		str(c.Key())
		str(c.Client.String())
		mix(uint64(c.ISN[0])<<32 | uint64(c.ISN[1]))
		mix(uint64(len(c.stream[0]))<<32 | uint64(len(c.stream[1])))
		if n := len(c.stream[0]); n > 0 {
			mix(uint64(c.stream[0][0]))
		}
	}
	for _, p := range s.Packets {
		mix(uint64(p.Conv)<<40 | uint64(p.Dir)<<32 | uint64(uint32(p.Off)))
		mix(uint64(len(p.Payload))<<8 | uint64(len(p.Kind)))
		mix(uint64(p.TimeUS))
	}
	for _, cp := range s.Captures {
		str(cp.Name)
		mix(uint64(len(cp.Packets))<<16 | uint64(cp.LinkType))
	}
	return fmt.Sprintf("%016x", h)
}
