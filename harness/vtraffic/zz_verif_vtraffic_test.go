package vtraffic

// Self check of the traffic generator: the well-formedness promises of the
// package comment are verified on generated scenarios with an independent
// walk over the packets, and the written capture files are read back with
// pcapgo and decoded with gopacket. Not one of the listed properties; it guards
// the ground truth the C05/C08/C10 oracles rely on.

import (
	"bytes"
	"fmt"
	"io"
	"os"
	"path/filepath"
	"testing"

	"github.com/gopacket/gopacket"
	"github.com/gopacket/gopacket/ip4defrag"
	"github.com/gopacket/gopacket/layers"
	"github.com/gopacket/gopacket/pcapgo"
	"pgregory.net/rapid"
)

// Validate checks the well-formedness promises; "" when they hold.
func validate(s *Scenario) string {
	keys := map[string]bool{}
	for i, c := range s.Conversations {
		if c.Index != i {
			return fmt.Sprintf("conversation %d has index %d", i, c.Index)
		}
		if keys[c.Key()] {
			return "duplicate connection key " + c.Key()
		}
		keys[c.Key()] = true
		if c.Client.IP.Equal(c.Server.IP) && c.Client.Port == c.Server.Port {
			return "client endpoint equals server endpoint"
		}
		if (c.Client.IP.To4() == nil) != c.IPv6 || (c.Server.IP.To4() == nil) != c.IPv6 {
			return "address family mismatch"
		}
		var cat [2][]byte
		for _, f := range c.Flights {
			cat[f.Dir] = append(cat[f.Dir], f.Data...)
		}
		if !bytes.Equal(cat[0], c.stream[0]) || !bytes.Equal(cat[1], c.stream[1]) {
			return "flights do not concatenate to the streams"
		}
	}
	// global order
	for gi, p := range s.Packets {
		if gi > 0 && (p.TimeUS < s.Packets[gi-1].TimeUS || (p.TimeUS == s.Packets[gi-1].TimeUS && (s.EqualStamps == 0 || p.Conv == s.Packets[gi-1].Conv))) {
			return fmt.Sprintf("time stamps not strictly increasing at %d", gi)
		}
	}
	next := make([]int, len(s.Conversations))
	lastT := make([]int64, len(s.Conversations))
	for _, p := range s.Packets {
		c := s.Conversations[p.Conv]
		if next[p.Conv] >= len(c.flow) || c.flow[next[p.Conv]] != p {
			return fmt.Sprintf("a packet is not the next packet of conversation %d", p.Conv)
		}
		if next[p.Conv] > 0 && p.TimeUS-lastT[p.Conv] >= 4*60*1000000 {
			return fmt.Sprintf("conversation %d idles %d us", p.Conv, p.TimeUS-lastT[p.Conv])
		}
		lastT[p.Conv] = p.TimeUS
		next[p.Conv]++
	}
	// capture files: every packet in exactly one, sorted by time, ordered by first packet
	n := 0
	seen := map[*Packet]bool{}
	contiguous := true
	for ci, cp := range s.Captures {
		if len(cp.Packets) == 0 {
			return "empty capture"
		}
		if ci > 0 && s.Unordered == 0 && cp.Packets[0].TimeUS < s.Captures[ci-1].Packets[0].TimeUS {
			return "captures not ordered by first packet"
		}
		for i, p := range cp.Packets {
			if seen[p] || p.Capture != ci || p.Index != i {
				return fmt.Sprintf("capture %d packet %d: in two files or wrong back reference", ci, i)
			}
			seen[p] = true
			if i > 0 && s.Unordered == 0 && s.EqualStamps == 0 && p.TimeUS <= cp.Packets[i-1].TimeUS {
				return fmt.Sprintf("capture %d not sorted by time at %d", ci, i)
			}
			if n >= len(s.Packets) || s.Packets[n] != p {
				contiguous = false
			}
			n++
		}
	}
	_ = contiguous
	if n != len(s.Packets) {
		return "captures do not cover all packets"
	}
	for i, c := range s.Conversations {
		if next[i] != len(c.flow) {
			return fmt.Sprintf("conversation %d: %d of %d packets captured", i, next[i], len(c.flow))
		}
		if c.Proto == "UDP" {
			if len(c.flow) == 0 || c.flow[0].Dir != C2S {
				return "first datagram not sent by the client"
			}
			continue
		}
		if msg := validateTCP(c); msg != "" {
			return fmt.Sprintf("conversation %d: %s", i, msg)
		}
	}
	return ""
}

func validateTCP(c *Conversation) string {
	// flight index of every byte
	flightOf := [2][]int{make([]int, len(c.stream[0])), make([]int, len(c.stream[1]))}
	var off [2]int
	for fi, f := range c.Flights {
		for k := range f.Data {
			flightOf[f.Dir][off[f.Dir]+k] = fi
		}
		off[f.Dir] += len(f.Data)
	}
	var have [2][]bool
	have[0], have[1] = make([]bool, len(c.stream[0])), make([]bool, len(c.stream[1]))
	var finSeen, rstSeen [2]bool
	var holes [2]holeTracker
	state := 0 // 0 nothing, 1 syn, 2 synack
	maxFlight := -1
	done := false
	for i, p := range c.flow {
		if done {
			return fmt.Sprintf("packet %d after the connection ended", i)
		}
		if rstSeen[0] || rstSeen[1] {
			return fmt.Sprintf("packet %d after RST", i)
		}
		switch {
		case p.SYN && !p.ACK:
			if state > 1 || p.Dir != C2S || p.Seq != c.ISN[C2S] || len(p.Payload) != 0 {
				return "bad SYN"
			}
			state = 1
			continue
		case p.SYN && p.ACK:
			if state < 1 || p.Dir != S2C || p.Seq != c.ISN[S2C] || p.Ack != c.ISN[C2S]+1 || len(p.Payload) != 0 {
				return "bad SYN-ACK"
			}
			state = 2
			continue
		}
		if state != 2 {
			return fmt.Sprintf("packet %d (%s) before the handshake", i, p)
		}
		if p.RST {
			rstSeen[p.Dir] = true
			if len(p.Payload) != 0 {
				return "RST with payload"
			}
			continue
		}
		if !p.ACK {
			return "segment without ACK"
		}
		if len(p.Payload) > 0 {
			if len(p.Payload) > maxSegment {
				return "segment too long"
			}
			if finSeen[p.Dir] {
				return fmt.Sprintf("payload after own FIN in packet %d", i)
			}
			if p.Seq != c.ISN[p.Dir]+1+uint32(p.Off) || !bytes.Equal(p.Payload, c.stream[p.Dir][p.Off:p.Off+len(p.Payload)]) {
				return fmt.Sprintf("packet %d carries the wrong bytes", i)
			}
			switch p.Kind {
			case "data":
				if o := holes[p.Dir].oldest(); o >= 0 && p.TimeUS-o >= 4*60*1000000 {
					return fmt.Sprintf("packet %d: a segment captured at %d still waits for earlier bytes at %d", i, o, p.TimeUS)
				}
				holes[p.Dir].add(p.Off, len(p.Payload), p.TimeUS)
				for k := range p.Payload {
					if have[p.Dir][p.Off+k] {
						return fmt.Sprintf("original segment %d repeats byte %d", i, p.Off+k)
					}
					have[p.Dir][p.Off+k] = true
					fi := flightOf[p.Dir][p.Off+k]
					if fi < maxFlight {
						return fmt.Sprintf("packet %d: byte of flight %d captured after a byte of flight %d", i, fi, maxFlight)
					}
					maxFlight = fi
				}
			case "rexmit":
				for k := range p.Payload {
					if !have[p.Dir][p.Off+k] {
						return fmt.Sprintf("retransmission %d carries byte %d before its original", i, p.Off+k)
					}
				}
			default:
				return "payload in a " + p.Kind
			}
		}
		if p.FIN {
			for k, h := range have[p.Dir] {
				if !h {
					return fmt.Sprintf("FIN of %s before byte %d was captured", dirName(p.Dir), k)
				}
			}
			if p.Seq+uint32(len(p.Payload)) != c.ISN[p.Dir]+1+uint32(len(c.stream[p.Dir])) {
				return "FIN sequence number"
			}
			finSeen[p.Dir] = true
		}
		if finSeen[0] && finSeen[1] && !p.FIN && len(p.Payload) == 0 && i == len(c.flow)-1 {
			done = true
		}
	}
	for d := 0; d < 2; d++ {
		for k, h := range have[d] {
			if !h {
				return fmt.Sprintf("byte %d of %s never captured", k, dirName(d))
			}
		}
	}
	return ""
}

// readBack reads a written capture file with pcapgo and compares every packet.
func readBack(s *Scenario, dir string, i int) string {
	cp := s.Captures[i]
	f, err := os.Open(filepath.Join(dir, cp.Name))
	if err != nil {
		return err.Error()
	}
	defer f.Close()
	var read func() ([]byte, gopacket.CaptureInfo, error)
	var lt layers.LinkType
	if cp.PcapNG {
		r, err := pcapgo.NewNgReader(f, pcapgo.DefaultNgReaderOptions)
		if err != nil {
			return err.Error()
		}
		read, lt = r.ReadPacketData, r.LinkType()
	} else {
		r, err := pcapgo.NewReader(f)
		if err != nil {
			return err.Error()
		}
		read, lt = r.ReadPacketData, r.LinkType()
	}
	if lt != cp.LinkType {
		return fmt.Sprintf("link type %v, want %v", lt, cp.LinkType)
	}
	var dec gopacket.Decoder = lt
	switch lt {
	case layers.LinkTypeIPv4:
		dec = layers.LayerTypeIPv4
	case layers.LinkTypeIPv6:
		dec = layers.LayerTypeIPv6
	}
	defrag := ip4defrag.NewIPv4Defragmenter()
	for k, p := range cp.Packets {
		data, ci, err := read()
		if err != nil {
			return fmt.Sprintf("packet %d: %v", k, err)
		}
		if ci.Timestamp.UnixMicro() != p.TimeUS {
			return fmt.Sprintf("packet %d: time %d, want %d", k, ci.Timestamp.UnixMicro(), p.TimeUS)
		}
		pk := gopacket.NewPacket(data, dec, gopacket.Default)
		if len(p.FragCuts) > 0 {
			// the records are IPv4 fragments: put them together again
			var whole *layers.IPv4
			for f := 0; ; f++ {
				ip4, _ := pk.NetworkLayer().(*layers.IPv4)
				if ip4 == nil {
					return fmt.Sprintf("packet %d fragment %d: no IPv4 layer", k, f)
				}
				out, err := defrag.DefragIPv4(ip4)
				if err != nil {
					return fmt.Sprintf("packet %d fragment %d: %v", k, f, err)
				}
				if out != nil {
					if f != len(p.FragCuts) {
						return fmt.Sprintf("packet %d: complete after %d of %d fragments", k, f+1, len(p.FragCuts)+1)
					}
					whole = out
					break
				}
				if f == len(p.FragCuts) {
					return fmt.Sprintf("packet %d: %d fragments do not make a datagram", k, f+1)
				}
				if data, ci, err = read(); err != nil {
					return fmt.Sprintf("packet %d fragment %d: %v", k, f+1, err)
				}
				if ci.Timestamp.UnixMicro() != p.TimeUS {
					return fmt.Sprintf("packet %d fragment %d: time %d, want %d", k, f+1, ci.Timestamp.UnixMicro(), p.TimeUS)
				}
				pk = gopacket.NewPacket(data, dec, gopacket.Default)
			}
			b := gopacket.NewSerializeBuffer()
			pl, _ := b.PrependBytes(len(whole.Payload))
			copy(pl, whole.Payload)
			if err := whole.SerializeTo(b, gopacket.SerializeOptions{FixLengths: true, ComputeChecksums: true}); err != nil {
				return fmt.Sprintf("packet %d: %v", k, err)
			}
			want, err := s.NetworkBytes(p)
			if err != nil {
				return err.Error()
			}
			got := append([]byte{}, b.Bytes()...)
			// the reassembled header differs in the flags (DF) and the checksum
			got[6], got[7], got[10], got[11] = want[6], want[7], want[10], want[11]
			if !bytes.Equal(got, want) {
				return fmt.Sprintf("packet %d: reassembled datagram differs from the unfragmented one", k)
			}
			pk = gopacket.NewPacket(b.Bytes(), layers.LayerTypeIPv4, gopacket.Default)
		}
		// an error layer above the transport layer (e.g. random bytes on port 53 do not
		// parse as DNS) is of no concern: importers look at the transport payload
		if el := pk.ErrorLayer(); el != nil && pk.TransportLayer() == nil {
			return fmt.Sprintf("packet %d: decode error %v", k, el.Error())
		}
		c := s.Conversations[p.Conv]
		src, dst := c.Client, c.Server
		if p.Dir == S2C {
			src, dst = dst, src
		}
		nl := pk.NetworkLayer()
		if nl == nil || !bytes.Equal(nl.NetworkFlow().Src().Raw(), rawIP(src.IP, c.IPv6)) || !bytes.Equal(nl.NetworkFlow().Dst().Raw(), rawIP(dst.IP, c.IPv6)) {
			return fmt.Sprintf("packet %d: network layer mismatch", k)
		}
		switch tl := pk.TransportLayer().(type) {
		case *layers.TCP:
			if c.Proto != "TCP" || uint16(tl.SrcPort) != src.Port || uint16(tl.DstPort) != dst.Port || tl.Seq != p.Seq || tl.Ack != p.Ack ||
				tl.SYN != p.SYN || tl.ACK != p.ACK || tl.FIN != p.FIN || tl.RST != p.RST || !bytes.Equal(tl.Payload, p.Payload) {
				return fmt.Sprintf("packet %d: TCP mismatch: %v", k, p)
			}
		case *layers.UDP:
			if c.Proto != "UDP" || uint16(tl.SrcPort) != src.Port || uint16(tl.DstPort) != dst.Port || !bytes.Equal(tl.Payload, p.Payload) {
				return fmt.Sprintf("packet %d: UDP mismatch: %v", k, p)
			}
		default:
			return fmt.Sprintf("packet %d: no transport layer", k)
		}
	}
	if _, _, err := read(); err != io.EOF {
		return fmt.Sprintf("trailing data: %v", err)
	}
	return ""
}

func rawIP(ip []byte, v6 bool) []byte {
	if v6 {
		return ip[len(ip)-16:]
	}
	return ip[len(ip)-4:]
}

func TestVerifTrafficSelf(t *testing.T) {
	rapid.Check(t, func(rt *rapid.T) {
		s := Gen(DefaultConfig()).Draw(rt, "traffic")
		if msg := validate(s); msg != "" {
			rt.Fatalf("ill-formed scenario: %s", msg)
		}
		dir, err := os.MkdirTemp("", "vtraffic-self-")
		if err != nil {
			rt.Fatalf("%v", err)
		}
		defer os.RemoveAll(dir)
		for i := range s.Captures {
			if err := s.WriteCapture(dir, i); err != nil {
				rt.Fatalf("WriteCapture: %v", err)
			}
			if msg := readBack(s, dir, i); msg != "" {
				rt.Fatalf("capture %s read back: %s", s.Captures[i].Name, msg)
			}
		}
		if len(s.Truth()) != len(s.Conversations) {
			rt.Fatalf("truth map has %d entries for %d conversations", len(s.Truth()), len(s.Conversations))
		}
	})
}

func TestVerifTrafficLarge(t *testing.T) {
	if os.Getenv("VERIF_TRAFFIC_LARGE") == "" {
		t.Skip("set VERIF_TRAFFIC_LARGE=1")
	}
	rapid.Check(t, func(rt *rapid.T) {
		s := Gen(LargeConfig(120000)).Draw(rt, "traffic")
		if msg := validate(s); msg != "" {
			rt.Fatalf("ill-formed scenario: %s", msg)
		}
		st := s.Stats()
		rt.Logf("%+v", st)
	})
}
