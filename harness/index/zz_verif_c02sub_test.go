package index_test

// C02 (sub-query campaign) — searches with one sub-query: filters prefixed with
// @s: select the streams T of the sub-query, filters of the main query may use
// T's attributes (@s:cport@, @s:id@+1, @s:chost@, @s:ftime@ ...). The
// documented meaning (web/src/components/Home.vue, search_test.go): a stream S
// is selected iff some visible stream T satisfies all @s: filters and S
// satisfies the main filters with T's values substituted. The oracle evaluates
// that by brute force over the generated population; ordering, paging, the
// more-results flag and the ID restriction (main query only) are judged by the
// page rule of c02Check.

import (
	"bytes"
	"fmt"
	"net"
	"os"
	"regexp"
	"strings"
	"testing"
	"time"

	"github.com/spq/pkappa2/internal/query"
	"github.com/spq/pkappa2/internal/verif/vlib"
	"github.com/spq/pkappa2/internal/verif/vq"
	"pgregory.net/rapid"
)

type c02SubTerm struct {
	text string
	sq   string                     // name of the sub-query the term belongs to / refers to
	sub  func(t *vq.Stream) bool    // a filter of the sub-query
	main func(s, t *vq.Stream) bool // a filter of the main query (t is nil in a part without sub-query)
	uses bool                       // the main filter uses a value of the sub-query stream
	capt bool                       // the sub filter binds the variable v (never negated)
}

type c02SubPart struct {
	terms []c02SubTerm
	neg   []bool
}

func (p *c02SubPart) hasSub() bool {
	for _, t := range p.terms {
		if t.sub != nil || t.uses {
			return true
		}
	}
	return false
}

func (p *c02SubPart) text() string {
	var out []string
	for i, t := range p.terms {
		if p.neg[i] {
			out = append(out, "-"+t.text)
		} else {
			out = append(out, t.text)
		}
	}
	return strings.Join(out, " ")
}

func (p *c02SubPart) names() []string {
	var out []string
	seen := map[string]bool{}
	for _, t := range p.terms {
		if (t.sub != nil || t.uses) && !seen[t.sq] {
			seen[t.sq] = true
			out = append(out, t.sq)
		}
	}
	return out
}

func (p *c02SubPart) accepts(s *vq.Stream, all []*c02Vis) bool {
	names := p.names()
	// candidates per sub-query: the streams satisfying its own filters
	cands := map[string][]*vq.Stream{}
	for _, n := range names {
		for _, v := range all {
			ok := true
			for i, tm := range p.terms {
				if tm.sub != nil && tm.sq == n && tm.sub(v.s) == p.neg[i] {
					ok = false
					break
				}
			}
			if ok {
				cands[n] = append(cands[n], v.s)
			}
		}
	}
	var try func(i int, bound map[string]*vq.Stream) bool
	try = func(i int, bound map[string]*vq.Stream) bool {
		if i == len(names) {
			for j, tm := range p.terms {
				if tm.main == nil {
					continue
				}
				if tm.main(s, bound[tm.sq]) == p.neg[j] {
					return false
				}
			}
			return true
		}
		for _, t := range cands[names[i]] {
			bound[names[i]] = t
			if try(i+1, bound) {
				return true
			}
		}
		return false
	}
	return try(0, map[string]*vq.Stream{})
}

// c02SubTag is a tag with a one-filter definition; pred is that definition.
type c02SubTag struct {
	tg   *c02Tag
	pred func(x *vq.Stream) bool
}

// holds: the stored bit where the tag is decided for the stream, the definition where it is pending.
func (st *c02SubTag) holds(x *vq.Stream) bool {
	for _, u := range st.tg.uncertain {
		if uint64(u) == x.ID {
			return st.pred(x)
		}
	}
	for _, m := range st.tg.matches {
		if uint64(m) == x.ID {
			return true
		}
	}
	return false
}

// c02GenSubTags draws up to two tags defined by a host, port or size filter, decided for some streams and pending
// for others (their definition is then inlined into the searching query, re-scoped when the filter sits in a sub-query).
func c02GenSubTags(t *rapid.T, pools *c02Pools) []*c02SubTag {
	var out []*c02SubTag
	for _, name := range []string{"tag/a", "tag/b"}[:rapid.IntRange(0, 2).Draw(t, "nsubtags")] {
		st := &c02SubTag{tg: &c02Tag{name: name, raw: true}}
		switch rapid.IntRange(0, 4).Draw(t, "subtagdef") {
		case 0, 1:
			hs := append(append([]net.IP{}, pools.h4...), pools.h6...)
			h := rapid.SampledFrom(hs).Draw(t, "h")
			if rapid.Bool().Draw(t, "serverside") {
				st.tg.defText = fmt.Sprintf("shost:%s", h)
				st.pred = func(x *vq.Stream) bool { return c02HostEq(x.SHost, h) }
			} else {
				st.tg.defText = fmt.Sprintf("chost:%s", h)
				st.pred = func(x *vq.Stream) bool { return c02HostEq(x.CHost, h) }
			}
		case 2:
			p := rapid.SampledFrom(pools.ports).Draw(t, "p")
			st.tg.defText = fmt.Sprintf("sport:%d", p)
			st.pred = func(x *vq.Stream) bool { return x.SPort == p }
		case 3:
			p := rapid.SampledFrom(pools.ports).Draw(t, "p")
			st.tg.defText = fmt.Sprintf("cport:%d:", p)
			st.pred = func(x *vq.Stream) bool { return x.CPort >= p }
		default:
			n := uint64(rapid.SampledFrom([]int{1, 2, 3, 100}).Draw(t, "n"))
			st.tg.defText = fmt.Sprintf("cbytes:%d:", n)
			st.pred = func(x *vq.Stream) bool { return x.CBytes >= n }
		}
		bits := rapid.SliceOfDistinct(rapid.UintRange(0, 33), rapid.ID[uint])
		st.tg.matches = bits.Draw(t, "matches")
		switch rapid.IntRange(0, 3).Draw(t, "pending") {
		case 0:
		case 1:
			st.tg.uncertain = bits.Draw(t, "uncertain")
		default:
			for i := uint(0); i < 34; i++ {
				st.tg.uncertain = append(st.tg.uncertain, i)
			}
		}
		st.tg.nPos, st.tg.nNeg = 1, 1
		out = append(out, st)
	}
	return out
}

func c02ClientData(s *vq.Stream, dir int) []byte {
	var b []byte
	for _, r := range s.Runs {
		if r.Dir == dir {
			b = append(b, r.Data...)
		}
	}
	return b
}

func c02HostEq(a, b net.IP) bool { return len(a) == len(b) && a.Equal(b) }

func c02GenSubFilter(t *rapid.T, pools *c02Pools, sq string) (out c02SubTerm) {
	defer func() { out.sq = sq; out.text = strings.Replace(out.text, "@s:", "@"+sq+":", 1) }()
	kinds := 7
	if len(pools.subTags) > 0 {
		kinds = 9
	}
	switch k := rapid.IntRange(0, kinds).Draw(t, "subkind"); k {
	case 8, 9:
		st := rapid.SampledFrom(pools.subTags).Draw(t, "subtag")
		return c02SubTerm{text: "@s:tag:" + strings.TrimPrefix(st.tg.name, "tag/"), sub: st.holds}
	case 0:
		p := rapid.SampledFrom(pools.ports).Draw(t, "p")
		return c02SubTerm{text: fmt.Sprintf("@s:cport:%d", p), sub: func(x *vq.Stream) bool { return x.CPort == p }}
	case 1:
		p := rapid.SampledFrom(pools.ports).Draw(t, "p")
		return c02SubTerm{text: fmt.Sprintf("@s:sport:%d", p), sub: func(x *vq.Stream) bool { return x.SPort == p }}
	case 2:
		a := uint64(rapid.IntRange(0, 12).Draw(t, "ida"))
		b := a + uint64(rapid.IntRange(0, 12).Draw(t, "idb"))
		return c02SubTerm{text: fmt.Sprintf("@s:id:%d:%d", a, b), sub: func(x *vq.Stream) bool { return x.ID >= a && x.ID <= b }}
	case 3:
		n := uint64(rapid.SampledFrom([]int{0, 1, 2, 3, 100}).Draw(t, "n"))
		return c02SubTerm{text: fmt.Sprintf("@s:cbytes:%d:", n), sub: func(x *vq.Stream) bool { return x.CBytes >= n }}
	case 4:
		if rapid.Bool().Draw(t, "udp") {
			return c02SubTerm{text: "@s:protocol:udp", sub: func(x *vq.Stream) bool { return x.Proto == 2 }}
		}
		return c02SubTerm{text: "@s:protocol:tcp", sub: func(x *vq.Stream) bool { return x.Proto == 1 }}
	case 5:
		hs := append(append([]net.IP{}, pools.h4...), pools.h6...)
		h := rapid.SampledFrom(hs).Draw(t, "h")
		return c02SubTerm{text: fmt.Sprintf("@s:chost:%s", h), sub: func(x *vq.Stream) bool { return c02HostEq(x.CHost, h) }}
	case 6:
		lit := rapid.SampledFrom([]string{"aa", "bb", "cc", "zz", "x5"}).Draw(t, "lit")
		return c02SubTerm{text: fmt.Sprintf("@s:cdata:%s", lit), sub: func(x *vq.Stream) bool { return bytes.Contains(c02ClientData(x, 0), []byte(lit)) }}
	default:
		p := rapid.SampledFrom(pools.ports).Draw(t, "p")
		return c02SubTerm{text: fmt.Sprintf("@s:port:%d", p), sub: func(x *vq.Stream) bool { return x.CPort == p || x.SPort == p }}
	}
}


var c02CapRe = regexp.MustCompile("k[0-9]")

// c02CapValue is the value a sub-query stream binds to v: the leftmost match in its client data.
func c02CapValue(x *vq.Stream) []byte { return c02CapRe.Find(c02ClientData(x, 0)) }

func c02MaskedEq(a, b net.IP, bits int) bool {
	if len(a) != len(b) {
		return false
	}
	for i := 0; i < len(a); i++ {
		m := byte(0)
		switch {
		case bits >= 8*(i+1):
			m = 0xff
		case bits > 8*i:
			m = byte(0xff << (8 - (bits - 8*i)))
		}
		if (a[i]^b[i])&m != 0 {
			return false
		}
	}
	return true
}

func c02GenCrossFilter(t *rapid.T, sq string, hasCapture bool) (out c02SubTerm) {
	defer func() { out.sq = sq; out.text = strings.ReplaceAll(out.text, "@s:", "@"+sq+":") }()
	if hasCapture && rapid.IntRange(0, 1).Draw(t, "usecapture") == 0 {
		switch rapid.IntRange(0, 2).Draw(t, "capuse") {
		case 0:
			return c02SubTerm{text: `cdata:"@s:v@"`, uses: true, main: func(s, x *vq.Stream) bool { return bytes.Contains(c02ClientData(s, 0), c02CapValue(x)) }}
		case 1:
			return c02SubTerm{text: `sdata:"@s:v@"`, uses: true, main: func(s, x *vq.Stream) bool { return bytes.Contains(c02ClientData(s, 1), c02CapValue(x)) }}
		default:
			return c02SubTerm{text: `cdata:"@s:v@!"`, uses: true, main: func(s, x *vq.Stream) bool {
				return bytes.Contains(c02ClientData(s, 0), append(append([]byte{}, c02CapValue(x)...), '!'))
			}}
		}
	}
	d := int64(rapid.SampledFrom([]int{0, 0, 1, -1, 2}).Draw(t, "delta"))
	ds := ""
	if d > 0 {
		ds = fmt.Sprintf("+%d", d)
	} else if d < 0 {
		ds = fmt.Sprintf("%d", d)
	}
	num := func(key, v string, get func(*vq.Stream) uint64, of func(*vq.Stream) uint64) []c02SubTerm {
		return []c02SubTerm{
			{text: fmt.Sprintf("%s:@s:%s@%s", key, v, ds), uses: true, main: func(s, x *vq.Stream) bool { return int64(get(s)) == int64(of(x))+d }},
			{text: fmt.Sprintf("%s:@s:%s@%s:", key, v, ds), uses: true, main: func(s, x *vq.Stream) bool { return int64(get(s)) >= int64(of(x))+d }},
			{text: fmt.Sprintf("%s::@s:%s@%s", key, v, ds), uses: true, main: func(s, x *vq.Stream) bool { return int64(get(s)) <= int64(of(x))+d }},
		}
	}
	id := func(s *vq.Stream) uint64 { return s.ID }
	cport := func(s *vq.Stream) uint64 { return uint64(s.CPort) }
	sport := func(s *vq.Stream) uint64 { return uint64(s.SPort) }
	cbytes := func(s *vq.Stream) uint64 { return s.CBytes }
	sbytes := func(s *vq.Stream) uint64 { return s.SBytes }
	var pool []c02SubTerm
	pool = append(pool, num("id", "id", id, id)...)
	pool = append(pool, num("cport", "cport", cport, cport)...)
	pool = append(pool, num("sport", "cport", sport, cport)...)
	pool = append(pool, num("cport", "sport", cport, sport)...)
	pool = append(pool, num("cbytes", "sbytes", cbytes, sbytes)...)
	pool = append(pool, num("sbytes", "sbytes", sbytes, sbytes)...)
	pool = append(pool, num("id", "cport", id, cport)...)
	pool = append(pool,
		c02SubTerm{text: "chost:@s:chost@", uses: true, main: func(s, x *vq.Stream) bool { return c02HostEq(s.CHost, x.CHost) }},
		c02SubTerm{text: "shost:@s:chost@", uses: true, main: func(s, x *vq.Stream) bool { return c02HostEq(s.SHost, x.CHost) }},
		c02SubTerm{text: "chost:@s:shost@", uses: true, main: func(s, x *vq.Stream) bool { return c02HostEq(s.CHost, x.SHost) }},
		c02SubTerm{text: "host:@s:shost@", uses: true, main: func(s, x *vq.Stream) bool { return c02HostEq(s.CHost, x.SHost) || c02HostEq(s.SHost, x.SHost) }},
		c02SubTerm{text: "ftime:@s:ftime@:", uses: true, main: func(s, x *vq.Stream) bool { return !s.FTime.Before(x.FTime) }},
		c02SubTerm{text: "ftime::@s:ftime@", uses: true, main: func(s, x *vq.Stream) bool { return !s.FTime.After(x.FTime) }},
		c02SubTerm{text: "ltime::@s:ltime@", uses: true, main: func(s, x *vq.Stream) bool { return !s.LTime.After(x.LTime) }},
		c02SubTerm{text: "ftime:@s:ltime@:", uses: true, main: func(s, x *vq.Stream) bool { return !s.FTime.Before(x.LTime) }},
		c02SubTerm{text: "ftime:@s:ftime@+5s:", uses: true, main: func(s, x *vq.Stream) bool { return !s.FTime.Before(x.FTime.Add(5 * time.Second)) }},
		c02SubTerm{text: "ltime:@s:ftime@-5s:@s:ftime@+5s", uses: true, main: func(s, x *vq.Stream) bool {
			return !s.LTime.Before(x.FTime.Add(-5*time.Second)) && !s.LTime.After(x.FTime.Add(5*time.Second))
		}},
	)
	for _, bits := range []int{8, 24} {
		bits := bits
		pool = append(pool,
			c02SubTerm{text: fmt.Sprintf("chost:@s:chost@/%d", bits), uses: true, main: func(s, x *vq.Stream) bool { return c02MaskedEq(s.CHost, x.CHost, bits) }},
			c02SubTerm{text: fmt.Sprintf("shost:@s:chost@/%d", bits), uses: true, main: func(s, x *vq.Stream) bool { return c02MaskedEq(s.SHost, x.CHost, bits) }},
		)
	}
	return pool[rapid.IntRange(0, len(pool)-1).Draw(t, "cross")]
}

func c02GenPlainFilter(t *rapid.T, pools *c02Pools) c02SubTerm {
	kinds := 4
	if len(pools.subTags) > 0 {
		kinds = 5
	}
	switch rapid.IntRange(0, kinds).Draw(t, "plainkind") {
	case 5:
		st := rapid.SampledFrom(pools.subTags).Draw(t, "plaintag")
		return c02SubTerm{text: "tag:" + strings.TrimPrefix(st.tg.name, "tag/"), main: func(s, _ *vq.Stream) bool { return st.holds(s) }}
	case 0:
		p := rapid.SampledFrom(pools.ports).Draw(t, "p")
		return c02SubTerm{text: fmt.Sprintf("sport:%d", p), main: func(s, _ *vq.Stream) bool { return s.SPort == p }}
	case 1:
		p := rapid.SampledFrom(pools.ports).Draw(t, "p")
		return c02SubTerm{text: fmt.Sprintf("cport:%d:", p), main: func(s, _ *vq.Stream) bool { return s.CPort >= p }}
	case 2:
		a := uint64(rapid.IntRange(0, 20).Draw(t, "ida"))
		return c02SubTerm{text: fmt.Sprintf("id:%d:", a), main: func(s, _ *vq.Stream) bool { return s.ID >= a }}
	case 3:
		return c02SubTerm{text: "protocol:tcp", main: func(s, _ *vq.Stream) bool { return s.Proto == 1 }}
	default:
		n := uint64(rapid.SampledFrom([]int{0, 1, 2, 100}).Draw(t, "n"))
		return c02SubTerm{text: fmt.Sprintf("cbytes:%d:", n), main: func(s, _ *vq.Stream) bool { return s.CBytes >= n }}
	}
}

func c02GenSubPart(t *rapid.T, pools *c02Pools, withSub bool) *c02SubPart {
	p := &c02SubPart{}
	add := func(tm c02SubTerm, mayNegate bool) {
		p.terms = append(p.terms, tm)
		p.neg = append(p.neg, mayNegate && rapid.IntRange(0, 5).Draw(t, "neg") == 0)
	}
	if withSub {
		names := []string{"s"}
		if rapid.IntRange(0, 3).Draw(t, "twosub") == 0 && os.Getenv("VERIF_C02_NO_TWOSUB") == "" {
			names = []string{"a", "b"}
		}
		for _, sq := range names {
			hasCapture := rapid.IntRange(0, 2).Draw(t, "capture") == 0
			if hasCapture {
				add(c02SubTerm{text: fmt.Sprintf(`@%s:cdata:"(?P<v>k[0-9])"`, sq), sq: sq, capt: true, sub: func(x *vq.Stream) bool { return c02CapValue(x) != nil }}, false)
			}
			for i, n := 0, rapid.IntRange(1, 2).Draw(t, "nsub"); i < n && !(hasCapture && i == 1); i++ {
				add(c02GenSubFilter(t, pools, sq), true)
			}
			for i, n := 0, rapid.IntRange(1, 2).Draw(t, "ncross"); i < n; i++ {
				add(c02GenCrossFilter(t, sq, hasCapture), true)
			}
		}
	}
	for i, n := 0, rapid.IntRange(0, 2).Draw(t, "nplain"); i < n || len(p.terms) == 0; i++ {
		add(c02GenPlainFilter(t, pools), true)
	}
	// the order of the filters in the text is free
	if rapid.Bool().Draw(t, "mainfirst") {
		for i, j := 0, len(p.terms)-1; i < j; i, j = i+1, j-1 {
			p.terms[i], p.terms[j] = p.terms[j], p.terms[i]
			p.neg[i], p.neg[j] = p.neg[j], p.neg[i]
		}
	}
	return p
}

func c02SubProp(rt *rapid.T, c *vlib.Case) {
	pop := c02GenPop(rt)
	pop.conv = nil
	pools := c02GenPools(rt)
	// the filters use the values the population was drawn from, plus the values of streams that exist
	for _, v := range pop.visible {
		pools.ports = append(pools.ports, v.s.CPort, v.s.SPort)
		if len(v.s.CHost) == 4 {
			pools.h4 = append(pools.h4, v.s.CHost)
		} else {
			pools.h6 = append(pools.h6, v.s.CHost)
		}
	}
	pools.subTags = c02GenSubTags(rt, pools)
	var tags []*c02Tag
	for _, st := range pools.subTags {
		tags = append(tags, st.tg)
	}
	type search struct {
		parts []*c02SubPart
		sp    *c02Search
	}
	var searches []*search
	for i, n := 0, rapid.IntRange(1, 8).Draw(rt, "nsearches"); i < n; i++ {
		s := &search{sp: &c02Search{}}
		s.parts = append(s.parts, c02GenSubPart(rt, pools, true))
		if rapid.IntRange(0, 3).Draw(rt, "or") == 0 {
			s.parts = append(s.parts, c02GenSubPart(rt, pools, rapid.Bool().Draw(rt, "secondsub")))
		}
		var texts []string
		for _, p := range s.parts {
			if len(s.parts) > 1 {
				texts = append(texts, "("+p.text()+")")
			} else {
				texts = append(texts, p.text())
			}
		}
		c02GenSearchRest(rt, s.sp)
		s.sp.extract = false
		raw := strings.Join(texts, " or ")
		if len(s.sp.sorting) != 0 {
			keys := make([]string, len(s.sp.sorting))
			for i, k := range s.sp.sorting {
				keys[i] = k.Key
				if k.Desc {
					keys[i] = "-" + k.Key
				}
			}
			raw += " sort:" + strings.Join(keys, ",")
		}
		if s.sp.limitTerm {
			raw += fmt.Sprintf(" limit:%d", s.sp.limit)
		}
		s.sp.raw = raw
		parts := s.parts
		s.sp.accept = func(v *c02Vis) (bool, error) {
			for _, p := range parts {
				if p.accepts(v.s, pop.visible) {
					return true, nil
				}
			}
			return false, nil
		}
		searches = append(searches, s)
	}
	render := func(extra map[string]any) any {
		m := c02RenderWorld(pop, tags)
		sl := []any{}
		for _, s := range searches {
			sl = append(sl, s.sp.render())
		}
		m["searches"] = sl
		for k, v := range extra {
			m[k] = v
		}
		return m
	}
	c.Render(func() any { return render(nil) })
	dir, err := os.MkdirTemp("", "c02s-")
	if err != nil {
		rt.Fatalf("harness: %v", err)
	}
	defer os.RemoveAll(dir)
	w, err := c02Build(dir, pop, tags)
	if err != nil {
		rt.Fatalf("%v", err)
	}
	defer w.close()
	c.Labelf("files=%d", len(pop.files))
	c.LabelIf(pop.shadowed > 0, "pop:shadowed-id")
	nontrivial, reached := false, 0
	var key strings.Builder
	for i, s := range searches {
		q, err := query.Parse(s.sp.raw)
		if err != nil {
			rt.Fatalf("generated query %q does not parse: %v", s.sp.raw, err)
		}
		msg, r := c02Check(w, s.sp, q, c02CondShape{})
		if msg != "" {
			c.Render(func() any {
				return render(map[string]any{"failing_search": i, "failing_query": s.sp.render(), "normal_form": q.Conditions.String()})
			})
			rt.Fatalf("search #%d %v: %s", i, s.sp.render(), msg)
		}
		if r.discard != "" {
			c.Label("search-discard:" + r.discard)
			continue
		}
		reached++
		fmt.Fprintf(&key, "%s|%d|%d|%v;", s.sp.raw, s.sp.limit, s.sp.page, s.sp.restrict)
		c.LabelIf(len(s.parts) > 1, "sub:or-of-two-parts")
		c.LabelIf(len(s.parts) > 1 && !s.parts[1].hasSub(), "sub:or-with-plain-part")
		c.LabelIf(r.matches == 0, "M=0")
		c.LabelIf(r.matches >= 2, "M>=2")
		c.LabelIf(r.matches >= 2 && r.matches < len(pop.visible), "M-proper-subset")
		c.LabelIf(r.limited, "limit<M")
		c.LabelIf(s.sp.restrict != nil, "id-restriction")
		for _, p := range s.parts {
			for i, tm := range p.terms {
				c.LabelIf(p.neg[i] && tm.sub != nil, "sub:negated-sub-filter")
				c.LabelIf(p.neg[i] && tm.uses, "sub:negated-cross-filter")
				c.LabelIf(tm.capt, "sub:variable-bound-by-capture")
				c.LabelIf(tm.sq == "b", "sub:two-sub-queries")
				c.LabelIf(strings.Contains(tm.text, ":tag:") && tm.sub != nil, "sub:tag-filter-inside-sub-query")
				c.LabelIf(strings.HasPrefix(tm.text, "tag:"), "sub:tag-filter-in-main-query")
			}
		}
		if r.matches >= 1 && r.matches < len(pop.visible) {
			nontrivial = true
		}
	}
	c.Count("searches", reached)
	if reached == 0 {
		c.Discard("no-search-reached-oracle")
		return
	}
	if nontrivial {
		c.NonTrivial(c02Key(pop, nil, nil) + key.String())
	}
}

func TestVerifC02Sub(t *testing.T) {
	vlib.Check(t, "C02", c02SubProp)
}
