package index_test

// C07 — merging index files is invisible.
// A stack of index files (oldest first, as the manager keeps them) is built from
// overlapping populations; runs of the stack (mostly suffixes, as the manager
// merges them) are replaced by their merge until one file remains. After every
// step everything observable of the stack must be unchanged
// (vidx.ObserveStack before == after), the inputs must be untouched, and the
// merge output must be an index file holding exactly the newest version of every
// stream of the run (vidx.CheckReader). See DESIGN.md §5 C07.

import (
	"context"
	"fmt"
	"io"
	"log"
	"net"
	"os"
	"path/filepath"
	"sort"
	"strings"
	"testing"
	"time"

	"github.com/spq/pkappa2/internal/index"
	"github.com/spq/pkappa2/internal/query"
	"github.com/spq/pkappa2/internal/verif/vidx"
	"github.com/spq/pkappa2/internal/verif/vlib"
	"pgregory.net/rapid"
)

const (
	fC07StartUnits = "F-C07-hostgroup-start-units"
	fC07PopNBytes  = "F-C07-merge-hostgroup-popn-bytes"
	fC07Aliasing   = "F-C07-addindex-host-aliasing"
)

// c07ExtraOracle is the search part of the C07 oracle ("the result of every
// search stays the same"): before/after are the stacks (oldest first) around
// one merge step. Searches are limit-free and limited ones over every sort key
// that has a per-file lookup section, plus time-window filters placed on and
// next to the first/last packet times of the visible streams. Results are
// compared as the sequence of (sort key value) and as id sets per key value,
// so a different order among equal keys is not an alarm. Returns "" when nothing differs.
func c07ExtraOracle(before, after []*index.Reader) string {
	ctx := context.Background()
	type res struct {
		keys []string
		more bool
	}
	run := func(readers []*index.Reader, text string, limit uint) (*res, error) {
		q, err := query.Parse(text)
		if err != nil {
			return nil, fmt.Errorf("query %q: %v", text, err)
		}
		streams, more, _, err := index.SearchStreams(ctx, readers, nil, q.ReferenceTime, q.Conditions, nil, q.Sorting, limit, 0, nil, nil, false)
		if err != nil {
			return nil, fmt.Errorf("search %q: %v", text, err)
		}
		r := &res{more: more}
		// group ids by (first, last) time so that ties may come in any order
		var cur string
		var ids []uint64
		flush := func() {
			if cur == "" {
				return
			}
			sort.Slice(ids, func(i, j int) bool { return ids[i] < ids[j] })
			if limit != 0 {
				// under a limit any of the streams with equal keys may fill the page: compare keys and counts only
				r.keys = append(r.keys, fmt.Sprintf("%s x%d", cur, len(ids)))
			} else {
				r.keys = append(r.keys, fmt.Sprintf("%s%v", cur, ids))
			}
			ids = nil
		}
		for _, s := range streams {
			k := ""
			switch {
			case strings.Contains(text, "sort:ftime"), strings.Contains(text, "sort:-ftime"):
				k = fmt.Sprint(s.FirstPacket().UnixNano())
			case strings.Contains(text, "sort:ltime"), strings.Contains(text, "sort:-ltime"):
				k = fmt.Sprint(s.LastPacket().UnixNano())
			case strings.Contains(text, "sort:id"):
				k = fmt.Sprint(s.ID())
			default:
				k = "set"
			}
			if k != cur {
				flush()
				cur = k
			}
			ids = append(ids, s.ID())
		}
		flush()
		if cur == "set" || len(streams) == 0 {
			// no order requested: compare as one set
		}
		return r, nil
	}
	// time constants from the visible streams of the stack before the merge
	vis, err := vidx.ObserveStack(before, false)
	if err != nil {
		return ""
	}
	var times []int64
	for _, o := range vis {
		times = append(times, o.FirstUS, o.LastUS)
	}
	sort.Slice(times, func(i, j int) bool { return times[i] < times[j] })
	queries := []struct {
		text  string
		limit uint
	}{
		{"sort:ftime", 0}, {"sort:-ftime", 0}, {"sort:ltime", 0}, {"sort:-ltime", 0}, {"sort:id", 0},
		{"sort:ftime", 2}, {"sort:-ftime", 3}, {"sort:ltime", 1}, {"sort:-ltime", 2}, {"sort:-id", 2},
	}
	abs := func(us int64) string { return time.UnixMicro(us).In(time.Local).Format("2006-01-02 150405") }
	if len(times) != 0 {
		for _, t := range []int64{times[0], times[len(times)/2], times[len(times)-1]} {
			queries = append(queries,
				struct {
					text  string
					limit uint
				}{fmt.Sprintf(`ftime:"%s:" sort:id`, abs(t)), 0},
				struct {
					text  string
					limit uint
				}{fmt.Sprintf(`ltime:":%s" sort:id`, abs(t)), 0},
				struct {
					text  string
					limit uint
				}{fmt.Sprintf(`time:"%s:%s" sort:id`, abs(t-1_000_000), abs(t+1_000_000)), 0},
				struct {
					text  string
					limit uint
				}{fmt.Sprintf(`ftime:"%s:" sort:ftime`, abs(t)), 2},
			)
		}
	}
	// filters built from the attributes and the payload of visible streams, combined with OR / NOT: the merge
	// must not change which streams they select (ports, hosts, byte counts, protocol, ids, payload bytes)
	ObsWithPayload, err := vidx.ObserveStack(before, true)
	if err == nil {
		ids := vidx.SortedIDs(ObsWithPayload)
		picks := []uint64{}
		if n := len(ids); n > 0 {
			picks = append(picks, ids[0], ids[n-1])
		}
		// payload filters read the payload of every stream: only on stacks of moderate size (cost only)
		total := 0
		for _, o := range ObsWithPayload {
			total += len(o.Payload[0]) + len(o.Payload[1])
		}
		hexRe := func(b []byte) string {
			var sb strings.Builder
			for _, c := range b {
				fmt.Fprintf(&sb, `\x%02x`, c)
			}
			return sb.String()
		}
		for _, id := range picks {
			o := ObsWithPayload[id]
			add := func(text string) {
				queries = append(queries, struct {
					text  string
					limit uint
				}{text + " sort:id", 0})
			}
			add(fmt.Sprintf("cport:%d", o.CPort))
			add(fmt.Sprintf("-sport:%d cbytes:%d:", o.SPort, o.ClientBytes))
			if len(ids) <= 300 {
				// a host filter costs hosts x hosts steps per host group: only on small populations (cost only)
				add(fmt.Sprintf("chost:%s or id:%d:", o.Client, id))
				add(fmt.Sprintf("host:%s -id:%d", o.Server, id))
			}
			add(fmt.Sprintf("protocol:%s sbytes::%d", strings.ToLower(o.Protocol), o.ServerBytes))
			for dir, key := range []string{"cdata", "sdata"} {
				if pl := o.Payload[dir]; len(pl) >= 3 && total < 200000 {
					add(fmt.Sprintf(`%s:"%s"`, key, hexRe(pl[len(pl)-3:])))
					if dir == 0 {
						add(fmt.Sprintf(`-%s:"%s"`, key, hexRe(pl[:2])))
					}
				}
			}
		}
	}
	for _, q := range queries {
		a, err := run(before, q.text, q.limit)
		if err != nil {
			return "before the merge: " + err.Error()
		}
		b, err := run(after, q.text, q.limit)
		if err != nil {
			return "after the merge: " + err.Error()
		}
		if fmt.Sprint(a.keys) != fmt.Sprint(b.keys) || a.more != b.more {
			return fmt.Sprintf("search %q (limit %d) returned %v (more=%v) before the merge and %v (more=%v) after it", q.text, q.limit, a.keys, a.more, b.keys, b.more)
		}
	}
	return ""
}

// c07File is one index file of the stack together with its model.
type c07File struct {
	r      *index.Reader
	recs   map[uint64]*vidx.SRec // what the file must contain
	merged bool                  // output of an earlier merge
	refSec int64
}

type c07Step struct {
	From, To int // run [From, To) of the current stack
}

// c07Visible returns the newest version of every stream of a run of files.
func c07Visible(files []*c07File) map[uint64]*vidx.SRec {
	out := map[uint64]*vidx.SRec{}
	for _, f := range files {
		for id, r := range f.recs {
			out[id] = r
		}
	}
	return out
}

func c07Readers(files []*c07File) []*index.Reader {
	rs := make([]*index.Reader, len(files))
	for i, f := range files {
		rs[i] = f.r
	}
	return rs
}

func c07List(m map[uint64]*vidx.SRec) []*vidx.SRec {
	out := make([]*vidx.SRec, 0, len(m))
	for _, id := range vidx.SortedIDs(m) {
		out = append(out, m[id])
	}
	return out
}

type c07Stats struct {
	steps, shadowed, refDiffer, refLater, refEarlier, mergedInput, midRun, single, observed int
	hostOverlap, hostDisjoint, multiOut                                                     int
}

// c07Chain applies the steps to the stack and checks the oracle after each one.
// The stack is consumed (all readers closed, files removed with dir).
func c07Chain(dir string, files []*c07File, steps []c07Step, st *c07Stats, fail func(string, ...any)) {
	defer func() {
		for _, f := range files {
			f.r.Close()
		}
	}()
	for si, step := range steps {
		run := files[step.From:step.To]
		// classification of the step
		seen := map[uint64]bool{}
		shadow := false
		hosts := []map[string]bool{}
		for _, f := range run {
			h := map[string]bool{}
			for id, r := range f.recs {
				if seen[id] {
					shadow = true
				}
				seen[id] = true
				h[string(r.CAddr)] = true
				h[string(r.SAddr)] = true
			}
			hosts = append(hosts, h)
			if f.merged {
				st.mergedInput++
			}
		}
		for i := 1; i < len(run); i++ {
			if run[i].refSec != run[i-1].refSec {
				st.refDiffer++
			}
			if run[i].refSec > run[i-1].refSec {
				st.refLater++
			}
			if run[i].refSec < run[i-1].refSec {
				st.refEarlier++
			}
			common := 0
			for h := range hosts[i] {
				if hosts[i-1][h] {
					common++
				}
			}
			if common > 0 {
				st.hostOverlap++
			} else {
				st.hostDisjoint++
			}
		}
		if shadow {
			st.shadowed++
		}
		if step.To < len(files) {
			st.midRun++
		}
		if len(run) == 1 {
			st.single++
		}
		st.steps++

		stack := c07Readers(files)
		before, err := vidx.ObserveStack(stack, true)
		if err != nil {
			fail("step %d: reading the stack before the merge: %v", si, err)
		}
		merged, err := index.Merge(dir, c07Readers(run))
		if err != nil {
			fail("step %d: Merge of files %d..%d failed: %v", si, step.From, step.To-1, err)
		}
		if len(merged) == 0 {
			fail("step %d: Merge of files %d..%d returned no index", si, step.From, step.To-1)
		}
		closeMerged := func() {
			for _, m := range merged {
				m.Close()
			}
		}
		if len(merged) > 1 {
			st.multiOut++
		}
		// the manager replaces the run by the merge output in the order Merge returns it
		newStack := append(append(append([]*index.Reader{}, stack[:step.From]...), merged...), stack[step.To:]...)
		after, err := vidx.ObserveStack(newStack, true)
		if err != nil {
			closeMerged()
			fail("step %d: reading the stack after merging files %d..%d: %v", si, step.From, step.To-1, err)
		}
		st.observed += len(before)
		if d := vidx.DiffStacks(after, before, true); d != "" {
			closeMerged()
			fail("step %d: after replacing files %d..%d of %d by their merge: %s", si, step.From, step.To-1, len(files), d)
		}
		// the inputs are still served while the merge runs: they must be untouched
		again, err := vidx.ObserveStack(stack, true)
		if err != nil {
			closeMerged()
			fail("step %d: reading the input files again after the merge: %v", si, err)
		}
		if d := vidx.DiffStacks(again, before, true); d != "" {
			closeMerged()
			fail("step %d: the merge of files %d..%d changed what its input files return: %s", si, step.From, step.To-1, d)
		}
		vis := c07Visible(run)
		if len(merged) == 1 {
			// the output is an index file that holds exactly the newest versions of the run
			if msg, _ := vidx.CheckReader(merged[0], c07List(vis)); msg != "" {
				closeMerged()
				fail("step %d: merge output of files %d..%d: %s", si, step.From, step.To-1, msg)
			}
		}
		if d := c07ExtraOracle(stack, newStack); d != "" {
			closeMerged()
			fail("step %d: %s", si, d)
		}
		// replace the run
		for _, f := range run {
			f.r.Close()
			os.Remove(f.r.Filename())
		}
		var repl []*c07File
		for i, m := range merged {
			nf := &c07File{r: m, merged: true, recs: map[uint64]*vidx.SRec{}}
			if len(merged) == 1 {
				nf.recs = vis
			} else {
				// not reachable with generated sizes; keep the model consistent anyway
				for id := range m.StreamIDs() {
					nf.recs[id] = vis[id]
				}
				_ = i
			}
			nf.refSec = vidx.RefSec(c07List(nf.recs))
			repl = append(repl, nf)
		}
		files = append(append(append([]*c07File{}, files[:step.From]...), repl...), files[step.To:]...)
	}
}

// c07GenSteps draws merge steps until one file remains: mostly suffixes (what
// the manager merges), sometimes another contiguous run or a single file.
func c07GenSteps(rt *rapid.T, n int) []c07Step {
	var steps []c07Step
	for n > 1 {
		from := rapid.IntRange(0, n-2).Draw(rt, "k")
		to := n
		switch rapid.IntRange(0, 9).Draw(rt, "runkind") {
		case 0: // a run that is not a suffix
			if from+2 < n {
				to = rapid.IntRange(from+2, n-1).Draw(rt, "runend")
			}
		case 1: // a single file (copy)
			from = rapid.IntRange(0, n-1).Draw(rt, "single")
			to = from + 1
			// make sure the chain still ends
			if len(steps) > 6 {
				from, to = 0, n
			}
		}
		steps = append(steps, c07Step{from, to})
		n -= to - from - 1
	}
	return steps
}

func c07RenderFiles(models [][]*vidx.SRec) []any {
	out := []any{}
	for _, m := range models {
		out = append(out, c01Briefs(m))
	}
	return out
}

func c07Build(dir string, models [][]*vidx.SRec, fail func(string, ...any)) []*c07File {
	var files []*c07File
	for i, recs := range models {
		r, err := vidx.BuildIndex(filepath.Join(dir, fmt.Sprintf("in%d.idx", i)), recs)
		if err != nil {
			for _, f := range files {
				f.r.Close()
			}
			fail("writing input file %d failed: %v", i, err)
		}
		f := &c07File{r: r, recs: map[uint64]*vidx.SRec{}, refSec: vidx.RefSec(recs)}
		for _, rec := range recs {
			f.recs[rec.ID] = rec
		}
		files = append(files, f)
	}
	return files
}

func c07Labels(c *vlib.Case, st *c07Stats) {
	c.Count("merge_steps", st.steps)
	c.Count("streams_compared", st.observed)
	c.LabelIf(st.shadowed > 0, "run-with-shadowed-id")
	c.LabelIf(st.refDiffer > 0, "run-with-different-reference-seconds")
	c.LabelIf(st.refLater > 0, "newer-file-later-reference")
	c.LabelIf(st.refEarlier > 0, "newer-file-earlier-reference")
	c.LabelIf(st.mergedInput > 0, "input-is-merge-output")
	c.LabelIf(st.midRun > 0, "run-not-a-suffix")
	c.LabelIf(st.single > 0, "single-file-run")
	c.LabelIf(st.hostOverlap > 0, "adjacent-files-share-hosts")
	c.LabelIf(st.hostDisjoint > 0, "adjacent-files-disjoint-hosts")
	c.LabelIf(st.multiOut > 0, "merge-returned-several-files")
	c.Labelf("steps=%d", st.steps)
}

func c07Prop(t *testing.T, rt *rapid.T, c *vlib.Case) {
	u := vidx.GenUniverse(rt)
	u.BigBudget = 3 << 16
	u.NoIdle = rapid.IntRange(0, 4).Draw(rt, "noidle") != 0
	nfiles := rapid.IntRange(2, 5).Draw(rt, "nfiles")
	idPool, _ := vidx.GenIDs(rt, 48)
	latest := map[uint64]*vidx.SRec{}
	var known []uint64
	var models [][]*vidx.SRec
	for f := 0; f < nfiles; f++ {
		u.GenWindow(rt)
		ns := rapid.IntRange(1, 8).Draw(rt, "nstreams")
		inFile := map[uint64]bool{}
		var recs []*vidx.SRec
		for j := 0; j < ns; j++ {
			var rec *vidx.SRec
			if len(known) > 0 && rapid.IntRange(0, 9).Draw(rt, "reuse") < 4 {
				id := known[rapid.IntRange(0, len(known)-1).Draw(rt, "which")]
				if !inFile[id] {
					rec = u.GenVersion(rt, latest[id])
				}
			}
			if rec == nil {
				if len(idPool) == 0 {
					break
				}
				id := idPool[0]
				idPool = idPool[1:]
				rec = u.GenStream(rt, id)
				known = append(known, id)
			}
			inFile[rec.ID] = true
			latest[rec.ID] = rec
			recs = append(recs, rec)
		}
		if rapid.Bool().Draw(rt, "shuffle") {
			recs = rapid.Permutation(recs).Draw(rt, "addorder")
		}
		models = append(models, recs)
	}
	steps := c07GenSteps(rt, nfiles)
	c.Render(func() any { return map[string]any{"files_oldest_first": c07RenderFiles(models), "steps": steps} })
	c.Trace(t)

	dir, err := os.MkdirTemp("", "c07-")
	if err != nil {
		panic(err)
	}
	defer os.RemoveAll(dir)
	files := c07Build(dir, models, rt.Fatalf)
	st := &c07Stats{}
	// labels are registered even when the oracle fails
	defer func() {
		c07Labels(c, st)
		for _, m := range models {
			fs := vidx.Stats(m)
			c.LabelIf(fs.MaxDirChanges > 1000, "input-with-direction-changes>1000")
			c.LabelIf(fs.ChattyNotLast, "input-with-direction-changes>1000-then-more-streams")
		}
		if st.shadowed > 0 && st.refDiffer > 0 {
			var sb strings.Builder
			for _, m := range models {
				sb.WriteString(c01Key(m))
				sb.WriteString("||")
			}
			fmt.Fprint(&sb, steps)
			c.NonTrivial(sb.String())
		}
	}()
	c07Chain(dir, files, steps, st, rt.Fatalf)
}

func TestVerifC07(t *testing.T) {
	log.SetOutput(io.Discard) // index.Merge logs every merge
	vidx.MemWatchdog(c01HeapLimit)
	vlib.Check(t, "C07", func(rt *rapid.T, c *vlib.Case) { c07Prop(t, rt, c) })
}

// ---------------------------------------------------------------------------
// large host tables

// c07HostFile describes one input of the large-host campaign: one-packet
// streams for the host pairs [lo, lo+n) of a numbered host space (stream ID =
// idBase + pair number, so overlapping ranges are shadowed versions), an
// optional stream that adds a single new host, then a few generated streams.
type c07HostFile struct {
	Lo, N  int
	Single bool
}

func c07BulkFile(b *c01Bulk, fileNo int, hf c07HostFile, idBase uint64, singleHost net.IP) []*vidx.SRec {
	var recs []*vidx.SRec
	for k := hf.Lo; k < hf.Lo+hf.N; k++ {
		cl, sv := vidx.SeqHost(b.fam, b.base, 2*k), vidx.SeqHost(b.fam, b.base, 2*k+1)
		b.n = k*8 + fileNo // ports / payload differ between the versions of one ID
		recs = append(recs, b.stream(idBase+uint64(k), cl, sv))
	}
	if hf.Single {
		b.n = 1<<20 + fileNo
		recs = append(recs, b.stream(idBase+1<<21+uint64(fileNo), singleHost, vidx.SeqHost(b.fam, b.base, 2*hf.Lo)))
	}
	return recs
}

func c07HostsProp(t *testing.T, rt *rapid.T, c *vlib.Case, open map[string]bool, fam int) {
	u := vidx.GenUniverse(rt)
	u.NoBig, u.NoIdle = true, true
	ownMode := 0
	if fam == 16 {
		ownMode = 1
	}
	capN := vidx.HostCapacity(fam)
	half := capN / 2
	restricted := open[fC07StartUnits] || open[fC07PopNBytes] || open[fC07Aliasing]
	excluded := 0
	b := &c01Bulk{fam: fam, base: rapid.Uint32Range(0x0b000000, 0xd0000000).Draw(rt, "hostbase"), cap0: u.Caps[0],
		timeUS: u.BaseSec * 1000000}
	idBase := rapid.SampledFrom([]uint64{0, 7, 1<<32 - 1000}).Draw(rt, "idbase")
	nfiles := rapid.SampledFrom([]int{2, 3, 3}).Draw(rt, "nfiles")
	var hfs []c07HostFile
	var models [][]*vidx.SRec
	newHostNo := 4 * capN // hosts beyond every bulk range
	var tails [][]*vidx.SRec
	for f := 0; f < nfiles; f++ {
		hf := c07HostFile{
			Lo:     rapid.SampledFrom([]int{0, 0, 1, half / 4, half / 2, half / 2, half - 8, half - 1, half, half, half + 3, 3 * half / 2}).Draw(rt, "lo"),
			N:      rapid.SampledFrom([]int{3, 3, half / 8, half / 2, half / 2, 3 * half / 4, half - 2, half - 1, half - 1, half, half, half + 1, half + 2}).Draw(rt, "n"),
			Single: rapid.Bool().Draw(rt, "single"),
		}
		if restricted {
			// open host-table findings: the whole case stays within one host group per family
			if hf.Lo+hf.N > half-16 || hf.Lo > half/2 {
				excluded++
				if hf.Lo > half/2 {
					hf.Lo = half / 2
				}
				if hf.Lo+hf.N > half-16 {
					hf.N = half - 16 - hf.Lo
				}
			}
		}
		hfs = append(hfs, hf)
		b.timeUS = (u.BaseSec+int64(rapid.IntRange(-2, 2).Draw(rt, "filesec")))*1000000 + int64(rapid.IntRange(0, 999999).Draw(rt, "fileus"))
		recs := c07BulkFile(b, f, hf, idBase, vidx.SeqHost(fam, b.base, 3*capN+f))
		// tail: a few generated streams with new / shared hosts and IDs shared between files
		var tail []*vidx.SRec
		for j, n := 0, rapid.IntRange(0, 4).Draw(rt, "ntail"); j < n; j++ {
			u.FamMode = ownMode
			if rapid.IntRange(0, 3).Draw(rt, "otherfam") == 0 {
				u.FamMode = 1 - ownMode
			}
			id := uint64(1<<41) + uint64(rapid.IntRange(0, 5).Draw(rt, "tailid"))
			dup := false
			for _, tr := range tail {
				dup = dup || tr.ID == id
			}
			if dup {
				continue
			}
			r := u.GenStream(rt, id)
			if u.FamMode == ownMode {
				switch rapid.IntRange(0, 3).Draw(rt, "tailhosts") {
				case 0: // two hosts no bulk range contains
					if restricted && newHostNo >= 4*capN+8 {
						excluded++
						r.CAddr, r.SAddr = vidx.SeqHost(fam, b.base, 0), vidx.SeqHost(fam, b.base, 1)
						break
					}
					r.CAddr, r.SAddr = vidx.SeqHost(fam, b.base, newHostNo), vidx.SeqHost(fam, b.base, newHostNo+1)
					newHostNo += 2
				case 1: // hosts of this file's range
					r.CAddr = vidx.SeqHost(fam, b.base, 2*hf.Lo+rapid.IntRange(0, 2*hf.N-1).Draw(rt, "h1"))
					r.SAddr = vidx.SeqHost(fam, b.base, 2*hf.Lo+rapid.IntRange(0, 2*hf.N-1).Draw(rt, "h2"))
				case 2: // a host of the universe's low range (maybe in another file only)
					hi := 2*half - 40
					r.CAddr = vidx.SeqHost(fam, b.base, rapid.IntRange(0, hi).Draw(rt, "h1"))
					r.SAddr = vidx.SeqHost(fam, b.base, rapid.IntRange(0, hi).Draw(rt, "h2"))
				default: // small pool hosts
				}
			}
			tail = append(tail, r)
		}
		recs = append(recs, tail...)
		tails = append(tails, tail)
		models = append(models, recs)
	}
	steps := c07GenSteps(rt, nfiles)
	if nfiles == 3 && rapid.Bool().Draw(rt, "pairwise") {
		// newest two first, then the oldest file with the output: the second merge starts from a merge output
		steps = []c07Step{{1, 3}, {0, 2}}
	}
	c.Count("excluded_known", excluded)
	c.Render(func() any {
		return map[string]any{"family": fam, "hostbase": b.base, "idbase": idBase, "bulk_files_oldest_first": hfs,
			"tails": c07RenderFiles(tails), "steps": steps,
			"note": "file f holds one-packet streams for host pairs [Lo,Lo+N) (hosts 2k,2k+1; stream id idbase+k), one more host if Single, then its tail"}
	})
	c.Trace(t)
	// classification: hosts per file and of the union
	union := map[int]bool{}
	maxFile := 0
	for _, hf := range hfs {
		for k := hf.Lo; k < hf.Lo+hf.N; k++ {
			union[k] = true
		}
		if 2*hf.N > maxFile {
			maxFile = 2 * hf.N
		}
	}
	c.Labelf("hosts:family=v%d", map[int]int{4: 4, 16: 6}[fam])
	c.LabelIf(2*len(union) > capN, "hosts:union-overflows-group")
	c.LabelIf(maxFile > capN, "hosts:input-with-second-group")
	c.LabelIf(maxFile == capN-2 || maxFile == capN, "hosts:input-group-nearly-or-exactly-full")
	c.LabelIf(restricted, "hosts:restricted-by-open-findings")

	dir, err := os.MkdirTemp("", "c07h-")
	if err != nil {
		panic(err)
	}
	defer os.RemoveAll(dir)
	files := c07Build(dir, models, rt.Fatalf)
	for _, f := range files {
		c.LabelIf(c07SameFamilyGroups(f.recs, fam) >= 2, "second-host-group-same-family-input")
	}
	st := &c07Stats{}
	defer func() {
		c07Labels(c, st)
		c.NonTrivial(fmt.Sprintf("%d|%d|%d|%v|%v|%s", fam, b.base, idBase, hfs, steps, func() string {
			s := ""
			for _, tl := range tails {
				s += c01Key(tl) + "||"
			}
			return s
		}()))
	}()
	c07Chain(dir, files, steps, st, rt.Fatalf)
}

// c07SameFamilyGroups replays the writer's placement for a file's records
// (in ID order, which is not the add order: an estimate used for labels only).
func c07SameFamilyGroups(recs map[uint64]*vidx.SRec, fam int) int {
	n := map[string]bool{}
	for _, r := range recs {
		if len(r.CAddr) == fam {
			n[string(r.CAddr)] = true
			n[string(r.SAddr)] = true
		}
	}
	return (len(n) + vidx.HostCapacity(fam) - 1) / vidx.HostCapacity(fam)
}

func TestVerifC07Hosts6(t *testing.T) {
	log.SetOutput(io.Discard)
	vidx.MemWatchdog(c01HeapLimit)
	open := vlib.OpenFindings()
	vlib.Check(t, "C07", func(rt *rapid.T, c *vlib.Case) { c07HostsProp(t, rt, c, open, 16) })
}

func TestVerifC07Hosts4(t *testing.T) {
	log.SetOutput(io.Discard)
	vidx.MemWatchdog(c01HeapLimit)
	open := vlib.OpenFindings()
	vlib.Check(t, "C07", func(rt *rapid.T, c *vlib.Case) { c07HostsProp(t, rt, c, open, 4) })
}

// ---------------------------------------------------------------------------
// fixed cases

// c07FixedRun builds the files (oldest first), merges all of them and applies the oracle.
func c07FixedRun(models [][]*vidx.SRec, rendering any) (msg string, r any) {
	dir, err := os.MkdirTemp("", "c07fixed-")
	if err != nil {
		panic(err)
	}
	defer os.RemoveAll(dir)
	type failure struct{ s string }
	defer func() {
		if rec := recover(); rec != nil {
			f, ok := rec.(failure)
			if !ok {
				panic(rec)
			}
			msg, r = f.s, rendering
		}
	}()
	fail := func(f string, a ...any) { panic(failure{fmt.Sprintf(f, a...)}) }
	files := c07Build(dir, models, fail)
	c07Chain(dir, files, []c07Step{{0, len(models)}}, &c07Stats{}, fail)
	return "", rendering
}

func c07FixedV6(lo, n int, fileNo int, extra ...*vidx.SRec) []*vidx.SRec {
	b := &c01Bulk{fam: 16, base: 0x0b000000, cap0: &vidx.Capture{Name: "a.pcap", Next: uint64(fileNo) << 24}, timeUS: (1600000000 + int64(fileNo)) * 1000000}
	recs := c07BulkFile(b, fileNo, c07HostFile{Lo: lo, N: n}, 0, nil)
	return append(recs, extra...)
}

func TestVerifC07Fixed(t *testing.T) {
	log.SetOutput(io.Discard)
	vidx.MemWatchdog(c01HeapLimit)
	one := func(id uint64, fileNo int, c, s net.IP) *vidx.SRec {
		b := &c01Bulk{fam: 16, cap0: &vidx.Capture{Name: "b.pcap", Next: id}, timeUS: (1600000000+int64(fileNo))*1000000 + 500, n: int(id) * 8}
		return b.stream(id, c, s)
	}
	h := func(i int) net.IP { return vidx.SeqHost(16, 0x0b000000, i) }
	vlib.Fixed(t, "C07", []string{fC07StartUnits, fC07PopNBytes, fC07Aliasing}, func(name string) (string, any) {
		switch name {
		case fC07StartUnits:
			// older file: exactly 4096 v6 hosts (a full group, nothing is ever removed from it);
			// newer file: 2 other hosts. The merge output needs a second v6 group.
			return c07FixedRun([][]*vidx.SRec{c07FixedV6(0, 2048, 0), {one(1<<30, 1, h(5000), h(5001))}},
				"older file: v6 host pairs 0..2047 (4096 hosts); newer file: one stream between two other hosts; merge both")
		case fC07PopNBytes:
			// newer file 3000 hosts, older file 3000 other hosts: 1096 of them are added to the
			// writer's first group before it is full and are removed again (bytes instead of hosts)
			return c07FixedRun([][]*vidx.SRec{c07FixedV6(2000, 1500, 0), c07FixedV6(0, 1500, 1)},
				"older file: v6 host pairs 2000..3499; newer file: pairs 0..1499; merge both")
		case fC07Aliasing:
			// newer file: first group left with one free slot (4095 hosts), second group {x, y};
			// older file introduces one new host z: it is appended to the writer's first group, which
			// still shares memory with the newer reader's host table, and overwrites x
			newer := c07FixedV6(0, 2047, 1,
				one(1<<30, 1, h(4094), h(0)),      // 4095th host
				one(1<<30+1, 1, h(6000), h(6001)), // two new hosts: second group
				one(1<<30+2, 1, h(6001), h(6000))) // uses the second group again
			older := []*vidx.SRec{one(1<<30+5, 0, h(7000), h(3))}
			return c07FixedRun([][]*vidx.SRec{older, newer},
				"newer file: 4095 v6 hosts in the first group, 2 in a second; older file: one stream with one new host; merge both")
		}
		return "", nil
	})
}

var _ = sort.Ints
