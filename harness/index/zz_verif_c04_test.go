package index_test

// C04 — payload filters agree with plain regular-expression matching
// (DESIGN.md §5 C04, property text in properties.jsonl).
//
// One case is a *population*: a pool of 2–5 payload expressions (syntax trees
// from internal/verif/vregex glued to literal prefixes / suffixes, fixed-length
// class runs, named captures and @v@ references), 0–3 fake converters, 1–6
// streams whose raw payload and cached converter outputs are assembled *from*
// the expressions (members, near misses, repeated literal prefixes / suffixes,
// filler; split into chunks, interleaved between the directions), written into
// a real index file, and 2–5 queries over the pool (AND of 1–3 conditions, each
// a filter or a THEN sequence of up to three filters, negation of single
// filters and of the last element, converter selector "", ".none", ".name").
//
// Oracle: the set of stream ids returned by index.SearchStreams for
// query.Parse(text).Conditions equals { s : vq.EvalNF(conditions, s) }, where
// vq.EvalNF searches every representation with a plain
// binaryregexp.FindSubmatchIndex on the unshortened remainder.

import (
	"context"
	"fmt"
	"net"
	"os"
	"path/filepath"
	"sort"
	"strings"
	"testing"

	"github.com/spq/pkappa2/internal/index"
	"github.com/spq/pkappa2/internal/query"
	regexanalysis "github.com/spq/pkappa2/internal/tools/regexAnalysis"
	"github.com/spq/pkappa2/internal/verif/vidx"
	"github.com/spq/pkappa2/internal/verif/vlib"
	"github.com/spq/pkappa2/internal/verif/vq"
	"github.com/spq/pkappa2/internal/verif/vregex"
	"pgregory.net/rapid"
	"rsc.io/binaryregexp"
	"rsc.io/binaryregexp/syntax"
)

const (
	// prefix skip / suffix cut / fixed-length window run the expression on a
	// shortened buffer, so ^ $ \A \z \b \B see the cut as the text boundary
	c04FindReanchor = "F-C04-shortcuts-reanchor"
	// a named group that does not take part in the match is sliced with index -1
	c04FindUnmatchedGroup = "F-C04-unmatched-named-group-panic"
	// the exact expression built after a precondition match stores its literal
	// prefix in the shared precondition entry instead of the running progress
	c04FindPrefixLeak = "F-C04-variable-prefix-leaks-into-precondition"
	// the precondition uses .* for the variable, which does not match a newline
	c04FindPrecondNL = "F-C04-precondition-dot-excludes-newline"
	// a captured value with a byte >= 0x80 is pasted raw into the next expression, which then is not valid UTF-8
	c04FindVarHighByte = "F-C04-variable-high-byte-compile-error"
	// regexanalysis.AcceptedLength reports a too large minimum (filed under C18)
	c04FindStaleCache = "F-C18-stale-loop-cache"
)

// ---------------------------------------------------------------------------------------------
// world model: streams, fake converters, index file

type c04Chunk struct {
	Dir  int
	Data []byte
}

type c04Stream struct {
	ID   uint64
	Raw  []c04Chunk            // one packet per chunk
	Conv map[string][]c04Chunk // cached converter outputs by converter name (absent: not cached)
}

// c04Conv implements index.ConverterAccess the way converters.cacheFile does:
// per-direction concatenation, cumulative sizes starting with {0,0} and one
// entry per non-empty chunk, byte counts, wasCached.
type c04Conv struct {
	out map[uint64][]c04Chunk
}

func (c *c04Conv) Data(*index.Stream, bool) ([]index.Data, uint64, uint64, bool, error) {
	return nil, 0, 0, false, nil
}

func (c *c04Conv) DataForSearch(id uint64) ([2][]byte, [][2]int, uint64, uint64, bool, error) {
	chunks, ok := c.out[id]
	if !ok {
		return [2][]byte{}, [][2]int{}, 0, 0, false, nil
	}
	data := [2][]byte{{}, {}}
	sizes := [][2]int{{}}
	for _, ch := range chunks {
		if len(ch.Data) == 0 {
			continue
		}
		data[ch.Dir] = append(data[ch.Dir], ch.Data...)
		sizes = append(sizes, [2]int{len(data[0]), len(data[1])})
	}
	return data, sizes, uint64(len(data[0])), uint64(len(data[1])), true, nil
}

// c04Runs coalesces chunks into direction runs (what the index stores and what
// "conversation order" is defined on).
func c04Runs(chunks []c04Chunk) []vq.Run {
	var runs []vq.Run
	for _, ch := range chunks {
		if len(ch.Data) == 0 {
			continue
		}
		if n := len(runs); n > 0 && runs[n-1].Dir == ch.Dir {
			runs[n-1].Data = append(runs[n-1].Data, ch.Data...)
		} else {
			runs = append(runs, vq.Run{Dir: ch.Dir, Data: append([]byte{}, ch.Data...)})
		}
	}
	return runs
}

func (s *c04Stream) toVQ() *vq.Stream {
	out := &vq.Stream{ID: s.ID, CPort: 1000, SPort: 80, Proto: 1, CHost: net.IP{10, 0, 0, 1}, SHost: net.IP{10, 0, 0, 2},
		Runs: c04Runs(s.Raw), Conv: map[string][]vq.Run{}, Tags: map[string]vq.TagState{}}
	for n, ch := range s.Conv {
		out.Conv[n] = c04Runs(ch)
	}
	for _, r := range out.Runs {
		if r.Dir == 0 {
			out.CBytes += uint64(len(r.Data))
		} else {
			out.SBytes += uint64(len(r.Data))
		}
	}
	return out
}

type c04World struct {
	Convs   []string
	Streams []*c04Stream
}

func (w *c04World) render() any {
	chunks := func(cs []c04Chunk) []string {
		out := []string{}
		for _, c := range cs {
			out = append(out, fmt.Sprintf("%d:%q", c.Dir, c.Data))
		}
		return out
	}
	ss := []any{}
	for _, s := range w.Streams {
		m := map[string]any{"id": s.ID, "raw": chunks(s.Raw)}
		for n, c := range s.Conv {
			m["conv."+n] = chunks(c)
		}
		ss = append(ss, m)
	}
	return map[string]any{"converters": w.Convs, "streams": ss}
}

// open writes the index file and returns the reader, the converter map and the reference streams.
func (w *c04World) open(dir string) (*index.Reader, map[string]index.ConverterAccess, []*vq.Stream, error) {
	recs := make([]*vidx.SRec, 0, len(w.Streams))
	pkt := uint64(0)
	for i, s := range w.Streams {
		rec := &vidx.SRec{ID: s.ID, CAddr: net.IP{10, 0, 0, 1}, SAddr: net.IP{10, 0, 0, 2}, CPort: 1000, SPort: 80}
		t := int64(1600000000)*1000000 + int64(i)*1000000
		// a payload-less first packet defines the client (the handshake)
		rec.Packets = append(rec.Packets, vidx.SPacket{File: "c04.pcap", Index: pkt, TimeUS: t, Dir: 0})
		pkt++
		for _, ch := range s.Raw {
			if len(ch.Data) == 0 {
				continue
			}
			t += 1000
			rec.Packets = append(rec.Packets, vidx.SPacket{File: "c04.pcap", Index: pkt, TimeUS: t, Dir: ch.Dir, Payload: ch.Data})
			pkt++
		}
		recs = append(recs, rec)
	}
	r, err := vidx.BuildIndex(filepath.Join(dir, "c04.idx"), recs)
	if err != nil {
		return nil, nil, nil, err
	}
	convs := map[string]index.ConverterAccess{}
	for _, n := range w.Convs {
		c := &c04Conv{out: map[uint64][]c04Chunk{}}
		for _, s := range w.Streams {
			if ch, ok := s.Conv[n]; ok {
				c.out[s.ID] = ch
			}
		}
		convs[n] = c
	}
	ref := make([]*vq.Stream, len(w.Streams))
	for i, s := range w.Streams {
		ref[i] = s.toVQ()
	}
	return r, convs, ref, nil
}

// c04Outcome is the comparison of one query on one world.
type c04Outcome struct {
	Q         *query.Query
	ParseErr  error
	SearchErr error // error returned by SearchStreams
	RefErr    error // error of the reference evaluator
	Got, Want map[uint64]bool
	Dup       bool
}

func (o *c04Outcome) diff() (uint64, bool) {
	ids := map[uint64]bool{}
	for id := range o.Got {
		ids[id] = true
	}
	for id := range o.Want {
		ids[id] = true
	}
	sorted := vidx.SortedIDs(ids)
	for _, id := range sorted {
		if o.Got[id] != o.Want[id] {
			return id, true
		}
	}
	return 0, false
}

func c04RunQuery(r *index.Reader, convs map[string]index.ConverterAccess, ref []*vq.Stream, text string) *c04Outcome {
	o := &c04Outcome{Got: map[uint64]bool{}, Want: map[uint64]bool{}}
	q, err := query.Parse(text)
	if err != nil {
		o.ParseErr = err
		return o
	}
	o.Q = q
	res, _, _, err := index.SearchStreams(context.Background(), []*index.Reader{r}, nil, q.ReferenceTime, q.Conditions, nil, nil, 0, 0, nil, convs, false)
	if err != nil {
		o.SearchErr = err
	}
	for _, s := range res {
		if o.Got[s.ID()] {
			o.Dup = true
		}
		o.Got[s.ID()] = true
	}
	env := vq.Env{Ref: q.ReferenceTime}
	for _, s := range ref {
		ok, err := vq.EvalNF(q.Conditions, s, env)
		if err != nil {
			o.RefErr = err
			return o
		}
		if ok {
			o.Want[s.ID] = true
		}
	}
	return o
}

// c04Unsupported: engine errors that are documented limits, not outcomes.
func c04Unsupported(err error) bool {
	m := err.Error()
	switch {
	case strings.Contains(m, "all data conditions must have the same converter name"),
		strings.HasPrefix(m, "converter ") && strings.HasSuffix(m, " not found"),
		strings.HasPrefix(m, "variable ") && (strings.HasSuffix(m, " not defined") || strings.HasSuffix(m, " already seen")),
		strings.Contains(m, "SubQueries not yet fully supported"):
		return true
	}
	return false
}

// ---------------------------------------------------------------------------------------------
// expressions

type c04PieceKind int

const (
	c04PLit c04PieceKind = iota
	c04PSub
	c04PAtom
	c04PCapStart
	c04PCapEnd
	c04PRef
	c04PRefAlt // (?:@v@|lit): the reference is one branch of an alternation
	c04PRefOpt // (?:@v@)?
	c04PRefRep // (?:@v@){2}
	c04PRefEnd // @v@{2}: the repetition applies to the last byte of the value that is pasted in
	c04PAssert
)

type c04Atom struct {
	text     string
	members  string
	nl, high bool
}

// single-byte atoms with known member bytes
var c04Atoms = []c04Atom{
	{text: `[ab]`, members: "ab"}, {text: `.`, members: "ab.K\x00\xff"}, {text: `\d`, members: "019"}, {text: `[^a]`, members: "bc\n0"},
	{text: `[a-c]`, members: "abc"}, {text: `(?s:.)`, members: "a\n\xe9"}, {text: `(?i:k)`, members: "kK"},
	{text: `[\x00-\x20]`, members: "\x00 \n"}, {text: `[^\n]`, members: "ab."}, {text: `\w`, members: "a0_"},
}

// atoms whose members are expression meta characters (captured and substituted into later expressions);
// nl / high: the atom can match a newline / a byte >= 0x80
var c04MetaAtoms = []c04Atom{
	{text: `[.+*a(\[\\|?)^$]`, members: ".+*a([\\|?)^$"}, {text: `[ab]`, members: "ab"}, {text: `[a.]`, members: "a."},
	{text: `.`, members: "ab.*\xe9", high: true}, {text: `[a\xe9]`, members: "a\xe9", high: true},
	{text: `[\n.a]`, members: "\n.a", nl: true},
	{text: `[^z]`, members: "a.\n+b\\\xe9", nl: true, high: true}, {text: `(?s:.)`, members: "\n.a\xff", nl: true, high: true},
	{text: `[\n\x80-\xff]`, members: "\n\x80\xe9", nl: true, high: true},
}

type c04Piece struct {
	kind c04PieceKind
	lit  []byte
	re   *vregex.Regex
	atom c04Atom
	name string // capture / reference name, assertion text
}

// c04Analysis is what search_data.go derives from an expression.
type c04Analysis struct {
	prefix, suffix string
	complete       bool
	min, max       uint
	class          string
}

// c04ProgPaths estimates how many walks through the compiled program
// regexanalysis.ConstantSuffix / AcceptedLength make: they follow both branches
// of every alternation to the end of the program without memoising, so their
// cost is the number of start-to-end paths (a re-entered loop ends a walk).
func c04ProgPaths(expr string) int {
	r, err := syntax.Parse(expr, syntax.Perl)
	if err != nil {
		return 0
	}
	prog, err := syntax.Compile(r.Simplify())
	if err != nil {
		return 0
	}
	const limit = 1 << 30
	memo := map[uint32]int{}
	onStack := map[uint32]bool{}
	var walk func(pc uint32) int
	walk = func(pc uint32) int {
		for {
			i := prog.Inst[pc]
			switch i.Op {
			case syntax.InstAlt, syntax.InstAltMatch:
				if onStack[pc] {
					return 1
				}
				if n, ok := memo[pc]; ok {
					return n
				}
				onStack[pc] = true
				n := walk(i.Out) + walk(i.Arg)
				onStack[pc] = false
				if n > limit {
					n = limit
				}
				memo[pc] = n
				return n
			case syntax.InstMatch, syntax.InstFail:
				return 1
			}
			pc = i.Out
		}
	}
	return walk(uint32(prog.Start))
}

// c04MaxProgPaths bounds the cost of the production analyses per expression.
const c04MaxProgPaths = 2000

func c04Analyse(expr string) (c04Analysis, error) {
	re, err := binaryregexp.Compile(expr)
	if err != nil {
		return c04Analysis{}, err
	}
	a := c04Analysis{}
	if c04ProgPaths(expr) > c04MaxProgPaths {
		return a, errC04TooExpensive
	}
	a.prefix, a.complete = re.LiteralPrefix()
	if a.complete {
		a.min, a.max, a.suffix = uint(len(a.prefix)), uint(len(a.prefix)), a.prefix
	} else {
		al, err := regexanalysis.AcceptedLength(expr)
		if err != nil {
			return a, err
		}
		sf, err := regexanalysis.ConstantSuffix(expr)
		if err != nil {
			return a, err
		}
		a.min, a.max, a.suffix = al.MinLength, al.MaxLength, string(sf)
	}
	switch {
	case a.complete:
		a.class = "literal"
	case a.min == a.max && a.prefix == "" && a.suffix != "":
		a.class = "window"
	case a.prefix != "" && a.suffix != "":
		a.class = "prefix+suffix"
	case a.prefix != "":
		a.class = "prefix"
	case a.suffix != "":
		a.class = "suffix"
	default:
		a.class = "none"
	}
	return a, nil
}

var errC04TooExpensive = fmt.Errorf("analysis of the expression is too expensive")

type c04Elem struct {
	pieces   []c04Piece
	text     string // filter value, references as @v@
	pre      string // references replaced by (?:.*) (the precondition expression; == text without references)
	defs     []string
	refs     []string
	dir      int
	assert   bool
	optNamed bool // a named group that may stay out of the match
	minLen   int  // exact minimal length of pre
	an       c04Analysis
	rx       *binaryregexp.Regexp // pre, compiled (labels only)
}

func c04LitText(b []byte) string {
	var sb strings.Builder
	for _, c := range b {
		if c >= '0' && c <= '9' || c >= 'a' && c <= 'z' || c >= 'A' && c <= 'Z' {
			sb.WriteByte(c)
		} else {
			fmt.Fprintf(&sb, `\x%02x`, c)
		}
	}
	return sb.String()
}

func (e *c04Elem) build() error {
	var text, pre strings.Builder
	single := len(e.pieces) == 1
	e.minLen = 0
	e.defs, e.refs, e.assert = nil, nil, false
	for _, p := range e.pieces {
		s := ""
		switch p.kind {
		case c04PLit:
			s = c04LitText(p.lit)
			e.minLen += len(p.lit)
		case c04PSub:
			s = p.re.Render()
			if !single || s == "" {
				s = "(?:" + s + ")"
			}
			e.minLen += p.re.MinLen()
			if p.re.HasAssertion() {
				e.assert = true
			}
			c04Named(p.re.Root, false, func(n *vregex.Node, optional bool) {
				e.defs = append(e.defs, n.Name)
				if optional {
					e.optNamed = true
				}
			})
		case c04PAtom:
			s = p.atom.text
			e.minLen++
		case c04PCapStart:
			s = "(?P<" + p.name + ">"
			e.defs = append(e.defs, p.name)
		case c04PCapEnd:
			s = ")"
		case c04PAssert:
			s = p.name
			e.assert = true
		case c04PRef:
			text.WriteString("@" + p.name + "@")
			pre.WriteString("(?:.*)")
			e.refs = append(e.refs, p.name)
			continue
		case c04PRefAlt:
			text.WriteString("(?:@" + p.name + "@|" + c04LitText(p.lit) + ")")
			pre.WriteString("(?:(?:.*)|" + c04LitText(p.lit) + ")")
			e.refs = append(e.refs, p.name)
			continue
		case c04PRefOpt:
			text.WriteString("(?:@" + p.name + "@)?")
			pre.WriteString("(?:(?:.*))?")
			e.refs = append(e.refs, p.name)
			continue
		case c04PRefRep:
			text.WriteString("(?:@" + p.name + "@){2}")
			pre.WriteString("(?:(?:.*)){2}")
			e.refs = append(e.refs, p.name)
			continue
		case c04PRefEnd:
			text.WriteString("@" + p.name + "@{2}")
			pre.WriteString("(?:.*)")
			e.refs = append(e.refs, p.name)
			continue
		}
		text.WriteString(s)
		pre.WriteString(s)
	}
	e.text, e.pre = text.String(), pre.String()
	an, err := c04Analyse(e.pre)
	if err != nil {
		return err
	}
	e.an = an
	e.rx, err = binaryregexp.Compile(e.pre)
	return err
}

// c04Named visits the named groups of a tree; optional is true when the group
// sits below an alternation or a repetition that may run zero times.
func c04Named(n *vregex.Node, optional bool, f func(n *vregex.Node, optional bool)) {
	switch n.Kind {
	case vregex.KGroup:
		if n.GKind == vregex.GNamed {
			f(n, optional)
		}
	case vregex.KAlt:
		if len(n.Sub) > 1 {
			optional = true
		}
	case vregex.KRepeat:
		if n.Min == 0 {
			optional = true
		}
	}
	for _, s := range n.Sub {
		c04Named(s, optional, f)
	}
}

// c04FixTree makes a generated tree usable inside a filter value: a raw '@'
// would start a variable reference in the value grammar and the query lexer
// does not accept a quoted value that starts with a doubled quote, so both
// bytes are always written as \xHH; group names become unique within the case.
func c04FixTree(n *vregex.Node, ctr *int) {
	switch n.Kind {
	case vregex.KLit:
		if n.Byte == '@' || n.Byte == '"' {
			n.Esc = 2
		}
	case vregex.KClass:
		for i := range n.Items {
			it := &n.Items[i]
			if it.Named == "" {
				if it.Lo == '@' || it.Lo == '"' {
					it.LoEsc = 2
				}
				if it.Hi == '@' || it.Hi == '"' {
					it.HiEsc = 2
				}
			}
		}
	case vregex.KGroup:
		if n.GKind == vregex.GNamed {
			*ctr++
			n.Name = fmt.Sprintf("g%d", *ctr)
		}
	}
	for _, s := range n.Sub {
		c04FixTree(s, ctr)
	}
}

// c04BoundLoops turns unbounded repetitions into bounded ones (the suffix
// analysis gives up on every loop, so suffix shortcuts need loop-free trees).
func c04BoundLoops(n *vregex.Node) {
	if n.Kind == vregex.KRepeat && n.Max < 0 {
		n.Max = n.Min + 1
		n.RStyle = 1
	}
	for _, s := range n.Sub {
		c04BoundLoops(s)
	}
}

// c04Unname turns named groups that may stay out of the match into plain groups.
func c04Unname(n *vregex.Node, optional bool) (changed bool) {
	switch n.Kind {
	case vregex.KGroup:
		if n.GKind == vregex.GNamed && optional {
			n.GKind = vregex.GCapture
			changed = true
		}
	case vregex.KAlt:
		if len(n.Sub) > 1 {
			optional = true
		}
	case vregex.KRepeat:
		if n.Min == 0 {
			optional = true
		}
	}
	for _, s := range n.Sub {
		if c04Unname(s, optional) {
			changed = true
		}
	}
	return changed
}

// sample draws a member of the expression (references take the value in vars,
// or filler when undefined) and records what the captures of this element hold.
func (e *c04Elem) sample(rt *rapid.T, label string, vars map[string][]byte) []byte {
	var out []byte
	capStart := map[string]int{}
	for _, p := range e.pieces {
		switch p.kind {
		case c04PLit:
			out = append(out, p.lit...)
		case c04PSub:
			out = append(out, p.re.Sample(rt, label+".m")...)
		case c04PAtom:
			out = append(out, p.atom.members[vregex.Uniform(rt, len(p.atom.members), label+".a")])
		case c04PCapStart:
			capStart[p.name] = len(out)
		case c04PCapEnd:
			vars[p.name] = append([]byte{}, out[capStart[p.name]:]...)
		case c04PRef:
			if v, ok := vars[p.name]; ok {
				out = append(out, v...)
			} else {
				out = append(out, c04Filler(rt, label+".f")...)
			}
		case c04PRefAlt:
			if v, ok := vars[p.name]; ok && vregex.Uniform(rt, 2, label+".alt") == 0 {
				out = append(out, v...)
			} else {
				out = append(out, p.lit...)
			}
		case c04PRefOpt:
			if v, ok := vars[p.name]; ok && vregex.Uniform(rt, 2, label+".opt") == 0 {
				out = append(out, v...)
			}
		case c04PRefRep:
			v, ok := vars[p.name]
			if !ok {
				v = c04Filler(rt, label+".f")
			}
			out = append(append(out, v...), v...)
		case c04PRefEnd:
			v, ok := vars[p.name]
			if !ok || len(v) == 0 {
				v = c04Filler(rt, label+".f")
			}
			out = append(out, v...)
			if len(v) > 0 {
				out = append(out, v[len(v)-1])
			}
		}
	}
	return out
}

var c04Alphabet = []byte("abcK01 .\n\xe9")

func c04Filler(rt *rapid.T, label string) []byte {
	n := 1 + vregex.Uniform(rt, 3, label+".n")
	out := make([]byte, n)
	for i := range out {
		out[i] = c04Alphabet[vregex.Uniform(rt, len(c04Alphabet), label)]
	}
	return out
}

// c04RefHighOK: the reference evaluator substitutes captured bytes >= 0x80
// correctly (as the bytes, not as UTF-8 text). While it does not, captures are
// kept to ASCII so that no wrong expectation is produced.
var c04RefHighOK = func() bool {
	for _, v := range []string{"\xe9", "A\xe9\x80\x80", "\xc2\x80"} {
		l := vq.MakeLayout([]vq.Run{{Dir: 0, Data: []byte("x" + v + "y")}})
		_, ok, err := vq.SeqStep("xy", []vq.VarRef{{Pos: 1, Name: "v"}}, 0, vq.Position{Vars: map[string]string{"v": v}}, l)
		if err != nil || !ok {
			return false
		}
	}
	return true
}()

type c04Cfg struct {
	name     string
	anchored bool
	open     map[string]bool
}

func (c c04Cfg) Name() string { return c.name }

type c04Gen struct {
	rt   *rapid.T
	c    *vlib.Case
	cfg  c04Cfg
	name int // group name counter
}

func (g *c04Gen) uni(n int, label string) int { return vregex.Uniform(g.rt, n, label) }
func (g *c04Gen) chance(p int, label string) bool {
	return vregex.Uniform(g.rt, 100, label) < p
}

func (g *c04Gen) lit(lo, hi int) c04Piece {
	n := lo + g.uni(hi-lo+1, "litn")
	b := make([]byte, n)
	for i := range b {
		b[i] = c04Alphabet[g.uni(len(c04Alphabet), "litb")]
	}
	return c04Piece{kind: c04PLit, lit: b}
}

func (g *c04Gen) atom(pool []c04Atom) c04Piece {
	return c04Piece{kind: c04PAtom, atom: pool[g.uni(len(pool), "atom")]}
}

func (g *c04Gen) sub(bounded bool) c04Piece {
	cfg := vregex.Config{MaxDepth: 2, MaxCount: 3, MaxPaths: 40, MaxRepProd: 12, Assertions: g.cfg.anchored, Alphabet: c04Alphabet}
	re := vregex.Gen(cfg).Draw(g.rt, "tree")
	c04FixTree(re.Root, &g.name)
	if bounded {
		c04BoundLoops(re.Root)
	}
	if g.cfg.open[c04FindUnmatchedGroup] && c04Unname(re.Root, false) {
		g.c.Count("excluded_known", 1)
		g.c.Label("excluded:" + c04FindUnmatchedGroup)
	}
	return c04Piece{kind: c04PSub, re: re}
}

func (g *c04Gen) assertion() c04Piece {
	as := []string{`^`, `$`, `\A`, `\z`, `\b`, `\B`, `(?m:^)`, `(?m:$)`}
	return c04Piece{kind: c04PAssert, name: as[g.uni(len(as), "assert")]}
}

// pieces of an ordinary element
func (g *c04Gen) plainPieces() []c04Piece {
	var ps []c04Piece
	switch k := g.uni(100, "shape"); {
	case k < 28:
		ps = []c04Piece{g.sub(false)}
	case k < 42:
		ps = []c04Piece{g.lit(1, 3), g.sub(false)}
	case k < 60:
		ps = []c04Piece{g.sub(g.chance(75, "bounded")), g.lit(1, 3)}
	case k < 68:
		ps = []c04Piece{g.lit(1, 2), g.sub(g.chance(50, "bounded")), g.lit(1, 2)}
	case k < 86:
		// fixed length, no literal prefix, literal suffix
		n := 1 + g.uni(3, "natoms")
		for i := 0; i < n; i++ {
			ps = append(ps, g.atom(c04Atoms))
		}
		ps = append(ps, g.lit(1, 3))
	case k < 93:
		ps = []c04Piece{g.lit(1, 4)}
	default:
		ps = []c04Piece{g.atom(c04Atoms), g.sub(true), g.lit(1, 2)}
	}
	if g.cfg.anchored {
		if g.chance(45, "assert-front") {
			ps = append([]c04Piece{g.assertion()}, ps...)
		}
		if g.chance(45, "assert-back") {
			ps = append(ps, g.assertion())
		}
		if len(ps) > 2 && g.chance(15, "assert-mid") {
			i := 1 + g.uni(len(ps)-1, "assert-pos")
			ps = append(ps[:i], append([]c04Piece{g.assertion()}, ps[i:]...)...)
		}
	}
	return ps
}

// c04MinTooLarge: production AcceptedLength claims a larger minimum than the
// exact one of the tree (the only harmful effect of F-C18-stale-loop-cache).
func (e *c04Elem) minTooLarge() bool {
	if !e.an.complete && e.an.min > uint(e.minLen) {
		return true
	}
	if len(e.refs) == 0 {
		return false
	}
	// the exact expressions built at search time have the same program shape for every non-empty value
	for _, v := range []string{"x", ""} {
		expr := strings.ReplaceAll(e.pre, "(?:.*)", "(?:"+v+")")
		an, err := c04Analyse(expr)
		if err != nil {
			return true
		}
		if !an.complete && an.min > uint(e.minLen+len(v)*len(e.refs)) {
			return true
		}
	}
	return false
}

// elem draws pieces with mk until the element is usable; shapes of open findings are re-drawn.
func (g *c04Gen) elem(mk func() []c04Piece) *c04Elem {
	dir := 0
	for try := 0; try < 8; try++ {
		e := &c04Elem{pieces: mk(), dir: g.uni(2, "edir")}
		dir = e.dir
		err := e.build()
		if err == errC04TooExpensive {
			// regexanalysis.ConstantSuffix would need minutes for this expression
			g.c.Label("redraw:analysis-too-expensive")
			continue
		}
		if err != nil {
			g.rt.Fatalf("harness error: generated expression %q does not compile: %v", e.pre, err)
		}
		if g.cfg.open[c04FindStaleCache] && e.minTooLarge() {
			g.c.Count("excluded_known", 1)
			g.c.Label("excluded:" + c04FindStaleCache)
			continue
		}
		// also excluded: a failed search leaves the offset at the end of the data and the element is searched again
		// on the empty rest in the next pass, where expressions like ^$ match
		if g.cfg.open[c04FindReanchor] && e.assert && (e.an.prefix != "" || e.an.suffix != "" || e.rx.Match(nil)) {
			g.c.Count("excluded_known", 1)
			g.c.Label("excluded:" + c04FindReanchor)
			continue
		}
		return e
	}
	// fallback that is outside every open finding
	g.c.Label("fallback-element")
	e := &c04Elem{pieces: []c04Piece{{kind: c04PAtom, atom: c04Atoms[0]}, {kind: c04PAtom, atom: c04Atoms[2]}}, dir: dir}
	if g.cfg.anchored {
		e.pieces = append([]c04Piece{{kind: c04PAssert, name: `\b`}}, e.pieces...)
	}
	if err := e.build(); err != nil {
		g.rt.Fatalf("harness error: %v", err)
	}
	return e
}

// chain draws a definer (named capture v) and a user (@v@) element.
func (g *c04Gen) chain(idx int) [2]*c04Elem {
	v := fmt.Sprintf("v%d", idx)
	// while these are open the capture cannot match a newline / a byte >= 0x80
	tameNL, tameHigh := g.cfg.open[c04FindPrecondNL], g.cfg.open[c04FindVarHighByte] || !c04RefHighOK
	var metaAtoms []c04Atom
	for _, a := range c04MetaAtoms {
		if !(a.nl && tameNL) && !(a.high && tameHigh) {
			metaAtoms = append(metaAtoms, a)
		}
	}
	def := g.elem(func() []c04Piece {
		var ps []c04Piece
		if g.chance(60, "def-pre") {
			ps = append(ps, g.lit(1, 2))
		} else if g.chance(30, "def-preatom") {
			ps = append(ps, g.atom(c04Atoms))
		}
		ps = append(ps, c04Piece{kind: c04PCapStart, name: v})
		excluded := false
		switch k := g.uni(10, "def-inner"); {
		case k < 6:
			n := 1 + g.uni(2, "def-n")
			for i := 0; i < n; i++ {
				a := g.atom(c04MetaAtoms)
				if a.atom.nl && tameNL || a.atom.high && tameHigh {
					a = g.atom(metaAtoms)
					excluded = true
				}
				ps = append(ps, a)
			}
		case k < 8:
			l := g.lit(1, 2)
			for i, b := range l.lit {
				if tameNL && b == '\n' || tameHigh && b >= 0x80 {
					l.lit[i] = 'a'
					excluded = true
				}
			}
			ps = append(ps, l)
		default:
			if tameNL || tameHigh {
				ps = append(ps, g.atom(metaAtoms))
				excluded = true
			} else {
				ps = append(ps, g.sub(true))
			}
		}
		if excluded {
			g.c.Count("excluded_known", 1)
			g.c.Label("excluded:capture-of-newline-or-high-byte")
		}
		ps = append(ps, c04Piece{kind: c04PCapEnd, name: v})
		if g.chance(50, "def-post") {
			ps = append(ps, g.lit(1, 2))
		}
		return ps
	})
	return [2]*c04Elem{def, g.user(v)}
}

// user draws an element that references the given variables (in this order).
func (g *c04Gen) user(vars ...string) *c04Elem {
	return g.elem(func() []c04Piece {
		var ps []c04Piece
		switch k := g.uni(10, "use-pre"); {
		case g.cfg.open[c04FindPrefixLeak]:
			// the exact expression must not have a literal prefix: start with a class
			ps = append(ps, g.atom(c04Atoms))
			if k < 5 || k >= 7 {
				g.c.Count("excluded_known", 1)
				g.c.Label("excluded:" + c04FindPrefixLeak)
			}
		case k < 5:
			ps = append(ps, g.lit(1, 2))
		case k < 7:
			ps = append(ps, g.atom(c04Atoms))
		}
		for i, v := range vars {
			if i > 0 && g.chance(50, "use-mid") {
				ps = append(ps, g.lit(1, 1))
			}
			// mostly at the top level of the expression; now and then below an alternation, an optional group or
			// a counted repetition (what the engine derives from the expression must be about the expression it compiles)
			switch k := g.uni(20, "use-shape"); {
			case k == 0:
				ps = append(ps, c04Piece{kind: c04PRefAlt, name: v, lit: g.lit(1, 2).lit})
				g.c.Label("reference-inside-alternation")
			case k == 1:
				ps = append(ps, c04Piece{kind: c04PRefOpt, name: v})
				g.c.Label("reference-inside-optional-group")
			case k == 2:
				ps = append(ps, c04Piece{kind: c04PRefRep, name: v})
				g.c.Label("reference-inside-counted-repetition")
			case k == 3:
				ps = append(ps, c04Piece{kind: c04PRefEnd, name: v})
				g.c.Label("reference-followed-by-repetition-operator")
			default:
				ps = append(ps, c04Piece{kind: c04PRef, name: v})
			}
			if g.chance(15, "use-twice") {
				ps = append(ps, c04Piece{kind: c04PRef, name: v})
			}
		}
		switch k := g.uni(10, "use-post"); {
		case k < 5:
			ps = append(ps, g.lit(1, 2))
		case k < 6:
			ps = append(ps, g.atom(c04Atoms), g.lit(1, 1))
		}
		if g.cfg.anchored {
			// assertions around an expression that refers to a variable: whether the shortcuts of the engine may be
			// used depends on the expression it compiles for the stream, not on the text around the references
			if g.chance(30, "use-assert-front") {
				ps = append([]c04Piece{g.assertion()}, ps...)
			}
			if g.chance(30, "use-assert-back") {
				ps = append(ps, g.assertion())
			}
		}
		return ps
	})
}

// ---------------------------------------------------------------------------------------------
// queries

type c04Filter struct {
	e   *c04Elem
	key string
	neg bool
}

type c04Query struct {
	conds [][]c04Filter
	conv  string
	text  string
}

func (f c04Filter) dir(rt *rapid.T, label string) int {
	switch f.key {
	case "cdata":
		return 0
	case "sdata":
		return 1
	}
	return vregex.Uniform(rt, 2, label)
}

type c04Pop struct {
	elems   []*c04Elem
	chains  [][]*c04Elem // definers followed by the element that references their variables
	queries []*c04Query
	world   c04World
}

func (g *c04Gen) key(e *c04Elem) string {
	switch k := g.uni(20, "key"); {
	case k < 14:
		return []string{"cdata", "sdata"}[e.dir]
	case k < 17:
		return []string{"cdata", "sdata"}[1-e.dir]
	}
	return "data"
}

func (g *c04Gen) query(p *c04Pop) *c04Query {
	q := &c04Query{}
	if len(p.world.Convs) > 0 {
		switch k := g.uni(10, "conv"); {
		case k < 4:
		case k < 6:
			q.conv = "none"
		default:
			q.conv = p.world.Convs[g.uni(len(p.world.Convs), "convname")]
		}
	} else if g.chance(25, "conv-none") {
		q.conv = "none"
	}
	multi := q.conv == "" && len(p.world.Convs) > 0
	// a named converter may have no output for a stream: nothing is searched then, and what a negated
	// *sequence* means without any representation is not defined by the statement (the engine accepts the
	// stream although the sequence's first elements cannot have matched, while its normaliser assumes that
	// "x then -y" implies "x")
	named := q.conv != "" && q.conv != "none"
	nconds := 1
	switch k := g.uni(20, "nconds"); {
	case k >= 17:
		nconds = 3
	case k >= 10:
		nconds = 2
	}
	for ci := 0; ci < nconds; ci++ {
		l := 1
		switch k := g.uni(20, "seqlen"); {
		case k >= 17:
			l = 3
		case k >= 9:
			l = 2
		}
		cond := make([]c04Filter, l)
		used := map[*c04Elem]bool{}
		if l >= 2 && len(p.chains) > 0 && g.chance(55, "usechain") {
			ch := p.chains[g.uni(len(p.chains), "chain")]
			if len(ch) == 3 {
				// two definers, then the element using both variables
				cond = make([]c04Filter, 3)
				for i, e := range ch {
					cond[i] = c04Filter{e: e, key: g.key(e)}
					used[e] = true
				}
			} else {
				i := g.uni(l-1, "defpos")
				j := i + 1 + g.uni(l-1-i, "usepos")
				cond[i] = c04Filter{e: ch[0], key: g.key(ch[0])}
				cond[j] = c04Filter{e: ch[1], key: g.key(ch[1])}
				used[ch[0]], used[ch[1]] = true, true
			}
		}
		for i := range cond {
			if cond[i].e != nil {
				continue
			}
			e := p.elems[g.uni(len(p.elems), "elem")]
			if used[e] && len(e.defs) > 0 {
				// the same named group twice in one sequence is "variable already seen"
				for _, o := range p.elems {
					if !used[o] || len(o.defs) == 0 {
						e = o
						break
					}
				}
				if used[e] && len(e.defs) > 0 {
					cond = cond[:i]
					break
				}
			}
			used[e] = true
			cond[i] = c04Filter{e: e, key: g.key(e)}
		}
		for len(cond) > 0 && cond[len(cond)-1].e == nil {
			cond = cond[:len(cond)-1]
		}
		// a reference needs its definer earlier in the same sequence
		defined := map[string]bool{}
		ok := len(cond) > 0
		for _, f := range cond {
			for _, r := range f.e.refs {
				if !defined[r] {
					ok = false
				}
			}
			for _, d := range f.e.defs {
				defined[d] = true
			}
		}
		if !ok {
			e := p.elems[0]
			cond = []c04Filter{{e: e, key: g.key(e)}}
		}
		// several representations: negated sequences are not generated (their aggregation is not defined by the statement)
		if !((multi || named) && len(cond) > 1) && g.chance(30, "neg") {
			cond[len(cond)-1].neg = true
		}
		q.conds = append(q.conds, cond)
	}
	var conds []*vq.Node
	for _, cond := range q.conds {
		var fs []*vq.Node
		for _, f := range cond {
			n := &vq.Node{Kind: vq.KAtom, Atom: &vq.Atom{Key: f.key, Conv: q.conv, Regex: f.e.text, Quote: true}}
			if f.neg {
				n = &vq.Node{Kind: vq.KNot, Kids: []*vq.Node{n}, Bang: g.chance(30, "bang")}
			}
			fs = append(fs, n)
		}
		if len(fs) == 1 {
			conds = append(conds, fs[0])
		} else {
			conds = append(conds, &vq.Node{Kind: vq.KThen, Kids: fs})
		}
	}
	if len(conds) == 1 {
		q.text = conds[0].Render()
	} else {
		q.text = (&vq.Node{Kind: vq.KAnd, Kids: conds, ExplicitAnd: g.chance(30, "and")}).Render()
	}
	return q
}

// ---------------------------------------------------------------------------------------------
// payloads

type c04Seg struct {
	dir  int
	data []byte
}

func (g *c04Gen) elemDir(e *c04Elem) int {
	if g.chance(80, "segdir") {
		return e.dir
	}
	return 1 - e.dir
}

func (g *c04Gen) nearMiss(m []byte) []byte {
	m = append([]byte{}, m...)
	if len(m) == 0 {
		return m
	}
	i := g.uni(len(m), "misspos")
	switch g.uni(4, "misskind") {
	case 0:
		return append(m[:i], m[i+1:]...)
	case 1:
		m[i] ^= 1 << uint(g.uni(8, "missbit"))
		return m
	case 2:
		return m[:len(m)-1]
	}
	return m[1:]
}

func (g *c04Gen) payload(p *c04Pop) []c04Chunk {
	var segs []c04Seg
	vars := map[string][]byte{}
	total := 0
	add := func(dir int, data []byte) {
		if len(data) > 160 {
			data = data[:160]
		}
		segs = append(segs, c04Seg{dir, data})
		total += len(data)
	}
	n := 1 + g.uni(5, "nseg")
	if g.chance(8, "emptypayload") {
		n = 0
	}
	for i := 0; i < n && total < 500; i++ {
		k := g.uni(100, "segkind")
		switch {
		case k < 40 && len(p.queries) > 0:
			// script: the elements of one query in conversation order
			q := p.queries[g.uni(len(p.queries), "script")]
			first := len(segs)
			for _, cond := range q.conds {
				for _, f := range cond {
					if f.neg && g.chance(60, "skipneg") || !f.neg && g.chance(12, "skippos") {
						continue
					}
					add(f.dir(g.rt, "datadir"), f.e.sample(g.rt, "script", vars))
					if g.chance(15, "gap") {
						add(g.uni(2, "gapdir"), c04Filler(g.rt, "gap"))
					}
				}
			}
			if g.chance(15, "reverse") {
				for a, b := first, len(segs)-1; a < b; a, b = a+1, b-1 {
					segs[a], segs[b] = segs[b], segs[a]
				}
			}
		case k < 60:
			e := p.elems[g.uni(len(p.elems), "mel")]
			add(g.elemDir(e), e.sample(g.rt, "member", vars))
		case k < 75:
			e := p.elems[g.uni(len(p.elems), "nel")]
			add(g.elemDir(e), g.nearMiss(e.sample(g.rt, "near", vars)))
		case k < 90:
			// the literal prefix / suffix the shortcuts look for, repeated, without a full match around it
			e := p.elems[g.uni(len(p.elems), "tel")]
			t := e.an.prefix
			if t == "" || e.an.suffix != "" && g.chance(50, "teasesuffix") {
				t = e.an.suffix
			}
			if t == "" {
				t = string(c04Filler(g.rt, "tease"))
			}
			data := []byte(strings.Repeat(t, 1+g.uni(3, "teasen")))
			if g.chance(30, "teasetail") {
				data = append(data, c04Filler(g.rt, "teasetail")...)
			}
			add(g.elemDir(e), data)
		default:
			add(g.uni(2, "filldir"), c04Filler(g.rt, "fill"))
		}
	}
	// cut segments into chunks
	var chunks []c04Chunk
	for _, s := range segs {
		data := s.data
		for len(data) > 1 && g.chance(35, "split") {
			at := 1 + g.uni(len(data)-1, "splitat")
			chunks = append(chunks, c04Chunk{s.dir, data[:at]})
			data = data[at:]
		}
		if len(data) > 0 {
			chunks = append(chunks, c04Chunk{s.dir, data})
		}
	}
	// change the interleaving of the two directions without touching either direction's byte string
	for i := 0; i+1 < len(chunks); i++ {
		if chunks[i].Dir != chunks[i+1].Dir && g.chance(20, "swap") {
			chunks[i], chunks[i+1] = chunks[i+1], chunks[i]
		}
	}
	return chunks
}

// ---------------------------------------------------------------------------------------------
// the property

func c04Prop(rt *rapid.T, c *vlib.Case, cfg c04Cfg) {
	g := &c04Gen{rt: rt, c: c, cfg: cfg}
	p := &c04Pop{}
	for i, n := 0, g.uni(4, "nconv"); i < n; i++ {
		p.world.Convs = append(p.world.Convs, []string{"ka", "kb", "kc"}[i])
	}
	for i, n := 0, 2+g.uni(3, "nelems"); i < n; i++ {
		p.elems = append(p.elems, g.elem(g.plainPieces))
	}
	for i, n := 0, g.uni(3, "nchains"); i < n; i++ {
		ch := g.chain(i + 1)
		p.chains = append(p.chains, ch[:])
		p.elems = append(p.elems, ch[0])
	}
	if len(p.chains) == 2 && g.chance(50, "twovars") {
		d1, d2 := p.chains[0][0], p.chains[1][0]
		if g.chance(50, "twovars-order") {
			p.chains = append(p.chains, []*c04Elem{d1, d2, g.user("v1", "v2")})
		} else {
			p.chains = append(p.chains, []*c04Elem{d2, d1, g.user("v1", "v2")})
		}
	}
	for i, n := 0, 2+g.uni(4, "nqueries"); i < n; i++ {
		p.queries = append(p.queries, g.query(p))
	}
	id := uint64(g.uni(4, "id0"))
	for i, n := 0, 1+g.uni(6, "nstreams"); i < n; i++ {
		s := &c04Stream{ID: id, Raw: g.payload(p), Conv: map[string][]c04Chunk{}}
		id += 1 + uint64(g.uni(3, "idstep"))
		for _, cn := range p.world.Convs {
			if g.chance(60, "cached") {
				s.Conv[cn] = g.payload(p)
			}
		}
		p.world.Streams = append(p.world.Streams, s)
	}
	texts := make([]string, len(p.queries))
	for i, q := range p.queries {
		texts[i] = q.text
	}
	render := func(extra map[string]any) func() any {
		return func() any {
			m := p.world.render().(map[string]any)
			m["queries"] = texts
			for k, v := range extra {
				m[k] = v
			}
			return m
		}
	}
	c.Render(render(nil))
	c.Trace(cfg)

	dir, err := os.MkdirTemp("", "c04-")
	if err != nil {
		rt.Fatalf("harness error: %v", err)
	}
	defer os.RemoveAll(dir)
	r, convs, ref, err := p.world.open(dir)
	if err != nil {
		rt.Fatalf("harness error: index file: %v", err)
	}
	defer r.Close()

	multiChunk := false
	for _, s := range p.world.Streams {
		if len(s.Raw) >= 2 {
			multiChunk = true
		}
	}
	nontrivial := false
	labels := map[string]bool{}
	evaluated := 0
	for qi, q := range p.queries {
		o := c04RunQuery(r, convs, ref, q.text)
		describe := func() map[string]any {
			m := map[string]any{"failing_query": q.text}
			if o.Q != nil {
				m["normal_form"] = o.Q.Conditions.String()
			}
			var an []string
			for _, cond := range q.conds {
				for _, f := range cond {
					an = append(an, fmt.Sprintf("%q: prefix=%q suffix=%q len=%d..%d class=%s", f.e.pre, f.e.an.prefix, f.e.an.suffix, f.e.an.min, int(f.e.an.max), f.e.an.class))
				}
			}
			m["analysis"] = an
			return m
		}
		switch {
		case o.ParseErr != nil:
			c.Render(render(describe()))
			rt.Fatalf("harness error: generated query #%d %q does not parse: %q", qi, q.text, o.ParseErr.Error())
		case o.SearchErr != nil && c04Unsupported(o.SearchErr):
			labels["unsupported-engine-error"] = true
			c.Count("queries_unsupported", 1)
			continue
		case o.SearchErr != nil:
			c.Render(render(describe()))
			rt.Fatalf("query %q: SearchStreams failed: %q", q.text, o.SearchErr.Error())
		case o.RefErr != nil:
			labels["reference-error"] = true
			c.Count("queries_reference_error", 1)
			continue
		}
		evaluated++
		c.Count("searches", 1)
		c.Count("stream_evaluations", len(ref))
		if id, bad := o.diff(); bad {
			m := describe()
			m["stream"] = id
			m["engine_selects"] = o.Got[id]
			m["reference_selects"] = o.Want[id]
			c.Render(render(m))
			rt.Fatalf("query %q (normal form %s): stream %d is %s by SearchStreams but the plain scan says %s\n%s", q.text, o.Q.Conditions.String(), id,
				c04Sel(o.Got[id]), c04Sel(o.Want[id]), c04DescribeStream(&p.world, id))
		}
		// classification
		shortcut := false
		multi := q.conv == "" && len(p.world.Convs) > 0
		for _, cond := range q.conds {
			labels[fmt.Sprintf("then-length:%d", len(cond))] = true
			for _, f := range cond {
				labels["shortcut:"+f.e.an.class] = true
				if f.e.an.class != "none" {
					shortcut = true
				}
				labels["key:"+f.key] = true
				if f.neg {
					if len(cond) > 1 {
						labels["negated-last-element"] = true
					} else {
						labels["negated-filter"] = true
					}
				}
				if len(f.e.refs) > 0 {
					labels["variable-use"] = true
				}
				if len(f.e.refs) > 1 && f.e.refs[0] != f.e.refs[len(f.e.refs)-1] {
					labels["variable-use-two-variables"] = true
				}
				if len(f.e.defs) > 0 {
					labels["named-capture"] = true
				}
				if f.e.optNamed {
					labels["named-capture-optional"] = true
				}
				if f.e.assert {
					labels["anchored"] = true
				}
			}
			c04Straddle(&p.world, cond[0], labels)
		}
		if len(q.conds) > 1 {
			labels["and-of-payload-conditions"] = true
			seen := map[string]bool{}
			for _, cond := range q.conds {
				for _, f := range cond {
					if seen[f.e.text] {
						labels["shared-expression"] = true
					}
					seen[f.e.text] = true
				}
			}
		}
		switch {
		case multi:
			labels["multi-source"] = true
		case q.conv == "none":
			labels["conv:none"] = true
		case q.conv != "":
			labels["conv:named"] = true
		default:
			labels["conv:default-raw-only"] = true
		}
		if len(o.Want) > 0 && len(o.Want) < len(ref) {
			labels["match-and-non-match"] = true
			if shortcut && multiChunk {
				nontrivial = true
			}
		}
		if o.Dup {
			labels["duplicate-result"] = true
		}
	}
	for l := range labels {
		c.Label(l)
	}
	c.LabelIf(multiChunk, "payload>=2chunks")
	c.LabelIf(!c04RefHighOK, "reference-cannot-substitute-high-bytes")
	c.Labelf("streams:%d", len(ref))
	if evaluated == 0 {
		c.Discard("no-query-evaluated")
		return
	}
	if nontrivial {
		var sb strings.Builder
		for _, t := range texts {
			sb.WriteString(t + "\n")
		}
		fmt.Fprintf(&sb, "%v", p.world.render())
		c.NonTrivial(sb.String())
	}
}

func c04Sel(b bool) string {
	if b {
		return "selected"
	}
	return "not selected"
}

func c04DescribeStream(w *c04World, id uint64) string {
	for _, s := range w.Streams {
		if s.ID != id {
			continue
		}
		var sb strings.Builder
		fmt.Fprintf(&sb, "stream %d raw chunks:", id)
		for _, ch := range s.Raw {
			fmt.Fprintf(&sb, " %d:%q", ch.Dir, ch.Data)
		}
		names := make([]string, 0, len(s.Conv))
		for n := range s.Conv {
			names = append(names, n)
		}
		sort.Strings(names)
		for _, n := range names {
			fmt.Fprintf(&sb, "\n  converter %s:", n)
			for _, ch := range s.Conv[n] {
				fmt.Fprintf(&sb, " %d:%q", ch.Dir, ch.Data)
			}
		}
		return sb.String()
	}
	return ""
}

// c04Straddle labels whether the first element of a condition has a raw-payload
// match that crosses a chunk (packet) boundary or a direction-run boundary.
func c04Straddle(w *c04World, f c04Filter, labels map[string]bool) {
	if len(f.e.refs) > 0 || f.neg {
		return
	}
	for _, s := range w.Streams {
		for dir := 0; dir < 2; dir++ {
			if f.key == "cdata" && dir == 1 || f.key == "sdata" && dir == 0 {
				continue
			}
			var buf []byte
			var packetEnds, runEnds []int
			for i, ch := range s.Raw {
				if ch.Dir != dir {
					continue
				}
				buf = append(buf, ch.Data...)
				packetEnds = append(packetEnds, len(buf))
				if i+1 < len(s.Raw) && s.Raw[i+1].Dir != dir {
					runEnds = append(runEnds, len(buf))
				}
			}
			m := f.e.rx.FindIndex(buf)
			if m == nil {
				continue
			}
			labels["first-element-matches-raw"] = true
			if m[0] > 0 {
				labels["match-not-at-start"] = true
			}
			for _, b := range packetEnds {
				if m[0] < b && b < m[1] {
					labels["match-straddles-chunk"] = true
				}
			}
			for _, b := range runEnds {
				if m[0] < b && b < m[1] {
					labels["match-straddles-direction-run"] = true
				}
			}
		}
	}
}

func TestVerifC04(t *testing.T) {
	cfg := c04Cfg{name: t.Name(), open: vlib.OpenFindings()}
	vlib.Check(t, "C04", func(rt *rapid.T, c *vlib.Case) { c04Prop(rt, c, cfg) })
}

// TestVerifC04Anchored: the same property over expressions with empty-width assertions.
func TestVerifC04Anchored(t *testing.T) {
	cfg := c04Cfg{name: t.Name(), anchored: true, open: vlib.OpenFindings()}
	vlib.Check(t, "C04", func(rt *rapid.T, c *vlib.Case) { c04Prop(rt, c, cfg) })
}

// ---------------------------------------------------------------------------------------------
// hand-written worlds (fixed cases)

// c04Manual runs one query on a hand-written world and returns "" when the
// engine and the plain scan agree.
func c04Manual(w *c04World, text string) (msg string) {
	defer func() {
		if rec := recover(); rec != nil {
			msg = fmt.Sprintf("query %q: SearchStreams panicked: %v", text, rec)
		}
	}()
	dir, err := os.MkdirTemp("", "c04fixed-")
	if err != nil {
		return "harness error: " + err.Error()
	}
	defer os.RemoveAll(dir)
	r, convs, ref, err := w.open(dir)
	if err != nil {
		return "harness error: " + err.Error()
	}
	defer r.Close()
	o := c04RunQuery(r, convs, ref, text)
	switch {
	case o.ParseErr != nil:
		return fmt.Sprintf("query %q does not parse: %q", text, o.ParseErr.Error())
	case o.SearchErr != nil:
		return fmt.Sprintf("query %q: SearchStreams failed: %q", text, o.SearchErr.Error())
	case o.RefErr != nil:
		return fmt.Sprintf("query %q: reference evaluator failed: %q", text, o.RefErr.Error())
	}
	if id, bad := o.diff(); bad {
		return fmt.Sprintf("query %q: stream %d is %s by SearchStreams but the plain scan says %s; %s", text, id, c04Sel(o.Got[id]), c04Sel(o.Want[id]), c04DescribeStream(w, id))
	}
	return ""
}

// c04W builds a world of raw-only streams from "dir:payload" chunk lists.
func c04W(streams ...[]c04Chunk) *c04World {
	w := &c04World{}
	for i, s := range streams {
		w.Streams = append(w.Streams, &c04Stream{ID: uint64(i), Raw: s, Conv: map[string][]c04Chunk{}})
	}
	return w
}

func c04C(data string) c04Chunk { return c04Chunk{0, []byte(data)} }
func c04S(data string) c04Chunk { return c04Chunk{1, []byte(data)} }

// c04WConv builds a one-stream world with a raw payload and one cached converter output.
func c04WConv(raw, conv []c04Chunk) *c04World {
	return &c04World{Convs: []string{"ka"}, Streams: []*c04Stream{{ID: 0, Raw: raw, Conv: map[string][]c04Chunk{"ka": conv}}}}
}

type c04FixedCase struct {
	w     *c04World
	query string
}

// TestVerifC04Fixed: reproducers of the C04 findings (open: KNOWN-FINDING probes, fixed: regression cases).
func c04FixedCases() map[string][]c04FixedCase {
	one := func(chunks ...c04Chunk) *c04World { return c04W(chunks) }
	return map[string][]c04FixedCase{
		c04FindReanchor: {
			// fixed-length window: "abc" is searched anywhere and the expression then runs on the window alone
			{one(c04C("xabc")), `cdata:"^abc"`},
			{one(c04C("xabc")), `cdata:"\Aabc"`},
			// suffix cut: the buffer ends after the last "a"
			{one(c04S("ab")), `sdata:"a$"`},
			{one(c04S("ab")), `-sdata:"a\z"`},
			// word boundaries see the cut as the text boundary
			{one(c04C("xfoo")), `cdata:"\bfoo"`},
			{one(c04C("foox")), `cdata:"foo\b"`},
			{one(c04C("afoo")), `cdata:"\Bfoo"`},
			// a failed search leaves the offset at the end of the data; the element is searched again on the empty rest
			{one(c04C("aaa")), `sdata:"b*" then cdata:"^c*\z"`},
			{one(c04C("ab")), `cdata:"a" then cdata:"^$"`},
			// controls
			{one(c04C("abc")), `cdata:"^abc"`},
			{one(c04S("ba")), `sdata:"a$"`},
			{one(c04C("x foo")), `cdata:"\bfoo"`},
		},
		c04FindUnmatchedGroup: {
			{one(c04C("b")), `cdata:"(?P<v>a)?b"`},
			{one(c04C("b"), c04C("cd")), `cdata:"(?P<v>a)?b" then cdata:"c@v@d"`},
			{one(c04C("xb")), `cdata:"(?:(?P<v>a)|x)b"`},
			{one(c04C("ab")), `cdata:"(?P<v>a)?b"`},
		},
		c04FindPrefixLeak: {
			// whichever stream is searched first leaves its value in the shared precondition entry
			{c04W([]c04Chunk{c04C("a xa")}, []c04Chunk{c04C("b xb")}), `cdata:"(?P<v>[ab])" then cdata:"x@v@"`},
			// the raw payload (searched first) fails after the precondition matched, the converter output matches
			{c04WConv([]c04Chunk{c04C("a xb")}, []c04Chunk{c04C("b xb")}), `cdata:"(?P<v>[ab])" then cdata:"x@v@"`},
			{c04W([]c04Chunk{c04C("a aa")}, []c04Chunk{c04C("b bb")}), `cdata:"(?P<v>[ab]) " then cdata:"@v@@v@"`},
		},
		c04FindPrecondNL: {
			{one(c04C("k\n x\ny")), `cdata:"k(?P<v>[\n.])" then cdata:"x@v@y"`},
			{one(c04C("k\n"), c04S("x\ny")), `cdata:"k(?P<v>(?s:.))" then sdata:"x@v@y"`},
			{one(c04C("k. x.y")), `cdata:"k(?P<v>[\n.])" then cdata:"x@v@y"`},
		},
		c04FindVarHighByte: {
			{one(c04C("k\xe9 x\xe9y")), `cdata:"k(?P<v>.)" then cdata:"x@v@y"`},
			{one(c04C("k\xe9\x80\x80 x\xe9\x80\x80y")), `cdata:"k(?P<v>...)" then cdata:"x@v@y"`},
			{one(c04C("k\xe9\x80\x80 x\xe9\x80\x80y")), `cdata:"k(?P<v>...)" then -cdata:"x@v@y"`},
		},
	}
}

func TestVerifC04Fixed(t *testing.T) {
	cases := c04FixedCases()
	names := []string{c04FindReanchor, c04FindUnmatchedGroup, c04FindPrefixLeak, c04FindPrecondNL, c04FindVarHighByte}
	vlib.Fixed(t, "C04", names, func(name string) (string, any) {
		for _, fc := range cases[name] {
			if msg := c04Manual(fc.w, fc.query); msg != "" {
				m := fc.w.render().(map[string]any)
				m["query"] = fc.query
				return msg, m
			}
		}
		return "", nil
	})
}
