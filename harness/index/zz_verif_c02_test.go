package index_test

// C02 — search returns exactly the streams the query denotes, ordered and paged.
//
// A generated population of stream identities (1-3 versions each) is spread
// over 1-4 index files so that older versions are shadowed by newer files.
// Generated queries (vq.GenExpr) with sort key lists, limit/page and optional
// ID restriction are run through index.SearchStreams; the reference is
// vq.EvalNF of the parsed (not inlined) conditions over the visible streams,
// an independently written comparator chain and the page-validity rule of
// DESIGN.md §5 C02.

import (
	"context"
	"fmt"
	"net"
	"net/netip"
	"os"
	"path/filepath"
	"sort"
	"strings"
	"testing"
	"time"

	"github.com/spq/pkappa2/internal/index"
	"github.com/spq/pkappa2/internal/query"
	"github.com/spq/pkappa2/internal/tools/bitmask"
	"github.com/spq/pkappa2/internal/verif/vidx"
	"github.com/spq/pkappa2/internal/verif/vlib"
	"github.com/spq/pkappa2/internal/verif/vq"
	"pgregory.net/rapid"
)

const (
	fC02Double        = "F-C02-double-listing"
	fC02EarlyTie      = "F-C02-early-exit-ties"
	fC02NegImpTag     = "F-C02-negated-tag-impossible-definition"
	fC02InlineAlias   = "F-C02-inline-tags-shared-backing"
	fC02CleanConv     = "F-C02-data-clean-ignores-converter-name"
	fC02NegSeqMulti   = "F-C02-negated-sequence-across-converter-outputs"
	fC02InvSeqNoOut   = "F-C02-inverted-sequence-without-converter-output"
	fC02SubNegHost    = "F-C02-subquery-negated-host"
	fC02SubSecond     = "F-C02-second-subquery-ignored"
	fC02SubPendingTag = "F-C02-pending-tag-in-subquery"
)

// ---------------------------------------------------------------------------------------------
// pools: the constants of vq's expression generator (harness/vq/gen.go) and their neighbours

var (
	c02PortPool  = []int{0, 1, 80, 81, 443, 1024, 8080, 65535}
	c02V4Pool    = []string{"10.0.0.1", "10.0.0.2", "10.0.1.1", "10.1.2.3", "192.168.1.1", "0.0.0.0", "255.255.255.255"}
	c02V6Pool    = []string{"fd00::1", "fd00::2", "fd00:0:0:1::1", "fe80::1:2", "::1"}
	c02TimeOffs  = []time.Duration{0, 0, 0, time.Second, -time.Second, 5 * time.Second, -5 * time.Second, 5 * time.Minute, -5 * time.Minute, 1500 * time.Millisecond}
	c02TimeEps   = []time.Duration{0, 0, 0, time.Microsecond, -time.Microsecond}
	c02LDeltas   = []time.Duration{0, 0, time.Microsecond, time.Second, 5 * time.Second, 5*time.Second - time.Microsecond, 5 * time.Minute, 5*time.Minute + time.Microsecond, time.Hour}
	c02PadTarget = []int{1, 2, 100, 101, 4096}
	c02SortKeys  = []string{"id", "ftime", "ltime", "cbytes", "sbytes", "chost", "shost", "cport", "sport"}
	c02TagNames  = []string{"tag/a", "tag/b", "service/web", "mark/m", "generated/g"}
)

// ---------------------------------------------------------------------------------------------
// population

// c02Attr are the attributes of one stream version before it becomes a record.
type c02Attr struct {
	cport, sport uint16
	udp          bool
	chost, shost net.IP
	ftimeUS      int64
	ldeltaUS     int64
	runs         []vq.Run
	split        []int // per run: offset at which the run is cut into two packets (0 = one packet)
	tail         bool  // a trailing payload-less packet even when ldelta is 0
}

// c02Pools are the per-case sub-pools that make ties in every sort key common.
type c02Pools struct {
	fam      int // 0 v4, 1 v6, 2 mixed
	ports    []uint16
	h4, h6   []net.IP
	ftimes   []int64
	ldeltas  []int64
	payloads [][]vq.Run
	subTags  []*c02SubTag // sub-query campaign: tags with a simple definition that filters may name
}

func c02Clamp16(v int) uint16 {
	if v < 0 {
		return 0
	}
	if v > 65535 {
		return 65535
	}
	return uint16(v)
}

func c02GenPort(t *rapid.T) uint16 {
	return c02Clamp16(rapid.SampledFrom(c02PortPool).Draw(t, "port") + rapid.SampledFrom([]int{0, 0, 1, -1}).Draw(t, "portd"))
}

func c02GenFTime(t *rapid.T) int64 {
	base := rapid.SampledFrom(vq.AbsPool()).Draw(t, "tbase")
	d := rapid.SampledFrom(c02TimeOffs).Draw(t, "toff") + rapid.SampledFrom(c02TimeEps).Draw(t, "teps")
	return base.Add(d).UnixMicro()
}

func c02GenPayload(t *rapid.T) []vq.Run {
	runs := vq.GenRuns(t, "p")
	if rapid.IntRange(0, 3).Draw(t, "pad") == 0 {
		// bring one direction's byte count onto a constant of the query generator
		dir := rapid.IntRange(0, 1).Draw(t, "paddir")
		target := rapid.SampledFrom(c02PadTarget).Draw(t, "padto")
		have := 0
		for _, r := range runs {
			if r.Dir == dir {
				have += len(r.Data)
			}
		}
		if have < target {
			runs = append(runs, vq.Run{Dir: dir, Data: []byte(strings.Repeat("z", target-have))})
		}
	}
	return runs
}

func c02GenPools(t *rapid.T) *c02Pools {
	p := &c02Pools{fam: rapid.SampledFrom([]int{0, 0, 0, 1, 2, 2}).Draw(t, "fam")}
	for i, n := 0, rapid.IntRange(1, 4).Draw(t, "nports"); i < n; i++ {
		p.ports = append(p.ports, c02GenPort(t))
	}
	for i, n := 0, rapid.IntRange(1, 4).Draw(t, "nh4"); i < n; i++ {
		p.h4 = append(p.h4, net.ParseIP(rapid.SampledFrom(c02V4Pool).Draw(t, "h4")).To4())
	}
	for i, n := 0, rapid.IntRange(1, 4).Draw(t, "nh6"); i < n; i++ {
		p.h6 = append(p.h6, net.ParseIP(rapid.SampledFrom(c02V6Pool).Draw(t, "h6")).To16())
	}
	for i, n := 0, rapid.IntRange(1, 5).Draw(t, "nftimes"); i < n; i++ {
		p.ftimes = append(p.ftimes, c02GenFTime(t))
	}
	for i, n := 0, rapid.IntRange(1, 3).Draw(t, "nldeltas"); i < n; i++ {
		p.ldeltas = append(p.ldeltas, rapid.SampledFrom(c02LDeltas).Draw(t, "ldelta").Microseconds())
	}
	for i, n := 0, rapid.IntRange(1, 5).Draw(t, "npayloads"); i < n; i++ {
		p.payloads = append(p.payloads, c02GenPayload(t))
	}
	return p
}

// fromPool: three of four draws come from the per-case pool.
func c02FromPool(t *rapid.T, label string) bool { return rapid.IntRange(0, 3).Draw(t, label) != 0 }

func (p *c02Pools) genAttr(t *rapid.T) *c02Attr {
	a := &c02Attr{}
	port := func(l string) uint16 {
		if c02FromPool(t, l+"pool") {
			return rapid.SampledFrom(p.ports).Draw(t, l)
		}
		return c02GenPort(t)
	}
	a.cport, a.sport = port("cport"), port("sport")
	a.udp = rapid.IntRange(0, 2).Draw(t, "udp") == 0
	v6 := p.fam == 1 || (p.fam == 2 && rapid.IntRange(0, 2).Draw(t, "v6") == 0)
	host := func(l string) net.IP {
		pool, all, size := p.h4, c02V4Pool, 4
		if v6 {
			pool, all, size = p.h6, c02V6Pool, 16
		}
		if c02FromPool(t, l+"pool") {
			return rapid.SampledFrom(pool).Draw(t, l)
		}
		ip := net.ParseIP(rapid.SampledFrom(all).Draw(t, l+"any"))
		if size == 4 {
			return ip.To4()
		}
		return ip.To16()
	}
	a.chost, a.shost = host("chost"), host("shost")
	if c02FromPool(t, "ftimepool") {
		a.ftimeUS = rapid.SampledFrom(p.ftimes).Draw(t, "ftime")
	} else {
		a.ftimeUS = c02GenFTime(t)
	}
	if c02FromPool(t, "ldeltapool") {
		a.ldeltaUS = rapid.SampledFrom(p.ldeltas).Draw(t, "ldelta")
	} else {
		a.ldeltaUS = rapid.SampledFrom(c02LDeltas).Draw(t, "ldeltaany").Microseconds()
	}
	p.genPayload(t, a)
	return a
}

func (p *c02Pools) genPayload(t *rapid.T, a *c02Attr) {
	if c02FromPool(t, "payloadpool") {
		a.runs = rapid.SampledFrom(p.payloads).Draw(t, "payload")
	} else {
		a.runs = c02GenPayload(t)
	}
	a.split = make([]int, len(a.runs))
	for i, r := range a.runs {
		if len(r.Data) >= 2 && rapid.IntRange(0, 3).Draw(t, "split") == 0 {
			a.split[i] = rapid.IntRange(1, len(r.Data)-1).Draw(t, "splitat")
		}
	}
	a.tail = rapid.Bool().Draw(t, "tail")
}

// genNext draws the next version of a stream: mostly the same connection that
// grew (same endpoints and first packet, more payload, later last packet),
// sometimes one whose beginning arrived late (earlier first packet, other
// payload), sometimes unrelated content under the same ID.
func (p *c02Pools) genNext(t *rapid.T, old *c02Attr) *c02Attr {
	switch rapid.IntRange(0, 3).Draw(t, "verkind") {
	case 0, 1:
		n := *old
		n.runs = append(append([]vq.Run{}, old.runs...), c02GenPayload(t)...)
		n.split = make([]int, len(n.runs))
		copy(n.split, old.split)
		n.ldeltaUS = old.ldeltaUS + rapid.SampledFrom([]int64{0, 1, 1000000, 5000000}).Draw(t, "grow")
		if n.ldeltaUS > 4000000000 {
			n.ldeltaUS = old.ldeltaUS
		}
		return &n
	case 2:
		n := *old
		n.ftimeUS = old.ftimeUS - rapid.SampledFrom([]int64{0, 1, 1000000, 5000000}).Draw(t, "earlier")
		p.genPayload(t, &n)
		return &n
	default:
		return p.genAttr(t)
	}
}

// rec turns attributes into a record the writer accepts: the first packet is a
// payload-less client packet (it defines the client side and the first packet
// time), every run becomes one or two packets, the last packet carries the
// last packet time.
func (a *c02Attr) rec(id uint64, next *uint64) *vidx.SRec {
	r := &vidx.SRec{ID: id, CAddr: a.chost, SAddr: a.shost, CPort: a.cport, SPort: a.sport, UDP: a.udp}
	add := func(us int64, dir int, payload []byte) {
		r.Packets = append(r.Packets, vidx.SPacket{File: "c02.pcap", Index: *next, TimeUS: us, Dir: dir, Payload: payload})
		*next++
	}
	add(a.ftimeUS, 0, nil)
	last := a.ftimeUS + a.ldeltaUS
	for i, run := range a.runs {
		if len(run.Data) == 0 {
			continue
		}
		ts := a.ftimeUS
		if i == len(a.runs)-1 && !a.tail {
			ts = last
		}
		if cut := a.split[i]; cut > 0 && cut < len(run.Data) {
			add(a.ftimeUS, run.Dir, run.Data[:cut])
			add(ts, run.Dir, run.Data[cut:])
		} else {
			add(ts, run.Dir, run.Data)
		}
	}
	if r.Packets[len(r.Packets)-1].TimeUS != last {
		add(last, len(r.Packets)&1, nil)
	}
	return r
}

// c02Vis is one visible stream: the newest stored version of an ID.
type c02Vis struct {
	rec  *vidx.SRec
	file int
	s    *vq.Stream
}

// c02Abstract derives what the query language can see from a stored record:
// payload coalesced by direction as the writer stores it, byte counts = payload sizes.
func c02Abstract(r *vidx.SRec) *vq.Stream {
	s := &vq.Stream{ID: r.ID, CPort: r.CPort, SPort: r.SPort, CHost: r.CAddr, SHost: r.SAddr, Proto: 1, Tags: map[string]vq.TagState{}}
	if r.UDP {
		s.Proto = 2
	}
	s.FTime = time.UnixMicro(r.Packets[0].TimeUS)
	s.LTime = time.UnixMicro(r.Packets[len(r.Packets)-1].TimeUS)
	for _, p := range r.Packets {
		if len(p.Payload) == 0 {
			continue
		}
		if n := len(s.Runs); n > 0 && s.Runs[n-1].Dir == p.Dir {
			s.Runs[n-1].Data = append(append([]byte{}, s.Runs[n-1].Data...), p.Payload...)
		} else {
			s.Runs = append(s.Runs, vq.Run{Dir: p.Dir, Data: p.Payload})
		}
		if p.Dir == 0 {
			s.CBytes += uint64(len(p.Payload))
		} else {
			s.SBytes += uint64(len(p.Payload))
		}
	}
	return s
}

// c02Conv is a converter whose cache holds output for some stream IDs.
type c02Conv struct {
	out map[uint64][]vq.Run
}

func (c *c02Conv) Data(*index.Stream, bool) ([]index.Data, uint64, uint64, bool, error) {
	return nil, 0, 0, false, nil
}

// DataForSearch returns the cached output the way the converter cache does: the
// per-direction concatenation and the cumulative sizes after each chunk.
func (c *c02Conv) DataForSearch(streamID uint64) ([2][]byte, [][2]int, uint64, uint64, bool, error) {
	runs, ok := c.out[streamID]
	if !ok {
		return [2][]byte{}, [][2]int{}, 0, 0, false, nil
	}
	l := vq.MakeLayout(runs)
	sizes := make([][2]int, len(l.Cum))
	copy(sizes, l.Cum)
	return l.Buf, sizes, uint64(len(l.Buf[0])), uint64(len(l.Buf[1])), true, nil
}

type c02Pop struct {
	conv    *c02Conv       // converter "c1", nil when the case has none
	files   [][]*vidx.SRec // oldest first
	visible []*c02Vis      // by increasing ID
	byID    map[uint64]*c02Vis
	// statistics
	shadowed      int  // IDs with an older version in an older file
	mixedFamilies bool // visible streams of both address families
}

func c02Finish(files [][]*vidx.SRec) *c02Pop {
	pop := &c02Pop{byID: map[uint64]*c02Vis{}}
	for _, f := range files {
		if len(f) != 0 {
			pop.files = append(pop.files, f)
		}
	}
	for fi, f := range pop.files {
		for _, r := range f {
			if _, ok := pop.byID[r.ID]; ok {
				pop.shadowed++
			}
			pop.byID[r.ID] = &c02Vis{rec: r, file: fi} // later files win
		}
	}
	fams := map[int]bool{}
	for _, id := range vidx.SortedIDs(pop.byID) {
		v := pop.byID[id]
		v.s = c02Abstract(v.rec)
		fams[len(v.rec.CAddr)] = true
		pop.visible = append(pop.visible, v)
	}
	pop.mixedFamilies = len(fams) > 1
	// shadowed counted versions; make it the number of IDs
	ids := map[uint64]int{}
	for _, f := range pop.files {
		for _, r := range f {
			ids[r.ID]++
		}
	}
	pop.shadowed = 0
	for _, n := range ids {
		if n > 1 {
			pop.shadowed++
		}
	}
	return pop
}

func c02GenPop(t *rapid.T) *c02Pop {
	pools := c02GenPools(t)
	nFiles := rapid.IntRange(1, 4).Draw(t, "nfiles")
	nIdent := rapid.IntRange(1, 25).Draw(t, "nident")
	allIDs := make([]int, 31)
	for i := range allIDs {
		allIDs[i] = i
	}
	ids := rapid.Permutation(allIDs).Draw(t, "ids")[:nIdent]
	files := make([][]*vidx.SRec, nFiles)
	next := uint64(0)
	for _, id := range ids {
		maxv := 3
		if nFiles < maxv {
			maxv = nFiles
		}
		nv := rapid.SampledFrom([]int{1, 1, 2, 2, 3}).Draw(t, "nversions")
		if nv > maxv {
			nv = maxv
		}
		where := append([]int{}, rapid.Permutation(allIDs[:nFiles]).Draw(t, "where")[:nv]...)
		sort.Ints(where)
		var a *c02Attr
		for _, fi := range where {
			if a == nil {
				a = pools.genAttr(t)
			} else {
				a = pools.genNext(t, a)
			}
			files[fi] = append(files[fi], a.rec(uint64(id), &next))
		}
	}
	// the order in which streams were added is the file order the full scan walks
	for fi := range files {
		if len(files[fi]) > 1 {
			files[fi] = rapid.Permutation(files[fi]).Draw(t, "fileorder")
		}
	}
	pop := c02Finish(files)
	if rapid.IntRange(0, 3).Draw(t, "converter") == 0 {
		// a converter "c1" with cached output for some of the streams
		pop.conv = &c02Conv{out: map[uint64][]vq.Run{}}
		for _, v := range pop.visible {
			if rapid.Bool().Draw(t, "converted") {
				if c02FromPool(t, "convpool") {
					pop.conv.out[v.s.ID] = rapid.SampledFrom(pools.payloads).Draw(t, "convout")
				} else {
					pop.conv.out[v.s.ID] = c02GenPayload(t)
				}
				v.s.Conv = map[string][]vq.Run{"c1": pop.conv.out[v.s.ID]}
			}
		}
	}
	return pop
}

// ---------------------------------------------------------------------------------------------
// tags

type c02Tag struct {
	name      string
	defText   string
	def       *query.Query
	ref       time.Time // the reference time def's time conditions are currently expressed against
	matches   []uint    // bits of TagDetails.Matches
	uncertain []uint    // bits of TagDetails.Uncertain
	nPos      int       // conjuncts of the definition
	nNeg      int       // conjuncts of the negated definition
	raw       bool      // hand-written (fixed cases)
	nested    bool      // the definition filters on earlier tags
}

func c02Bitmask(bits []uint) bitmask.LongBitmask {
	bm := bitmask.LongBitmask{}
	for _, b := range bits {
		bm.Set(b)
	}
	return bm
}

// rebase expresses the absolute time constants of the tag definition against
// ref, as if the definition had been parsed at the same instant as the query
// it is inlined into (query.Parse reads the wall clock; every condition
// generated here is either variable-only or absolute, for which
// Duration = X + ReferenceTimeFactor*referenceTime).
func (tg *c02Tag) rebase(ref time.Time) {
	if tg.def == nil || tg.ref.Equal(ref) {
		return
	}
	delta := ref.Sub(tg.ref)
	for _, conj := range tg.def.Conditions {
		for _, cc := range conj {
			if tc, ok := cc.(*query.TimeCondition); ok && tc.ReferenceTimeFactor != 0 {
				tc.Duration += time.Duration(tc.ReferenceTimeFactor) * delta
			}
		}
	}
	tg.ref = ref
}

func c02TagCfg(open map[string]bool) vq.GenConfig {
	cfg := c02ExprCfg(open, nil)
	cfg.MaxDepth = 2
	cfg.MaxList = 2
	return cfg
}

// c02DrawExpr draws an expression whose estimated normal form stays small.
// Protocol filters make every clean() of a conjunct walk all 65536 flag values,
// so expressions holding one are kept smaller still (cost only).
func c02DrawExpr(t *rapid.T, cfg vq.GenConfig, maxDNF int, label string, accept func(e *vq.Node, hasProto bool) bool) *vq.Node {
	for try := 0; try < 6; try++ {
		e := vq.GenExpr(cfg).Draw(t, label)
		sz, _ := e.DNFSize()
		lim := maxDNF
		proto := false
		for _, a := range e.Atoms() {
			if a.Key == "protocol" {
				proto = true
				if lim > 6 {
					lim = 6
				}
			}
		}
		if sz <= lim && (accept == nil || accept(e, proto)) {
			return e
		}
	}
	cfg.MaxDepth = 0
	return vq.GenExpr(cfg).Draw(t, label+"leaf")
}

// c02NegationCost bounds the number of conjuncts the negation of the tag's inlined normal form has before it is
// simplified: the product over its conjuncts of the number of alternatives each conjunct's negation has.
// earlier are the tags the definition may refer to (all of them passed this bound, so inlining them is cheap).
func c02NegationCost(tg *c02Tag, earlier []*c02Tag) int {
	td := map[string]query.TagDetails{}
	for _, e := range earlier {
		td[e.name] = query.TagDetails{Uncertain: c02Bitmask([]uint{0}), Conditions: e.def.Conditions}
	}
	inl := tg.def.Conditions.InlineTagFilters(td)
	cost := 1
	for _, conj := range inl {
		alts := 0
		for _, cc := range conj {
			switch x := cc.(type) {
			case *query.DataCondition:
				alts += len(x.Elements)
			case *query.FlagCondition:
				alts += 3
			default:
				alts++
			}
		}
		if alts < 1 {
			alts = 1
		}
		cost *= alts
		if cost > 1<<24 {
			return 1 << 24
		}
	}
	return cost
}

func c02GenTags(t *rapid.T, open map[string]bool) (tags []*c02Tag, excluded int) {
	n := rapid.SampledFrom([]int{0, 1, 1, 2, 2, 3}).Draw(t, "ntags")
	names := append([]string{}, rapid.Permutation(c02TagNames).Draw(t, "tagnames")[:n]...)
	sort.Strings(names)
	for i, name := range names {
		tg := &c02Tag{name: name}
		cfg := c02TagCfg(open)
		if i > 0 && !open[fC02InlineAlias] && rapid.IntRange(0, 2).Draw(t, "nested") == 0 {
			// a definition that filters on tags defined before it (the tag graph stays acyclic)
			cfg.Tags = names[:i]
			cfg.MaxDepth = 1
			tg.nested = true
		}
		// the engine inlines the definition (or its negation) into every conjunct that
		// filters on the tag: both normal forms are kept small (cost only)
		pos, neg := 9, 9
		e := c02DrawExpr(t, cfg, 6, "tagdef", func(e *vq.Node, hasProto bool) bool {
			ne := &vq.Node{Kind: vq.KNot, Kids: []*vq.Node{e}}
			if sz, _ := ne.DNFSize(); sz > 24 || (hasProto && sz > 6) {
				return false
			}
			pq, err := query.Parse(e.Render())
			if err != nil {
				return false
			}
			nq, err := query.Parse(ne.Render())
			if err != nil {
				return false
			}
			pos, neg = c02InlinedSize(pq.Conditions, tags), c02InlinedSize(nq.Conditions, tags)
			return pos <= 8 && neg <= 8
		})
		tg.defText = e.Render()
		if err := tg.parse(); err != nil {
			t.Fatalf("tag definition %q does not parse: %v", tg.defText, err)
		}
		tg.nPos, tg.nNeg = 8, 8 // upper bounds; exact when the closure accepted the expression last
		if pos <= 8 && neg <= 8 {
			tg.nPos, tg.nNeg = pos, neg
		}
		// cost bound: a negated filter on a pending tag makes the engine negate the tag's inlined normal form, which
		// multiplies the widths of its conjuncts (exponential by construction, exempted by C14's text); keep that
		// product small for every tag, so that no search of the case can run into it
		if c02NegationCost(tg, tags) > 20000 {
			tg.defText = "id::5"
			if err := tg.parse(); err != nil {
				t.Fatalf("tag definition %q does not parse: %v", tg.defText, err)
			}
			tg.nPos, tg.nNeg, tg.nested = 1, 1, false
		}
		if open[fC02NegImpTag] && tg.def.Conditions == nil {
			// a definition that can never match is inlined wrongly under negation: use one that can
			tg.defText = "id::5"
			if err := tg.parse(); err != nil {
				t.Fatalf("tag definition %q does not parse: %v", tg.defText, err)
			}
			tg.nPos, tg.nNeg, tg.nested = 1, 1, false
			excluded++
		}
		bits := rapid.SliceOfDistinct(rapid.UintRange(0, 33), rapid.ID[uint])
		tg.matches = bits.Draw(t, "matches")
		if rapid.IntRange(0, 3).Draw(t, "allcertain") != 0 {
			tg.uncertain = bits.Draw(t, "uncertain")
		}
		tags = append(tags, tg)
	}
	return tags, excluded
}

// c02InlinedSize estimates how many conjuncts the engine's inlining of
// undecided tags turns the normal form into.
func c02InlinedSize(conds query.ConditionsSet, tags []*c02Tag) int {
	const uncertain = query.TagConditionAcceptUncertainFailing | query.TagConditionAcceptUncertainMatching
	total := 0
	for _, conj := range conds {
		n := 1
		for _, cc := range conj {
			tc, ok := cc.(*query.TagCondition)
			if !ok || tc.Accept&uncertain == 0 || tc.Accept&uncertain == uncertain {
				continue
			}
			for _, tg := range tags {
				if tg.name != tc.TagName || len(tg.uncertain) == 0 {
					continue
				}
				if tc.Accept&uncertain == query.TagConditionAcceptUncertainMatching {
					n *= 1 + tg.nPos
				} else {
					n *= 1 + tg.nNeg
				}
			}
			if n > 1<<20 {
				n = 1 << 20
			}
		}
		total += n
	}
	return total
}

func (tg *c02Tag) parse() error {
	q, err := query.Parse(tg.defText)
	if err != nil {
		return err
	}
	tg.def, tg.ref = q, q.ReferenceTime
	tg.nPos, tg.nNeg = len(q.Conditions), 1
	if tg.raw {
		// hand-written definitions of the fixed cases are small
		if nq, err := query.Parse("-(" + tg.defText + ")"); err == nil {
			tg.nNeg = len(nq.Conditions)
		}
	}
	return nil
}

// ---------------------------------------------------------------------------------------------
// queries

func c02ExprCfg(open map[string]bool, tags []string) vq.GenConfig {
	cfg := vq.DefaultConfig()
	cfg.MaxDepth = 3
	cfg.Tags = tags
	cfg.Captures = false
	cfg.Conv = nil
	cfg.RelTimes = false // stream times are absolute; no wall-clock reading may decide a verdict
	cfg.RepeatVars = !open["F-C14-common-factor-loop"]
	cfg.OpenBoth = !open["F-C03-negated-true-is-true"]
	cfg.NoNotOverSeq = open["F-C03-prefix-ignores-inverted"]
	return cfg
}

type c02SortSpec struct {
	Key  string
	Desc bool
}

type c02Search struct {
	raw       string // fixed cases: the query text as written (expr is nil)
	conv      string // converter selector on every payload filter of the expression
	expr      *vq.Node
	sortFirst bool // the sort term precedes the expression
	sorting   []c02SortSpec
	limit     uint
	limitTerm bool // limit given as a limit: term (default limit 100 as cmd/pkappa2 passes), else as the caller's default limit
	page      uint
	restrict  []uint // nil: no ID restriction
	extract   bool
	excluded  []string
	// accept, when set, replaces the evaluation of the parsed normal form as the definition of "satisfies the query"
	accept func(v *c02Vis) (bool, error)
}

func (sp *c02Search) text() string {
	if sp.raw != "" {
		return sp.raw
	}
	e := sp.expr.Render()
	if sp.expr.Kind != vq.KAtom && sp.expr.Kind != vq.KNot {
		e = "(" + e + ")"
	}
	parts := []string{e}
	if len(sp.sorting) != 0 {
		keys := make([]string, len(sp.sorting))
		for i, s := range sp.sorting {
			keys[i] = s.Key
			if s.Desc {
				keys[i] = "-" + s.Key
			}
		}
		st := "sort:" + strings.Join(keys, ",")
		if sp.sortFirst {
			parts = append([]string{st}, parts...)
		} else {
			parts = append(parts, st)
		}
	}
	if sp.limitTerm {
		parts = append(parts, fmt.Sprintf("limit:%d", sp.limit))
	}
	return strings.Join(parts, " ")
}

func (sp *c02Search) render() map[string]any {
	m := map[string]any{"query": sp.text(), "page": sp.page}
	if !sp.limitTerm {
		m["default_limit"] = sp.limit
	}
	if sp.restrict != nil {
		m["limit_ids"] = sp.restrict
	}
	if len(sp.excluded) != 0 {
		m["steered_away_from"] = sp.excluded
	}
	return m
}

func c02GenSearch(t *rapid.T, cfg vq.GenConfig, tags []*c02Tag, hasConv bool) *c02Search {
	sp := &c02Search{}
	// one converter selector per query: the engine refuses to mix them
	sels := []string{"", "", "", "none"}
	if hasConv {
		sels = []string{"", "", "none", "c1", "c1"}
	}
	if sp.conv = rapid.SampledFrom(sels).Draw(t, "convsel"); sp.conv != "" {
		cfg.Conv = []string{sp.conv}
	}
	if len(tags) >= 2 && rapid.IntRange(0, 5).Draw(t, "tagheavy") == 0 {
		// several (negated) tag filters side by side: every undecided tag multiplies the conjunct when inlined
		sp.expr = c02TagHeavyExpr(t, cfg, tags)
		if q, err := query.Parse(sp.expr.Render()); err == nil && c02InlinedSize(q.Conditions, tags) > 30 {
			sp.expr = c02DrawSearchExpr(t, cfg, tags) // cost bound
		}
	} else {
		sp.expr = c02DrawSearchExpr(t, cfg, tags)
	}
	c02GenSearchRest(t, sp)
	return sp
}

func c02TagHeavyExpr(t *rapid.T, cfg vq.GenConfig, tags []*c02Tag) *vq.Node {
	n := rapid.IntRange(2, 3).Draw(t, "ntagatoms")
	if n > len(tags) {
		n = len(tags)
	}
	nd := &vq.Node{Kind: vq.KAnd, ExplicitAnd: rapid.Bool().Draw(t, "explicit")}
	if rapid.IntRange(0, 3).Draw(t, "tagor") == 0 {
		nd.Kind = vq.KOr
	}
	for _, tg := range rapid.Permutation(tags).Draw(t, "tagatoms")[:n] {
		typ, name, _ := strings.Cut(tg.name, "/")
		k := &vq.Node{Kind: vq.KAtom, Atom: &vq.Atom{Key: typ, Names: []string{name}}}
		if rapid.Bool().Draw(t, "negtag") {
			k = &vq.Node{Kind: vq.KNot, Kids: []*vq.Node{k}, Bang: rapid.Bool().Draw(t, "bang")}
		}
		nd.Kids = append(nd.Kids, k)
	}
	if rapid.Bool().Draw(t, "extraatom") {
		nd.Kids = append(nd.Kids, &vq.Node{Kind: vq.KAtom, Atom: vq.GenAtom(t, cfg)})
	}
	return nd
}

func c02DrawSearchExpr(t *rapid.T, cfg vq.GenConfig, tags []*c02Tag) *vq.Node {
	return c02DrawExpr(t, cfg, 40, "expr", func(e *vq.Node, hasProto bool) bool {
		if len(tags) == 0 {
			return true
		}
		// bound the size of the normal form after the engine inlined undecided tags (cost only)
		q, err := query.Parse(e.Render())
		if err != nil {
			return true // reported by the property
		}
		lim := 100
		if hasProto {
			lim = 12
		}
		return c02InlinedSize(q.Conditions, tags) <= lim
	})
}

func c02GenSearchRest(t *rapid.T, sp *c02Search) {
	n := rapid.SampledFrom([]int{0, 0, 1, 1, 1, 2, 2, 2, 3, 3}).Draw(t, "nsort")
	for i := 0; i < n; i++ {
		sp.sorting = append(sp.sorting, c02SortSpec{Key: rapid.SampledFrom(c02SortKeys).Draw(t, "sortkey"), Desc: rapid.Bool().Draw(t, "desc")})
	}
	sp.sortFirst = rapid.Bool().Draw(t, "sortfirst")
	sp.limit = rapid.SampledFrom([]uint{0, 1, 1, 2, 2, 3, 3, 5, 5, 100}).Draw(t, "limit")
	sp.limitTerm = rapid.Bool().Draw(t, "limitterm")
	sp.page = rapid.SampledFrom([]uint{0, 0, 1, 2}).Draw(t, "page")
	if rapid.IntRange(0, 3).Draw(t, "restrict") == 0 {
		sp.restrict = rapid.SliceOfDistinct(rapid.UintRange(0, 33), rapid.ID[uint]).Draw(t, "limitids")
		if sp.restrict == nil {
			sp.restrict = []uint{}
		}
	}
	sp.extract = rapid.Bool().Draw(t, "extract")
}

// ---------------------------------------------------------------------------------------------
// scan strategy of the engine, inferred from the shape of the inlined normal form
// (labels and steering away from open findings only; never part of the oracle)

type c02Shape struct {
	sortedScan     bool // a sort-order lookup section is walked with early exit
	partsLookup    int  // conjuncts that can be driven by lookups (tag bitmaps, ID bounds)
	partsNoLookup  int  // conjuncts that need a scan
	firstKey       string
	secondaryKeys  bool
	inlinedConj    int
	hasUncertainIn bool
}

func c02ConjHasLookup(c query.Conditions) bool {
	minID, maxID := uint64(0), ^uint64(0)
	for _, cc := range c {
		switch x := cc.(type) {
		case *query.TagCondition:
			if x.SubQuery == "" && x.Accept != query.TagConditionAcceptUncertainMatching|query.TagConditionAcceptUncertainFailing|query.TagConditionAcceptMatching|query.TagConditionAcceptFailing {
				return true
			}
		case *query.NumberCondition:
			if len(x.Summands) == 1 && x.Summands[0].SubQuery == "" && x.Summands[0].Type == query.NumberConditionSummandTypeID {
				switch x.Summands[0].Factor {
				case 1:
					if minID < uint64(-x.Number) {
						minID = uint64(-x.Number)
					}
				case -1:
					if maxID > uint64(x.Number) {
						maxID = uint64(x.Number)
					}
				}
			}
		}
	}
	return minID != 0 || maxID != ^uint64(0)
}

// c02CondShape is the part of the shape that depends on the conditions only.
type c02CondShape struct {
	partsLookup, partsNoLookup, inlinedConj int
}

func c02CondShapeOf(conds query.ConditionsSet, td map[string]query.TagDetails) c02CondShape {
	cs := c02CondShape{}
	if len(conds) == 0 {
		return cs
	}
	inl := conds.InlineTagFilters(td)
	cs.inlinedConj = len(inl)
	for _, c := range inl {
		if c02ConjHasLookup(c) {
			cs.partsLookup++
		} else {
			cs.partsNoLookup++
		}
	}
	return cs
}

func c02ShapeOf(cs c02CondShape, sorting []query.Sorting, limit, skip uint) c02Shape {
	sh := c02Shape{firstKey: "ftime", partsLookup: cs.partsLookup, partsNoLookup: cs.partsNoLookup, inlinedConj: cs.inlinedConj}
	first := query.SortingKeyFirstPacketTime
	if len(sorting) != 0 {
		first = sorting[0].Key
		sh.secondaryKeys = len(sorting) > 1
	}
	switch first {
	case query.SortingKeyID:
		sh.firstKey = "id"
	case query.SortingKeyFirstPacketTime:
		sh.firstKey = "ftime"
	case query.SortingKeyLastPacketTime:
		sh.firstKey = "ltime"
	default:
		sh.firstKey = "other"
	}
	sh.sortedScan = limit+skip != 0 && sh.firstKey != "other"
	return sh
}

func (sh c02Shape) strategy() string {
	switch {
	case sh.inlinedConj == 0:
		return "none(impossible)"
	case sh.partsNoLookup != 0 && !sh.sortedScan:
		return "full-scan"
	case sh.partsNoLookup != 0:
		return "sorted-full-scan"
	case !sh.sortedScan:
		return "lookups"
	default:
		return "sorted-lookups"
	}
}

// ---------------------------------------------------------------------------------------------
// the oracle

var c02KeyOf = map[query.SortingKey]string{
	query.SortingKeyID: "id", query.SortingKeyFirstPacketTime: "ftime", query.SortingKeyLastPacketTime: "ltime",
	query.SortingKeyClientBytes: "cbytes", query.SortingKeyServerBytes: "sbytes", query.SortingKeyClientHost: "chost",
	query.SortingKeyServerHost: "shost", query.SortingKeyClientPort: "cport", query.SortingKeyServerPort: "sport",
}

func c02CmpU(a, b uint64) int {
	switch {
	case a < b:
		return -1
	case a > b:
		return 1
	}
	return 0
}

func c02CmpHost(a, b net.IP) int {
	x, _ := netip.AddrFromSlice(a)
	y, _ := netip.AddrFromSlice(b)
	return x.Compare(y)
}

// c02Compare orders two abstract streams under a sort key list (default -ftime).
func c02Compare(sorting []query.Sorting, a, b *vq.Stream) int {
	if len(sorting) == 0 {
		sorting = []query.Sorting{{Key: query.SortingKeyFirstPacketTime, Dir: query.SortingDirDescending}}
	}
	for _, s := range sorting {
		c := 0
		switch c02KeyOf[s.Key] {
		case "id":
			c = c02CmpU(a.ID, b.ID)
		case "ftime":
			c = a.FTime.Compare(b.FTime)
		case "ltime":
			c = a.LTime.Compare(b.LTime)
		case "cbytes":
			c = c02CmpU(a.CBytes, b.CBytes)
		case "sbytes":
			c = c02CmpU(a.SBytes, b.SBytes)
		case "chost":
			c = c02CmpHost(a.CHost, b.CHost)
		case "shost":
			c = c02CmpHost(a.SHost, b.SHost)
		case "cport":
			c = c02CmpU(uint64(a.CPort), uint64(b.CPort))
		case "sport":
			c = c02CmpU(uint64(a.SPort), uint64(b.SPort))
		}
		if s.Dir == query.SortingDirDescending {
			c = -c
		}
		if c != 0 {
			return c
		}
	}
	return 0
}

type c02World struct {
	pop     *c02Pop
	readers []*index.Reader
	tags    []*c02Tag
}

func (w *c02World) converters() map[string]index.ConverterAccess {
	m := map[string]index.ConverterAccess{}
	if w.pop.conv != nil {
		m["c1"] = w.pop.conv
	}
	return m
}

func (w *c02World) close() {
	for _, r := range w.readers {
		r.Close()
	}
}

func c02Build(dir string, pop *c02Pop, tags []*c02Tag) (*c02World, error) {
	w := &c02World{pop: pop, tags: tags}
	for i, recs := range pop.files {
		r, err := vidx.BuildIndex(filepath.Join(dir, fmt.Sprintf("c02-%d.idx", i)), recs)
		if err != nil {
			w.close()
			return nil, fmt.Errorf("writing index file %d: %w", i, err)
		}
		w.readers = append(w.readers, r)
	}
	for _, tg := range tags {
		if tg.def == nil {
			if err := tg.parse(); err != nil {
				w.close()
				return nil, fmt.Errorf("tag definition %q does not parse: %w", tg.defText, err)
			}
		}
	}
	return w, nil
}

type c02Result struct {
	discard  string
	matches  int
	returned int
	shape    c02Shape
	ties     bool // two matching streams agree in the first sort key
	limited  bool // limit+skip < |M|
	hasOps   bool
	usesTag  bool
	uncTag   bool // a tag the query uses is uncertain for a visible stream
	orderChk bool
	more     bool
}

func c02IDs(l []*c02Vis) []uint64 {
	out := make([]uint64, len(l))
	for i, v := range l {
		out[i] = v.s.ID
	}
	return out
}

// c02Check runs one search and compares it with the reference. It returns ""
// when the oracle holds.
// tagDetails returns the tag details as the manager hands them to the engine,
// with the definitions expressed against the query's reference time.
func (w *c02World) tagDetails(ref time.Time) map[string]query.TagDetails {
	td := map[string]query.TagDetails{}
	for _, tg := range w.tags {
		tg.rebase(ref)
		td[tg.name] = query.TagDetails{Matches: c02Bitmask(tg.matches), Uncertain: c02Bitmask(tg.uncertain), Conditions: tg.def.Conditions}
	}
	return td
}

func c02Check(w *c02World, sp *c02Search, q *query.Query, cs c02CondShape) (string, c02Result) {
	res := c02Result{}
	env := vq.Env{Ref: q.ReferenceTime}
	td := w.tagDetails(q.ReferenceTime)
	used := map[string]bool{}
	for _, conj := range q.Conditions {
		for _, cc := range conj {
			if tc, ok := cc.(*query.TagCondition); ok {
				used[tc.TagName] = true
				res.usesTag = true
			}
		}
	}
	for _, v := range w.pop.visible {
		for _, tg := range w.tags {
			st := vq.TagState{Matches: td[tg.name].Matches.IsSet(uint(v.s.ID)), Uncertain: td[tg.name].Uncertain.IsSet(uint(v.s.ID))}
			if st.Uncertain && sp.accept == nil {
				// ground truth of an undecided stream: the tag's definition (DESIGN §4.4)
				m, err := vq.EvalNF(tg.def.Conditions, v.s, env)
				if err != nil {
					res.discard = "reference-error"
					return "", res
				}
				st.Matches = m
				if used[tg.name] {
					res.uncTag = true
				}
			}
			v.s.Tags[tg.name] = st
		}
	}

	// M: visible streams, restricted, accepted by the normal form as parsed
	var restrict *bitmask.LongBitmask
	if sp.restrict != nil {
		bm := c02Bitmask(sp.restrict)
		restrict = &bm
	}
	var M []*c02Vis
	for _, v := range w.pop.visible {
		if restrict != nil && !restrict.IsSet(uint(v.s.ID)) {
			continue
		}
		var ok bool
		var err error
		if sp.accept != nil {
			ok, err = sp.accept(v)
		} else {
			ok, err = vq.EvalNF(q.Conditions, v.s, env)
		}
		if err != nil {
			res.discard = "reference-error"
			return "", res
		}
		if ok {
			M = append(M, v)
		}
	}
	res.matches = len(M)

	// limit and offset as View.SearchStreams derives them
	limit := sp.limit
	if !sp.limitTerm && q.Limit != nil {
		return fmt.Sprintf("harness: unexpected limit term in %q", sp.text()), res
	}
	if q.Limit != nil {
		limit = *q.Limit
	} else if sp.limitTerm {
		return fmt.Sprintf("query %q: limit term not reported by the parser", sp.text()), res
	}
	skip := sp.page * limit
	res.shape = c02ShapeOf(cs, q.Sorting, limit, skip)
	res.limited = limit != 0 && uint(len(M)) > limit+skip

	got, more, _, err := index.SearchStreams(context.Background(), w.readers, restrict, q.ReferenceTime, q.Conditions, nil, q.Sorting, limit, skip, td, w.converters(), sp.extract)
	if err != nil {
		switch err.Error() {
		case "complex host condition not supported", "SubQueries not yet fully supported", "all data conditions must have the same converter name":
			res.discard = "engine-unsupported"
			return "", res
		}
		return fmt.Sprintf("search failed: %v", err), res
	}
	res.returned = len(got)
	res.more = more
	// a search reads the index files and the tag table, it does not change them: the same search again gives the same answer
	if again, more2, _, err2 := index.SearchStreams(context.Background(), w.readers, restrict, q.ReferenceTime, q.Conditions, nil, q.Sorting, limit, skip, td, w.converters(), sp.extract); err2 != nil {
		return fmt.Sprintf("the same search repeated failed: %v", err2), res
	} else {
		same := len(again) == len(got) && more2 == more
		for i := 0; same && i < len(got); i++ {
			same = again[i].ID() == got[i].ID()
		}
		if !same {
			ids := func(l []*index.Stream) []uint64 {
				out := make([]uint64, len(l))
				for i, s := range l {
					out[i] = s.ID()
				}
				return out
			}
			return fmt.Sprintf("the same search on the same index files and tag table returned ids %v more=%v first and ids %v more=%v when repeated", ids(got), more, ids(again), more2), res
		}
	}

	describe := func() string {
		ids := make([]uint64, len(got))
		for i, s := range got {
			ids[i] = s.ID()
		}
		return fmt.Sprintf("returned ids %v more=%v; matching visible ids %v (limit %d, skip %d)", ids, more, c02IDs(M), limit, skip)
	}

	// each once, subset of M, newest stored version
	inM := map[uint64]*c02Vis{}
	for _, v := range M {
		inM[v.s.ID] = v
	}
	seen := map[uint64]bool{}
	R := make([]*c02Vis, 0, len(got))
	for i, s := range got {
		id := s.ID()
		if seen[id] {
			return fmt.Sprintf("stream %d is listed twice (position %d); %s", id, i, describe()), res
		}
		seen[id] = true
		v, ok := inM[id]
		if !ok {
			why := "does not satisfy the query"
			if vis, exists := w.pop.byID[id]; !exists {
				why = "does not exist"
			} else if restrict != nil && !restrict.IsSet(uint(id)) {
				why = "is outside the ID restriction"
			} else {
				why += fmt.Sprintf(" (visible version %v)", vis.s.Brief())
			}
			return fmt.Sprintf("stream %d at position %d %s; %s", id, i, why, describe()), res
		}
		if s.Reader() != w.readers[v.file] {
			return fmt.Sprintf("stream %d at position %d comes from index file %s, the newest file containing it is #%d; %s", id, i, filepath.Base(s.Reader().Filename()), v.file, describe()), res
		}
		o := v.rec.Expected()
		if s.ClientPort != o.CPort || s.ServerPort != o.SPort || s.ClientBytes != o.ClientBytes || s.ServerBytes != o.ServerBytes ||
			s.FirstPacket().UnixMicro() != o.FirstUS || s.LastPacket().UnixMicro() != o.LastUS || s.ClientHostIP() != o.Client || s.ServerHostIP() != o.Server || s.Protocol() != o.Protocol {
			return fmt.Sprintf("stream %d at position %d is not the newest stored version: got ports %d/%d bytes %d/%d hosts %s/%s %s first %d last %d, want %+v", id, i,
				s.ClientPort, s.ServerPort, s.ClientBytes, s.ServerBytes, s.ClientHostIP(), s.ServerHostIP(), s.Protocol(), s.FirstPacket().UnixMicro(), s.LastPacket().UnixMicro(), *o), res
		}
		R = append(R, v)
	}

	// page size
	want := 0
	if uint(len(M)) > skip {
		want = len(M) - int(skip)
	}
	if limit != 0 && uint(want) > limit {
		want = int(limit)
	}
	if len(R) != want {
		return fmt.Sprintf("page has %d streams, want %d of %d matching; %s", len(R), want, len(M), describe()), res
	}

	// more-results flag: set exactly when matching streams exist beyond the returned page
	wantMore := limit != 0 && uint(len(M)) > skip+limit
	if more != wantMore {
		return fmt.Sprintf("more-results flag is %v, want %v; %s", more, wantMore, describe()), res
	}

	// order and page validity. bytes.Compare of a 4-byte and a 16-byte address is
	// not an order anyone documented: with host keys and both families among the
	// matches only the set-level checks above apply.
	hostKey := false
	for _, s := range q.Sorting {
		if k := c02KeyOf[s.Key]; k == "chost" || k == "shost" {
			hostKey = true
		}
	}
	mixed := false
	for _, v := range M {
		if len(v.s.CHost) != len(M[0].s.CHost) {
			mixed = true
		}
	}
	firstOnly := q.Sorting
	if len(firstOnly) > 1 {
		firstOnly = firstOnly[:1]
	}
	if !(hostKey && mixed) {
		for i := range M {
			for j := i + 1; j < len(M); j++ {
				if c02Compare(firstOnly, M[i].s, M[j].s) == 0 {
					res.ties = true
				}
			}
		}
	}
	if hostKey && mixed {
		return "", res
	}
	res.orderChk = true
	for i := 1; i < len(R); i++ {
		if c02Compare(q.Sorting, R[i].s, R[i-1].s) < 0 {
			return fmt.Sprintf("page is not in the requested order: stream %d at position %d sorts before stream %d at position %d; %s", R[i].s.ID, i, R[i-1].s.ID, i-1, describe()), res
		}
	}
	for i, r := range R {
		p := int(skip) + i
		lt, le := 0, 0
		for _, m := range M {
			c := c02Compare(q.Sorting, m.s, r.s)
			if c < 0 {
				lt++
			}
			if c <= 0 {
				le++
			}
		}
		if !(lt <= p && p <= le-1) {
			return fmt.Sprintf("stream %d cannot be at global position %d of the sorted matches: %d matching streams sort strictly before it, %d before or equal; %s", r.s.ID, p, lt, le, describe()), res
		}
	}
	return "", res
}

// ---------------------------------------------------------------------------------------------
// property

// c02Steer changes a drawn search so that it avoids the shapes of open findings;
// it reports whether the search was changed.
// c02UsesTagWithPayloadDefinition: the query filters on a tag whose definition
// (or the definition of a tag it filters on) holds payload filters. Those carry
// no converter selector, so inlining them next to payload filters with a
// selector mixes converter names.
func c02UsesTagWithPayloadDefinition(conds query.ConditionsSet, tags []*c02Tag) bool {
	payload := map[string]bool{}
	for _, tg := range tags { // definitions only refer to earlier tags
		for _, conj := range tg.def.Conditions {
			for _, cc := range conj {
				switch x := cc.(type) {
				case *query.DataCondition:
					payload[tg.name] = true
				case *query.TagCondition:
					if payload[x.TagName] {
						payload[tg.name] = true
					}
				}
			}
		}
	}
	for _, conj := range conds {
		for _, cc := range conj {
			if tc, ok := cc.(*query.TagCondition); ok && payload[tc.TagName] {
				return true
			}
		}
	}
	return false
}

// c02InvertedSequence: the normal form holds an inverted payload sequence of two or more elements.
func c02InvertedSequence(conds query.ConditionsSet) bool {
	for _, conj := range conds {
		for _, cc := range conj {
			if dc, ok := cc.(*query.DataCondition); ok && dc.Inverted && len(dc.Elements) >= 2 {
				return true
			}
		}
	}
	return false
}

// c02UsesTagWithSequenceDefinition: the query filters on a tag with undecided
// streams whose definition (or that of a tag it filters on) holds a payload
// sequence of two or more elements.
func c02UsesTagWithSequenceDefinition(conds query.ConditionsSet, tags []*c02Tag) bool {
	seq := map[string]bool{}
	for _, tg := range tags { // definitions only refer to earlier tags
		for _, conj := range tg.def.Conditions {
			for _, cc := range conj {
				switch x := cc.(type) {
				case *query.DataCondition:
					if len(x.Elements) >= 2 && len(tg.uncertain) != 0 {
						seq[tg.name] = true
					}
				case *query.TagCondition:
					if seq[x.TagName] && len(tg.uncertain) != 0 {
						seq[tg.name] = true
					}
				}
			}
		}
	}
	for _, conj := range conds {
		for _, cc := range conj {
			if tc, ok := cc.(*query.TagCondition); ok && seq[tc.TagName] {
				return true
			}
		}
	}
	return false
}

// c02InlineAliasShape: a conjunct with three tag filters of which at least one
// is inlined (the tag has undecided streams and the filter does not accept
// both undecided outcomes alike).
func c02InlineAliasShape(conds query.ConditionsSet, tags []*c02Tag) bool {
	const uncertain = query.TagConditionAcceptUncertainFailing | query.TagConditionAcceptUncertainMatching
	for _, conj := range conds {
		n, inlined := 0, 0
		for _, cc := range conj {
			tc, ok := cc.(*query.TagCondition)
			if !ok {
				continue
			}
			n++
			for _, tg := range tags {
				if tg.name == tc.TagName && len(tg.uncertain) != 0 && tc.Accept&uncertain != 0 && tc.Accept&uncertain != uncertain {
					inlined++
				}
			}
		}
		if n >= 3 && inlined >= 1 {
			return true
		}
	}
	return false
}

func c02Steer(open map[string]bool, w *c02World, sp *c02Search, q *query.Query, cs c02CondShape) bool {
	if !open[fC02Double] && !open[fC02EarlyTie] {
		return false
	}
	limit := sp.limit
	sh := c02ShapeOf(cs, q.Sorting, limit, sp.page*limit)
	if open[fC02Double] && sh.sortedScan && sh.partsLookup != 0 && sh.partsNoLookup != 0 {
		// the sorted full scan falls through into the lookup pass: search without a limit instead
		sp.limit, sp.page = 0, 0
		sp.excluded = append(sp.excluded, fC02Double)
		return true
	}
	if open[fC02EarlyTie] && sh.sortedScan && sh.secondaryKeys && sh.firstKey != "id" {
		// early exit in first-key order decided by the full comparator: only unsound with
		// ties in the first key inside one index file
		first := q.Sorting[:1]
		for _, f := range w.pop.files {
			for i := range f {
				for j := i + 1; j < len(f); j++ {
					if c02Compare(first, c02Abstract(f[i]), c02Abstract(f[j])) == 0 {
						sp.sorting = sp.sorting[:1]
						sp.excluded = append(sp.excluded, fC02EarlyTie)
						return true
					}
				}
			}
		}
	}
	return false
}

func c02RenderWorld(pop *c02Pop, tags []*c02Tag) map[string]any {
	files := []any{}
	for _, f := range pop.files {
		l := []any{}
		for _, r := range f {
			b := c02Abstract(r).Brief()
			delete(b, "tags")
			if runs, ok := b["runs"].([]string); ok {
				for i, x := range runs {
					if len(x) > 60 {
						runs[i] = fmt.Sprintf("%s...(%d bytes)", x[:48], len(x)-4)
					}
				}
			}
			l = append(l, b)
		}
		files = append(files, l)
	}
	tl := []any{}
	for _, tg := range tags {
		tl = append(tl, map[string]any{"name": tg.name, "definition": tg.defText, "matches": tg.matches, "uncertain": tg.uncertain})
	}
	m := map[string]any{"index_files_oldest_first": files, "tags": tl}
	if pop.conv != nil {
		co := map[string]any{}
		for _, id := range vidx.SortedIDs(pop.conv.out) {
			runs := []string{}
			for _, r := range pop.conv.out[id] {
				x := fmt.Sprintf("%d:%q", r.Dir, r.Data)
				if len(x) > 60 {
					x = fmt.Sprintf("%s...(%d bytes)", x[:48], len(r.Data))
				}
				runs = append(runs, x)
			}
			co[fmt.Sprint(id)] = runs
		}
		m["converter_c1_cached_output"] = co
	}
	return m
}

func c02Key(pop *c02Pop, tags []*c02Tag, searches []*c02Search) string {
	var sb strings.Builder
	for _, f := range pop.files {
		for _, r := range f {
			fmt.Fprintf(&sb, "%d|%s|%s|%d|%d|%v|", r.ID, r.CAddr, r.SAddr, r.CPort, r.SPort, r.UDP)
			for _, p := range r.Packets {
				fmt.Fprintf(&sb, "%d/%d:%q,", p.TimeUS, p.Dir, p.Payload)
			}
		}
		sb.WriteString("#")
	}
	for _, tg := range tags {
		fmt.Fprintf(&sb, "%s=%s%v%v;", tg.name, tg.defText, tg.matches, tg.uncertain)
	}
	for _, sp := range searches {
		fmt.Fprintf(&sb, "%s|%d|%d|%v|%v;", sp.text(), sp.limit, sp.page, sp.limitTerm, sp.restrict)
	}
	if pop.conv != nil {
		for _, id := range vidx.SortedIDs(pop.conv.out) {
			fmt.Fprintf(&sb, "c%d=%v;", id, pop.conv.out[id])
		}
	}
	return sb.String()
}

func c02Prop(rt *rapid.T, c *vlib.Case, open map[string]bool) {
	pop := c02GenPop(rt)
	tags, exTags := c02GenTags(rt, open)
	tagNames := make([]string, len(tags))
	for i, tg := range tags {
		tagNames[i] = tg.name
	}
	cfg := c02ExprCfg(open, tagNames)
	searches := rapid.SliceOfN(rapid.Custom(func(t *rapid.T) *c02Search { return c02GenSearch(t, cfg, tags, pop.conv != nil) }), 1, 12).Draw(rt, "searches")

	render := func(extra map[string]any) any {
		m := c02RenderWorld(pop, tags)
		sl := []any{}
		for _, sp := range searches {
			sl = append(sl, sp.render())
		}
		m["searches"] = sl
		for k, v := range extra {
			m[k] = v
		}
		return m
	}
	c.Render(func() any { return render(nil) })

	dir, err := os.MkdirTemp("", "c02-")
	if err != nil {
		rt.Fatalf("harness: %v", err)
	}
	defer os.RemoveAll(dir)
	w, err := c02Build(dir, pop, tags)
	if err != nil {
		rt.Fatalf("%v", err)
	}
	defer w.close()

	c.Labelf("files=%d", len(pop.files))
	c.LabelIf(pop.shadowed > 0, "pop:shadowed-id")
	c.LabelIf(pop.mixedFamilies, "pop:v4+v6")
	c.LabelIf(len(pop.visible) >= 10, "pop:visible>=10")
	c.Labelf("tags=%d", len(tags))
	c.LabelIf(pop.conv != nil, "pop:converter-with-cached-output")
	for _, tg := range tags {
		c.LabelIf(tg.nested, "pop:tag-definition-filters-on-tag")
	}

	if exTags != 0 {
		c.Count("excluded_known", exTags)
		c.Label("steered:" + fC02NegImpTag)
	}
	nontrivial := false
	reached := 0
	for i, sp := range searches {
		text := sp.text()
		q, err := query.Parse(text)
		if err != nil {
			rt.Fatalf("generated query %q does not parse: %v", text, err)
		}
		if open[fC02CleanConv] && sp.conv != "" && c02UsesTagWithPayloadDefinition(q.Conditions, tags) {
			c.Count("excluded_known", 1)
			c.Label("steered:" + fC02CleanConv)
			continue
		}
		if open[fC02InvSeqNoOut] && sp.conv == "c1" && c02InvertedSequence(q.Conditions) && len(pop.conv.out) < len(pop.visible) {
			// "a then not b" searched in the output of a named converter, for a stream without cached output of it
			c.Count("excluded_known", 1)
			c.Label("steered:" + fC02InvSeqNoOut)
			continue
		}
		if open[fC02NegSeqMulti] && pop.conv != nil && c02UsesTagWithSequenceDefinition(q.Conditions, tags) {
			c.Count("excluded_known", 1)
			c.Label("steered:" + fC02NegSeqMulti)
			continue
		}
		if open[fC02InlineAlias] && c02InlineAliasShape(q.Conditions, tags) {
			c.Count("excluded_known", 1)
			c.Label("steered:" + fC02InlineAlias)
			continue
		}
		cs := c02CondShapeOf(q.Conditions, w.tagDetails(q.ReferenceTime))
		if c02Steer(open, w, sp, q, cs) {
			c.Count("excluded_known", 1)
			for _, e := range sp.excluded {
				c.Label("steered:" + e)
			}
			text = sp.text()
			if q, err = query.Parse(text); err != nil {
				rt.Fatalf("generated query %q does not parse: %v", text, err)
			}
		}
		msg, r := c02Check(w, sp, q, cs)
		if msg != "" {
			c.Render(func() any {
				return render(map[string]any{"failing_search": i, "failing_query": sp.render(), "normal_form": q.Conditions.String()})
			})
			rt.Fatalf("search #%d %v: %s", i, sp.render(), msg)
		}
		if r.discard != "" {
			c.Label("search-discard:" + r.discard)
			continue
		}
		reached++
		ops := sp.expr.Count(func(n *vq.Node) bool { return n.Kind == vq.KOr || n.Kind == vq.KNot }) > 0
		c.Label("scan:" + r.shape.strategy())
		c.LabelIf(r.shape.partsLookup != 0 && r.shape.partsNoLookup != 0, "scan:mixed-lookup-and-scan-parts")
		c.Label("firstkey:" + r.shape.firstKey)
		c.Labelf("sortkeys=%d", len(q.Sorting))
		c.LabelIf(r.matches == 0, "M=0")
		c.LabelIf(r.matches >= 2, "M>=2")
		c.LabelIf(r.limited, "limit<M")
		c.LabelIf(r.more, "more-results")
		c.LabelIf(sp.page > 0 && r.returned > 0, "page>0-nonempty")
		c.LabelIf(r.ties, "ties-in-first-key")
		c.LabelIf(r.ties && r.limited, "ties-in-first-key+limit<M")
		c.LabelIf(r.ties && r.limited && r.shape.secondaryKeys, "ties-in-first-key+limit<M+secondary-keys")
		c.LabelIf(r.usesTag, "query-uses-tag")
		c.LabelIf(r.uncTag, "tag-with-uncertain-stream")
		c.LabelIf(sp.restrict != nil, "id-restriction")
		c.LabelIf(!r.orderChk, "order-not-asserted(v4/v6-host-sort)")
		c.LabelIf(sp.expr.HasData(), "payload-filter")
		c.LabelIf(sp.expr.HasData() && pop.conv != nil, "payload-filter:conv="+sp.conv)
		c.LabelIf(pop.shadowed > 0 && len(pop.files) >= 2 && r.matches >= 2, "search-over-shadowed-stack")
		if r.matches >= 2 && ((len(pop.files) >= 2 && pop.shadowed > 0) || r.limited || ops || r.usesTag) {
			nontrivial = true
		}
	}
	c.Count("searches", reached)
	if reached == 0 {
		c.Discard("no-search-reached-oracle")
		return
	}
	if nontrivial {
		c.NonTrivial(c02Key(pop, tags, searches))
	}
}

// c02Open: the open findings the driver knows plus, for runs made before a
// finding is registered in known_findings.json, the ids in VERIF_C02_ASSUME_OPEN.
func c02Open() map[string]bool {
	open := vlib.OpenFindings()
	for _, id := range strings.Split(os.Getenv("VERIF_C02_ASSUME_OPEN"), ",") {
		if id != "" {
			open[id] = true
		}
	}
	return open
}

func TestVerifC02(t *testing.T) {
	open := c02Open()
	vlib.Check(t, "C02", func(rt *rapid.T, c *vlib.Case) { c02Prop(rt, c, open) })
}

// ---------------------------------------------------------------------------------------------
// fixed cases: reproducers of findings (open: KNOWN-FINDING probe, fixed: regression)

// c02UnionConsistency checks the engine against itself: what a search without
// limit returns for a normal form is the union of what it returns for each
// of its conjuncts.
func c02UnionConsistency(w *c02World, q *query.Query) string {
	td := w.tagDetails(q.ReferenceTime)
	ids := func(conds query.ConditionsSet) (map[uint64]bool, error) {
		got, _, _, err := index.SearchStreams(context.Background(), w.readers, nil, q.ReferenceTime, conds, nil, nil, 0, 0, td, w.converters(), false)
		m := map[uint64]bool{}
		for _, s := range got {
			m[s.ID()] = true
		}
		return m, err
	}
	whole, err := ids(q.Conditions)
	if err != nil {
		return "search failed: " + err.Error()
	}
	union := map[uint64]bool{}
	for i := range q.Conditions {
		part, err := ids(q.Conditions[i : i+1])
		if err != nil {
			return "search failed: " + err.Error()
		}
		for id := range part {
			union[id] = true
		}
	}
	if fmt.Sprint(vidx.SortedIDs(whole)) != fmt.Sprint(vidx.SortedIDs(union)) {
		return fmt.Sprintf("normal form %s: the search returns streams %v, the searches for its %d alternatives return %v", q.Conditions.String(), vidx.SortedIDs(whole), len(q.Conditions), vidx.SortedIDs(union))
	}
	return ""
}

type c02FixedCase struct {
	files  [][]*vidx.SRec
	tags   []*c02Tag
	search *c02Search
	conv   map[uint64][]vq.Run // cached output of converter c1
	// the engine may refuse the query as unsupported instead of answering it
	mayRefuse bool
	// compare the engine with itself only (whole normal form vs. union of its conjuncts)
	unionOnly bool
}

func c02FixedRec(id uint64, ftimeOffUS int64, cport, sport uint16, clientPayload string, next *uint64) *vidx.SRec {
	a := &c02Attr{cport: cport, sport: sport, chost: net.IP{10, 0, 0, 1}, shost: net.IP{10, 0, 0, 2}, ftimeUS: vq.AbsPool()[0].UnixMicro() + ftimeOffUS}
	if clientPayload != "" {
		a.runs = []vq.Run{{Dir: 0, Data: []byte(clientPayload)}}
		a.split = []int{0}
	}
	return a.rec(id, next)
}

func c02FixedRun(fc c02FixedCase) (string, any) {
	pop := c02Finish(fc.files)
	if fc.conv != nil {
		pop.conv = &c02Conv{out: fc.conv}
		for _, v := range pop.visible {
			if runs, ok := fc.conv[v.s.ID]; ok {
				v.s.Conv = map[string][]vq.Run{"c1": runs}
			}
		}
	}
	rendering := c02RenderWorld(pop, fc.tags)
	rendering["search"] = fc.search.render()
	dir, err := os.MkdirTemp("", "c02-fixed-")
	if err != nil {
		return "harness: " + err.Error(), rendering
	}
	defer os.RemoveAll(dir)
	w, err := c02Build(dir, pop, fc.tags)
	if err != nil {
		return err.Error(), rendering
	}
	defer w.close()
	q, err := query.Parse(fc.search.text())
	if err != nil {
		return fmt.Sprintf("%q does not parse: %v", fc.search.text(), err), rendering
	}
	if fc.unionOnly {
		return c02UnionConsistency(w, q), rendering
	}
	msg, r := c02Check(w, fc.search, q, c02CondShapeOf(q.Conditions, w.tagDetails(q.ReferenceTime)))
	if msg == "" && r.discard != "" && !(fc.mayRefuse && r.discard == "engine-unsupported") {
		msg = "fixed case did not reach the oracle: " + r.discard
	}
	return msg, rendering
}

func c02FixedCases(name string) []c02FixedCase {
	next := uint64(0)
	switch name {
	case fC02Double:
		// one conjunct is driven by an ID lookup, the other needs a scan; default order -ftime with a limit
		// walks the first-packet-time section: stream 3 is found by the scan and again by the lookup pass
		f := []*vidx.SRec{c02FixedRec(1, 0, 1001, 80, "", &next), c02FixedRec(3, 1000000, 1003, 80, "", &next), c02FixedRec(5, 2000000, 1005, 80, "", &next)}
		return []c02FixedCase{
			{files: [][]*vidx.SRec{f}, search: &c02Search{raw: "id:3 or cport:1003", limit: 100}},
			{files: [][]*vidx.SRec{f}, search: &c02Search{raw: "id:3 or cport:1003,1005 sort:id", limit: 1}},
		}
	case fC02EarlyTie:
		// three streams with the same first packet time; sort:ftime,cport limit 1 must return the smallest
		// client port whatever order the time-sorted section lists the ties in
		var out []c02FixedCase
		for _, perm := range [][3]uint16{{1, 2, 3}, {1, 3, 2}, {2, 1, 3}, {2, 3, 1}, {3, 1, 2}, {3, 2, 1}} {
			f := []*vidx.SRec{}
			for i, cp := range perm {
				f = append(f, c02FixedRec(uint64(i+1), 0, cp, 80, "", &next))
			}
			out = append(out, c02FixedCase{files: [][]*vidx.SRec{f}, search: &c02Search{raw: "sport:80 sort:ftime,cport", limit: 1}})
			out = append(out, c02FixedCase{files: [][]*vidx.SRec{f}, search: &c02Search{raw: "sport:80 sort:-ftime,-cport", limit: 2}})
		}
		return out
	case fC02NegImpTag:
		// tag/a can never match; stream 1 is still undecided, so -tag:a must list it
		f := []*vidx.SRec{c02FixedRec(1, 0, 1001, 80, "", &next), c02FixedRec(2, 1000000, 1002, 80, "", &next)}
		tg := func() []*c02Tag {
			return []*c02Tag{{name: "tag/a", defText: "!chost:@chost@", uncertain: []uint{1}, raw: true}}
		}
		return []c02FixedCase{
			{files: [][]*vidx.SRec{f}, tags: tg(), search: &c02Search{raw: "-tag:a", limit: 100}},
			{files: [][]*vidx.SRec{f}, tags: tg(), search: &c02Search{raw: "tag:a", limit: 100}},
		}
	case fC02InlineAlias:
		// three tag filters in one conjunct; tag/a is undecided for stream 2 and its negated definition is a
		// single condition, tag/c is undecided for stream 9: the copies made while inlining tag/c share their
		// backing array with the originals and overwrite the "decided and failing" variant of the tag/c filter
		f := []*vidx.SRec{c02FixedRec(2, 0, 1002, 80, "", &next), c02FixedRec(9, 1000000, 1009, 80, "", &next)}
		tg := func() []*c02Tag {
			return []*c02Tag{
				{name: "tag/a", defText: "id:10", uncertain: []uint{2}, raw: true},
				{name: "tag/b", defText: "id:11", raw: true},
				{name: "tag/c", defText: "id:12", uncertain: []uint{9}, raw: true},
			}
		}
		return []c02FixedCase{
			{files: [][]*vidx.SRec{f}, tags: tg(), search: &c02Search{raw: "-tag:a -tag:b -tag:c", limit: 100}},
			{files: [][]*vidx.SRec{f}, tags: tg(), search: &c02Search{raw: "-tag:c -tag:b -tag:a", limit: 0}},
		}
	case fC02CleanConv:
		// tag/a = "no aa from the server" is undecided for stream 1 whose raw server data holds aa while the
		// cached output of converter c1 is empty: -sdata.c1:aa of the query and -sdata:aa of the inlined
		// definition search different data but are merged into one filter. Refusing the mix is fine too.
		f := []*vidx.SRec{c02FixedRec(1, 0, 1001, 80, "", &next), c02FixedRec(2, 1000000, 1002, 80, "", &next)}
		f[0].Packets = append(f[0].Packets, vidx.SPacket{File: "c02.pcap", Index: 1000, TimeUS: f[0].Packets[0].TimeUS, Dir: 1, Payload: []byte("aab")})
		tg := func() []*c02Tag {
			return []*c02Tag{{name: "tag/a", defText: "-sdata:aa", uncertain: []uint{1, 2}, raw: true}}
		}
		conv := map[uint64][]vq.Run{1: {}, 2: {}}
		return []c02FixedCase{
			{files: [][]*vidx.SRec{f}, tags: tg(), conv: conv, mayRefuse: true, search: &c02Search{raw: "tag:a -sdata.c1:aa", limit: 100}},
			{files: [][]*vidx.SRec{f}, tags: tg(), conv: conv, mayRefuse: true, search: &c02Search{raw: "tag:a -sdata.none:aa", limit: 100}},
		}
	case fC02NegSeqMulti:
		// tag/a = "aa then bb from the client" is undecided for stream 3, which has no raw payload and whose
		// cached converter output holds aa but no bb: the definition is false for it, so -tag:a must list it.
		// The negated sequence is expanded to (no aa) or (aa then no bb), and each alternative must hold on
		// every data source at once: the raw data only satisfies the first, the converter output only the second.
		f := []*vidx.SRec{c02FixedRec(3, 0, 1003, 80, "", &next), c02FixedRec(4, 1000000, 1004, 80, "aabb", &next)}
		tg := func() []*c02Tag {
			return []*c02Tag{{name: "tag/a", defText: "cdata:aa then cdata:bb", uncertain: []uint{3, 4}, raw: true}}
		}
		conv := map[uint64][]vq.Run{3: {{Dir: 0, Data: []byte("aa")}}}
		return []c02FixedCase{
			{files: [][]*vidx.SRec{f}, tags: tg(), conv: conv, search: &c02Search{raw: "-tag:a", limit: 100}},
			{files: [][]*vidx.SRec{f}, tags: tg(), conv: conv, search: &c02Search{raw: "tag:a", limit: 100}},
		}
	case fC02InvSeqNoOut:
		// stream 4 has no cached output of converter c1. "cc then not x" in c1's output is answered with
		// "matches" for it when searched alone, but next to the alternative "cc" the normaliser (run again by
		// the engine) drops it as implied by "cc", which does not match stream 4: the whole query loses it.
		// Checked against the engine itself, so either reading of the filter passes once both agree.
		f := []*vidx.SRec{c02FixedRec(3, 0, 1003, 80, "", &next), c02FixedRec(4, 1000000, 1004, 80, "aabb", &next)}
		conv := map[uint64][]vq.Run{3: {{Dir: 1, Data: []byte("zz")}}}
		return []c02FixedCase{
			{files: [][]*vidx.SRec{f}, conv: conv, unionOnly: true, search: &c02Search{raw: "sdata.c1:cc then (cport:1: or -cdata.c1:x or sport:0:)"}},
			{files: [][]*vidx.SRec{f}, conv: conv, search: &c02Search{raw: "sdata.c1:zz then -cdata.c1:x", limit: 100}},
		}
	case fC02SubNegHost:
		// every client address (10.0.0.1) differs from the server address of the sub-query stream (10.0.0.2): all match
		f := []*vidx.SRec{c02FixedRec(1, 0, 1001, 80, "", &next), c02FixedRec(2, 1000000, 1002, 80, "", &next)}
		all := func(*c02Vis) (bool, error) { return true, nil }
		none := func(*c02Vis) (bool, error) { return false, nil }
		return []c02FixedCase{
			{files: [][]*vidx.SRec{f}, search: &c02Search{raw: "@s:id:1 -chost:@s:shost@", limit: 100, accept: all}},
			{files: [][]*vidx.SRec{f}, search: &c02Search{raw: "@s:id:1 -chost:@s:chost@", limit: 100, accept: none}},
			{files: [][]*vidx.SRec{f}, search: &c02Search{raw: "@s:id:1 chost:@s:chost@", limit: 100, accept: all}},
		}
	case fC02SubPendingTag:
		f := []*vidx.SRec{c02FixedRec(0, 0, 1000, 80, "", &next), c02FixedRec(1, 1000000, 1001, 80, "", &next), c02FixedRec(2, 2000000, 1002, 443, "", &next)}
		tg := func() []*c02Tag {
			return []*c02Tag{
				{name: "mark/m", defText: "id:0", matches: []uint{0}, raw: true},
				{name: "tag/b", defText: "@q:mark:m sport:@q:sport@", uncertain: []uint{0, 1, 2}, raw: true},
			}
		}
		only := func(ids ...uint64) func(*c02Vis) (bool, error) {
			return func(v *c02Vis) (bool, error) {
				for _, id := range ids {
					if v.s.ID == id {
						return true, nil
					}
				}
				return false, nil
			}
		}
		return []c02FixedCase{
			{files: [][]*vidx.SRec{f}, tags: tg(), search: &c02Search{raw: "@q:mark:m sport:@q:sport@", limit: 100, accept: only(0, 1)}},
			{files: [][]*vidx.SRec{f}, tags: tg(), search: &c02Search{raw: "tag:b", limit: 100, accept: only(0, 1)}},
			{files: [][]*vidx.SRec{f}, tags: []*c02Tag{
				{name: "tag/a", defText: "cport:1000", uncertain: []uint{0, 1, 2}, raw: true},
				{name: "tag/b", defText: "@q:tag:a sport:@q:sport@", uncertain: []uint{0, 1, 2}, raw: true},
			}, search: &c02Search{raw: "@q:tag:a sport:@q:sport@", limit: 100, accept: only(0, 1)}},
			{files: [][]*vidx.SRec{f}, tags: []*c02Tag{
				{name: "tag/a", defText: "cport:1000", uncertain: []uint{0, 1, 2}, raw: true},
				{name: "tag/b", defText: "@q:tag:a sport:@q:sport@", uncertain: []uint{0, 1, 2}, raw: true},
			}, search: &c02Search{raw: "tag:b", limit: 100, accept: only(0, 1)}},
		}
	case fC02SubSecond:
		// sub-query a selects stream 1 (client port 1001), sub-query b stream 2 (client port 1002)
		f := []*vidx.SRec{c02FixedRec(1, 0, 1001, 80, "", &next), c02FixedRec(2, 1000000, 1002, 80, "", &next), c02FixedRec(3, 2000000, 1003, 80, "", &next)}
		only := func(ids ...uint64) func(*c02Vis) (bool, error) {
			return func(v *c02Vis) (bool, error) {
				for _, id := range ids {
					if v.s.ID == id {
						return true, nil
					}
				}
				return false, nil
			}
		}
		return []c02FixedCase{
			{files: [][]*vidx.SRec{f}, search: &c02Search{raw: "@a:cport:1001 @b:cport:1002 id:@a:id@ id:@b:id@", limit: 100, accept: only()}},
			{files: [][]*vidx.SRec{f}, search: &c02Search{raw: "@a:cport:1001 @b:cport:1002 id:@a:id@+@b:id@", limit: 100, accept: only(3)}},
			{files: [][]*vidx.SRec{f}, search: &c02Search{raw: "@a:cport:1001 @b:cport:9 id:@a:id@ cport:@b:cport@:", limit: 100, accept: only()}},
			{files: [][]*vidx.SRec{f}, search: &c02Search{raw: "@b:cport:1002 id:@b:id@: @a:cport:1001 -id:@a:id@", limit: 100, accept: only(2, 3)}},
		}
	}
	return nil
}

func TestVerifC02Fixed(t *testing.T) {
	names := []string{fC02Double, fC02EarlyTie, fC02NegImpTag, fC02InlineAlias, fC02CleanConv, fC02NegSeqMulti, fC02InvSeqNoOut, fC02SubNegHost, fC02SubSecond, fC02SubPendingTag}
	vlib.Fixed(t, "C02", names, func(name string) (string, any) {
		cases := c02FixedCases(name)
		if len(cases) == 0 {
			return "unknown fixed case " + name, nil
		}
		for _, fc := range cases {
			if msg, rendering := c02FixedRun(fc); msg != "" {
				return msg, rendering
			}
		}
		return "", nil
	})
}
