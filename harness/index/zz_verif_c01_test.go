package index_test

// C01 — index files return every stored stream exactly as written.
// Model = input: generated stream records are written through
// NewWriter/AddStream/Finalize and everything observable of the resulting
// reader is compared with the records (vidx.CheckReader). See DESIGN.md §5 C01.

import (
	"fmt"
	"net"
	"os"
	"path/filepath"
	"strings"
	"testing"

	"github.com/spq/pkappa2/internal/verif/vidx"
	"github.com/spq/pkappa2/internal/verif/vlib"
	"pgregory.net/rapid"
)

const (
	fC01StartUnits = "F-C01-hostgroup-start-units"
	fC01PopBytes   = "F-C01-hostgroup-pop-bytes"
	c01HeapLimit   = 3 << 29
)

func c01Key(recs []*vidx.SRec) string {
	var sb strings.Builder
	for _, r := range recs {
		fmt.Fprintf(&sb, "%d|%s|%s|%d|%d|%v|", r.ID, r.CAddr, r.SAddr, r.CPort, r.SPort, r.UDP)
		for _, p := range r.Packets {
			fmt.Fprintf(&sb, "%s#%d@%d/%d:%d,", p.File, p.Index, p.TimeUS, p.Dir, len(p.Payload))
		}
		sb.WriteByte(';')
	}
	return sb.String()
}

func c01Briefs(recs []*vidx.SRec) []any {
	out := make([]any, 0, len(recs))
	for _, r := range recs {
		out = append(out, r.Brief())
	}
	return out
}

func c01Labels(c *vlib.Case, st vidx.FileStats, sparse bool, groups int) (nontrivial bool) {
	c.LabelIf(st.Streams >= 2, "streams>=2")
	c.LabelIf(st.Streams >= 20, "streams>=20")
	c.LabelIf(st.MaxPayload > 65535, "payload>64KiB")
	c.LabelIf(st.MaxPayload == 65535, "payload=65535")
	c.LabelIf(st.MaxPayload >= 2*65536, "payload>=128KiB")
	c.LabelIf(st.Captures >= 2, "captures>=2")
	c.LabelIf(st.OffsetOver32, "offset>2^32us")
	c.LabelIf(st.GapOver32, "single-gap>=2^32us")
	c.LabelIf(sparse, "ids:sparse")
	c.LabelIf(!sparse, "ids:dense-shuffled")
	c.LabelIf(st.Payloadless > 0, "payloadless-packets")
	c.LabelIf(st.MaxIdleRun > 255, "idle-run>255")
	c.LabelIf(st.IdleBetween, "idle-run>255-between-payload")
	c.LabelIf(st.TrailingIdle > 0, "trailing-payloadless")
	c.LabelIf(st.TrailingIdle > 255, "trailing-payloadless>255")
	c.LabelIf(st.IndexOver32, "packet-index>=2^32")
	c.LabelIf(st.ImportsSplit, "capture-split-at-2^32")
	c.LabelIf(st.EarlierThan1, "later-stream-before-reference-second")
	c.LabelIf(st.BothFamilies, "v4+v6")
	c.LabelIf(st.ServerFirst, "server-speaks-first")
	c.LabelIf(st.MaxDirChanges > 1000, "direction-changes>1000")
	c.LabelIf(st.ChattyNotLast, "direction-changes>1000-then-more-streams")
	c.LabelIf(groups >= 2, "hostgroups>=2")
	return st.Streams >= 2 && (st.MaxPayload > 65535 || groups >= 2 || st.Captures >= 2 || st.OffsetOver32 || sparse || st.Payloadless > 0 || st.MaxIdleRun > 255)
}

// c01Run writes the records and applies the oracle.
func c01Run(rt *rapid.T, c *vlib.Case, recs []*vidx.SRec) {
	dir, err := os.MkdirTemp("", "c01-")
	if err != nil {
		panic(err)
	}
	defer os.RemoveAll(dir)
	r, err := vidx.BuildIndex(filepath.Join(dir, "c01.idx"), recs)
	if err != nil {
		rt.Fatalf("writing the index failed: %v", err)
	}
	defer r.Close()
	msg, lookups := vidx.CheckReader(r, recs)
	c.Count("source_lookups", lookups)
	c.Count("streams", len(recs))
	if msg != "" {
		rt.Fatalf("%s", msg)
	}
}

func c01Prop(t *testing.T, rt *rapid.T, c *vlib.Case) {
	u := vidx.GenUniverse(rt)
	n := rapid.IntRange(1, 8).Draw(rt, "nstreams")
	if rapid.IntRange(0, 2).Draw(rt, "many") == 0 {
		n = rapid.IntRange(1, 40).Draw(rt, "nstreams40")
	}
	ids, sparse := vidx.GenIDs(rt, n)
	recs := make([]*vidx.SRec, 0, n)
	for _, id := range ids {
		recs = append(recs, u.GenStream(rt, id))
	}
	// the order in which streams are added is independent of the order of their packets in the captures
	if rapid.Bool().Draw(rt, "shuffle") {
		recs = rapid.Permutation(recs).Draw(rt, "addorder")
	}
	caps := []string{}
	for _, cp := range u.Caps {
		caps = append(caps, cp.Name)
	}
	c.Render(func() any { return map[string]any{"captures": caps, "streams": c01Briefs(recs)} })
	c.Trace(t)

	hm := &vidx.HostModel{}
	for _, r := range recs {
		hm.Place(r.CAddr, r.SAddr)
	}
	st := vidx.Stats(recs)
	if c01Labels(c, st, sparse, hm.Groups()) {
		c.NonTrivial(c01Key(recs))
	}
	c01Run(rt, c, recs)
}

func TestVerifC01(t *testing.T) {
	vidx.MemWatchdog(c01HeapLimit)
	vlib.Check(t, "C01", func(rt *rapid.T, c *vlib.Case) { c01Prop(t, rt, c) })
}

// ---------------------------------------------------------------------------
// large host tables

// c01Bulk appends one-packet streams that introduce new hosts of the numbered
// host space until the first group of the family holds `target` hosts.
type c01Bulk struct {
	fam    int // 4 or 16
	base   uint32
	hostNo int
	cap0   *vidx.Capture
	timeUS int64
	n      int
}

func (b *c01Bulk) newHost() net.IP {
	h := vidx.SeqHost(b.fam, b.base, b.hostNo)
	b.hostNo++
	return h
}

func (b *c01Bulk) stream(id uint64, c, s net.IP) *vidx.SRec {
	r := &vidx.SRec{ID: id, CAddr: c, SAddr: s, CPort: uint16(b.n), SPort: uint16(b.n >> 16), UDP: b.n%5 == 0}
	p := vidx.SPacket{File: b.cap0.Name, Index: b.cap0.Next, TimeUS: b.timeUS, Dir: 0}
	b.cap0.Next++
	b.timeUS += int64(b.n%7) * 250
	if l := b.n % 3; l > 0 {
		p.Payload = vidx.Fill(uint32(id)*31+uint32(b.n), l)
	}
	r.Packets = []vidx.SPacket{p}
	b.n++
	return r
}

func c01HostsProp(t *testing.T, rt *rapid.T, c *vlib.Case, open map[string]bool, fam int) {
	u := vidx.GenUniverse(rt)
	u.NoBig, u.NoIdle = true, true
	capN := vidx.HostCapacity(fam)
	otherMode, ownMode := 1, 0 // FamMode values of the small pools
	if fam == 16 {
		otherMode, ownMode = 0, 1
	}
	hm := &vidx.HostModel{}
	var recs []*vidx.SRec
	usedID := map[uint64]bool{}
	tailID := func() uint64 {
		// above every bulk ID (those stay below 2^37), so the two ranges never collide
		id := 1<<41 + rapid.Uint64Range(0, 1<<20).Draw(rt, "tailid")
		for usedID[id] {
			id++
		}
		usedID[id] = true
		return id
	}
	excluded := 0
	add := func(r *vidx.SRec) {
		hm.Place(r.CAddr, r.SAddr)
		recs = append(recs, r)
	}

	// prelude: a few streams of the other family so that the big family is not group 0
	var prelude []*vidx.SRec
	if rapid.Bool().Draw(rt, "prelude") {
		u.FamMode = otherMode
		for i, n := 0, rapid.IntRange(1, 3).Draw(rt, "nprelude"); i < n; i++ {
			r := u.GenStream(rt, tailID())
			prelude = append(prelude, r)
			add(r)
		}
	}
	ownGroup := hm.Groups() // index the first group of the big family will get

	// bulk
	d := rapid.SampledFrom([]int{0, 1, 1, 1, 2, 3}).Draw(rt, "slots_left")
	modes := []string{"two", "two", "alt"}
	if fam == 16 {
		modes = append(modes, "one")
	}
	mode := rapid.SampledFrom(modes).Draw(rt, "bulkmode")
	b := &c01Bulk{fam: fam, base: rapid.Uint32Range(0x0b000000, 0xd0000000).Draw(rt, "hostbase"), cap0: u.Caps[0],
		timeUS: u.BaseSec*1000000 + int64(rapid.IntRange(0, 999999).Draw(rt, "bulkstart"))}
	idBase := rapid.SampledFrom([]uint64{0, 1, 5000, 1<<32 - 100, 1 << 36}).Draw(rt, "idbase")
	idStride := rapid.SampledFrom([]uint64{1, 1, 3}).Draw(rt, "idstride")
	descending := rapid.Bool().Draw(rt, "iddesc")
	target := capN - d
	var first net.IP
	for have := 0; have < target; {
		two := mode == "two" || (mode == "alt" && b.n%2 == 0)
		if target-have == 1 {
			two = false
		}
		k := uint64(b.n)
		if descending {
			k = uint64(capN) - k
		}
		id := idBase + k*idStride
		usedID[id] = true
		cl := b.newHost()
		if first == nil {
			first = cl
		}
		sv := first
		have++
		if two {
			sv = b.newHost()
			have++
		}
		add(b.stream(id, cl, sv))
	}
	nbulk := b.n
	if g, _ := hm.GroupLen(ownGroup); g != target || hm.Groups() != ownGroup+1 {
		panic(fmt.Sprintf("harness: bulk produced groups %v, want %d hosts in group %d", hm.GroupSizes(), target, ownGroup))
	}

	// tail: generated streams around the point where the group fills up
	var tail []*vidx.SRec
	ntail := rapid.IntRange(3, 20).Draw(rt, "ntail")
	kinds := map[string]bool{}
	for i := 0; i < ntail; i++ {
		kind := rapid.SampledFrom([]string{"new+new", "new+new", "new+old", "old+new", "old+old", "last+last", "first+last", "other", "new=new"}).Draw(rt, "hostkind")
		var r *vidx.SRec
		if kind == "other" {
			u.FamMode = otherMode
			r = u.GenStream(rt, tailID())
		} else {
			u.FamMode = ownMode
			r = u.GenStream(rt, tailID())
			// groups of the big family
			var own []int
			for gi := 0; gi < hm.Groups(); gi++ {
				if _, sz := hm.GroupLen(gi); sz == fam {
					own = append(own, gi)
				}
			}
			pick := func(gi int, l string) net.IP {
				n, _ := hm.GroupLen(gi)
				return hm.GroupHost(gi, rapid.IntRange(0, n-1).Draw(rt, l))
			}
			lastG := own[len(own)-1]
			switch kind {
			case "new+new":
				r.CAddr, r.SAddr = b.newHost(), b.newHost()
			case "new=new":
				r.CAddr = b.newHost()
				r.SAddr = r.CAddr
			case "new+old":
				r.CAddr, r.SAddr = b.newHost(), pick(own[rapid.IntRange(0, len(own)-1).Draw(rt, "g")], "h")
			case "old+new":
				r.CAddr, r.SAddr = pick(own[rapid.IntRange(0, len(own)-1).Draw(rt, "g")], "h"), b.newHost()
			case "old+old":
				r.CAddr, r.SAddr = pick(own[0], "h1"), pick(own[0], "h2")
			case "last+last":
				r.CAddr, r.SAddr = pick(lastG, "h1"), pick(lastG, "h2")
			case "first+last":
				r.CAddr, r.SAddr = pick(own[0], "h1"), pick(lastG, "h2")
				if rapid.Bool().Draw(rt, "swap") {
					r.CAddr, r.SAddr = r.SAddr, r.CAddr
				}
			}
			// steer away from the shapes of open findings (by construction)
			for tries := 0; ; tries++ {
				_, second, pop := hm.Peek(r.CAddr, r.SAddr)
				if open[fC01StartUnits] && second {
					// any stream stored in a second group of one family is misread: keep both hosts in the first group
					r.CAddr, r.SAddr = pick(own[0], "x1"), pick(own[0], "x2")
					excluded++
					kind += ">excluded"
					continue
				}
				if open[fC01PopBytes] && pop {
					// group with exactly one free slot and two new hosts: use a known server instead
					r.SAddr = pick(own[0], "x3")
					excluded++
					kind += ">excluded"
					continue
				}
				if tries > 3 {
					panic("harness: cannot steer away from open findings")
				}
				break
			}
		}
		kinds[kind] = true
		_, second, pop := hm.Place(r.CAddr, r.SAddr)
		kinds[fmt.Sprintf("tail-in-second-group:%v", second)] = true
		if pop {
			kinds["one-slot-left+two-new-hosts"] = true
		}
		recs = append(recs, r)
		tail = append(tail, r)
	}
	c.Count("excluded_known", excluded)

	c.Render(func() any {
		return map[string]any{"family": fam, "hostbase": b.base, "slots_left_after_bulk": d, "bulkmode": mode, "bulk_streams": nbulk,
			"idbase": idBase, "idstride": idStride, "iddescending": descending, "groups": hm.GroupSizes(),
			"prelude": c01Briefs(prelude), "tail": c01Briefs(tail)}
	})
	c.Trace(t)
	for k := range kinds {
		c.Label("hosts:" + k)
	}
	c.Labelf("hosts:family=v%d", map[int]int{4: 4, 16: 6}[fam])
	c.Labelf("hosts:slots-left-after-bulk=%d", d)
	c.Labelf("hosts:groups=%d", hm.Groups())
	c.Label("hosts:bulk=" + mode)
	c.LabelIf(hm.PopShapes > 0, "hosts:add-then-remove-path")
	c.LabelIf(len(prelude) > 0, "hosts:other-family-first")
	nOwn := 0
	for gi := 0; gi < hm.Groups(); gi++ {
		if _, sz := hm.GroupLen(gi); sz == fam {
			nOwn++
		}
	}
	c.LabelIf(nOwn >= 2, "second-host-group-same-family")
	c.LabelIf(hm.Groups() >= 2, "hostgroups>=2")
	c.NonTrivial(fmt.Sprintf("%d|%d|%d|%s|%d|%d|%v|%s", fam, b.base, d, mode, idBase, idStride, descending, c01Key(prelude)+c01Key(tail)))
	c01Run(rt, c, recs)
}

func TestVerifC01Hosts6(t *testing.T) {
	vidx.MemWatchdog(c01HeapLimit)
	open := vlib.OpenFindings()
	vlib.Check(t, "C01", func(rt *rapid.T, c *vlib.Case) { c01HostsProp(t, rt, c, open, 16) })
}

func TestVerifC01Hosts4(t *testing.T) {
	vidx.MemWatchdog(c01HeapLimit)
	open := vlib.OpenFindings()
	vlib.Check(t, "C01", func(rt *rapid.T, c *vlib.Case) { c01HostsProp(t, rt, c, open, 4) })
}

// ---------------------------------------------------------------------------
// fixed cases: probes of open findings / regression of repaired ones

// c01FixedFile builds a v6 file whose first host group is left with `free`
// free slots, followed by the given extra streams.
func c01FixedFile(free int, extra func(b *c01Bulk, first net.IP) []*vidx.SRec) (string, any) {
	b := &c01Bulk{fam: 16, base: 0x0b000000, cap0: &vidx.Capture{Name: "a.pcap"}, timeUS: 1600000000 * 1000000}
	var recs []*vidx.SRec
	var first net.IP
	target := vidx.HostCapacity(16) - free
	for have := 0; have < target; {
		cl := b.newHost()
		if first == nil {
			first = cl
		}
		sv := first
		have++
		if target-have >= 1 {
			sv = b.newHost()
			have++
		}
		recs = append(recs, b.stream(uint64(b.n), cl, sv))
	}
	nb := len(recs)
	recs = append(recs, extra(b, first)...)
	rendering := map[string]any{"bulk_streams": nb, "hosts_in_first_group": target, "extra": c01Briefs(recs[nb:])}
	dir, err := os.MkdirTemp("", "c01fixed-")
	if err != nil {
		panic(err)
	}
	defer os.RemoveAll(dir)
	r, err := vidx.BuildIndex(filepath.Join(dir, "c01.idx"), recs)
	if err != nil {
		return "writing the index failed: " + err.Error(), rendering
	}
	defer r.Close()
	msg, _ := vidx.CheckReader(r, recs)
	return msg, rendering
}

func TestVerifC01Fixed(t *testing.T) {
	vidx.MemWatchdog(c01HeapLimit)
	vlib.Fixed(t, "C01", []string{fC01StartUnits, fC01PopBytes}, func(name string) (string, any) {
		switch name {
		case fC01StartUnits:
			// the first v6 group is filled completely (4096 hosts, no removal involved); two more
			// hosts open a second v6 group whose Start is written in hosts but read as a byte offset
			return c01FixedFile(0, func(b *c01Bulk, first net.IP) []*vidx.SRec {
				return []*vidx.SRec{b.stream(100000, b.newHost(), b.newHost())}
			})
		case fC01PopBytes:
			// one slot left, a stream with two new hosts: the client is added to the group and
			// removed again (one byte instead of one host), the pair opens the second group
			return c01FixedFile(1, func(b *c01Bulk, first net.IP) []*vidx.SRec {
				x, y := b.newHost(), b.newHost()
				return []*vidx.SRec{
					b.stream(100000, x, y),
					b.stream(100001, y, first),
					b.stream(100002, b.newHost(), first), // takes the last slot of the first group
					b.stream(100003, x, b.newHost()),
				}
			})
		}
		return "", nil
	})
}
